#!/bin/sh
# usage: ./check.sh <property id> <quick|thorough>
# Rebuilds the analyser if needed and analyses /repo's current working tree.
set -u
cd "$(dirname "$0")"
export GOFLAGS=-mod=mod GOPROXY=off GOSUMDB=off GOTOOLCHAIN=local GOWORK=off
if [ ! -x bin/gopkgcheck ] || [ -n "$(find checker -newer bin/gopkgcheck \( -name '*.go' -o -name 'known_calls.txt' -o -name 'rule_floor.txt' \) 2>/dev/null | head -1)" ]; then
  (cd checker && go build -o ../bin/gopkgcheck .) || { echo "cannot build analyser" >&2; exit 2; }
fi
exec bin/gopkgcheck -prop "$1" -tier "${2:-quick}" -repo "${VERIF_REPO:-/repo}" -verif "$(pwd)"
