package main

// E0: loading. go/packages on ./... of the repository, SSA with instantiated
// generics, lookups by exported API object, dominator helpers.

import (
	"fmt"
	"go/ast"
	"go/token"
	"go/types"
	"os"
	"sort"
	"strings"

	"golang.org/x/tools/go/packages"
	"golang.org/x/tools/go/ssa"
	"golang.org/x/tools/go/ssa/ssautil"
)

const modPath = "github.com/cloudwego/gopkg"

type Program struct {
	Repo     string
	Fset     *token.FileSet
	Pkgs     []*packages.Package
	SSA      *ssa.Program
	SSAPkgs  map[string]*ssa.Package // by import path
	AllFuncs map[*ssa.Function]bool
	Config   string
	deep     bool
}

// LoadOpts controls one load of the repository.
type LoadOpts struct {
	Repo     string
	Deep     bool              // load dependencies from source too (thorough tier)
	Overlay  map[string][]byte // absolute file name -> contents
	Tags     string
	Patterns []string // default ./...
}

func loadProgram(o LoadOpts) (*Program, error) {
	mode := packages.NeedName | packages.NeedFiles | packages.NeedCompiledGoFiles |
		packages.NeedImports | packages.NeedTypes | packages.NeedTypesSizes |
		packages.NeedSyntax | packages.NeedTypesInfo | packages.NeedModule
	if o.Deep {
		mode |= packages.NeedDeps
	} else {
		mode |= packages.NeedDeps // types of deps come from export data when syntax is not requested for them
	}
	env := append(os.Environ(),
		"GOFLAGS=-mod=mod", "GOPROXY=off", "GOSUMDB=off", "GOTOOLCHAIN=local", "GOWORK=off", "CGO_ENABLED=0")
	cfg := &packages.Config{
		Mode:    mode,
		Dir:     o.Repo,
		Env:     env,
		Fset:    token.NewFileSet(),
		Overlay: o.Overlay,
		Tests:   false,
	}
	if o.Tags != "" {
		cfg.BuildFlags = []string{"-tags=" + o.Tags}
	}
	pats := o.Patterns
	if len(pats) == 0 {
		pats = []string{"./..."}
	}
	pkgs, err := packages.Load(cfg, pats...)
	if err != nil {
		return nil, fmt.Errorf("packages.Load: %w", err)
	}
	if len(pkgs) == 0 {
		return nil, fmt.Errorf("no packages loaded from %s", o.Repo)
	}
	var errs []string
	packages.Visit(pkgs, nil, func(p *packages.Package) {
		if !strings.HasPrefix(p.PkgPath, modPath) {
			return
		}
		for _, e := range p.Errors {
			errs = append(errs, e.Error())
		}
	})
	if len(errs) > 0 {
		return nil, fmt.Errorf("type/load errors: %s", strings.Join(errs, "; "))
	}
	sort.Slice(pkgs, func(i, j int) bool { return pkgs[i].PkgPath < pkgs[j].PkgPath })
	bmode := ssa.InstantiateGenerics | ssa.SanityCheckFunctions
	var prog *ssa.Program
	var spkgs []*ssa.Package
	if o.Deep {
		prog, spkgs = ssautil.AllPackages(pkgs, bmode)
	} else {
		prog, spkgs = ssautil.Packages(pkgs, bmode)
	}
	for i, sp := range spkgs {
		if sp == nil {
			return nil, fmt.Errorf("no SSA package for %s", pkgs[i].PkgPath)
		}
	}
	prog.Build()
	P := &Program{Repo: o.Repo, Fset: cfg.Fset, Pkgs: pkgs, SSA: prog, SSAPkgs: map[string]*ssa.Package{}, deep: o.Deep}
	for _, sp := range prog.AllPackages() {
		P.SSAPkgs[sp.Pkg.Path()] = sp
	}
	P.AllFuncs = ssautil.AllFunctions(prog)
	P.Config = "linux/amd64 default build tags"
	if o.Tags != "" {
		P.Config += " +tags=" + o.Tags
	}
	return P, nil
}

func (P *Program) pkg(rel string) *ssa.Package {
	path := modPath
	if rel != "" {
		path += "/" + rel
	}
	return P.SSAPkgs[path]
}

func (P *Program) tpkg(rel string) *packages.Package {
	path := modPath
	if rel != "" {
		path += "/" + rel
	}
	for _, p := range P.Pkgs {
		if p.PkgPath == path {
			return p
		}
	}
	return nil
}

// inRepo reports whether fn belongs to one of the repository's packages
// (instantiations of repo generics included).
func inRepo(fn *ssa.Function) bool {
	if fn == nil {
		return false
	}
	if o := fn.Origin(); o != nil {
		fn = o
	}
	for fn.Parent() != nil {
		fn = fn.Parent()
	}
	if fn.Pkg != nil {
		return strings.HasPrefix(fn.Pkg.Pkg.Path(), modPath)
	}
	if fn.Object() != nil && fn.Object().Pkg() != nil {
		return strings.HasPrefix(fn.Object().Pkg().Path(), modPath)
	}
	return false
}

func fnPkgPath(fn *ssa.Function) string {
	if fn == nil {
		return ""
	}
	f := fn
	if o := f.Origin(); o != nil {
		f = o
	}
	for f.Parent() != nil {
		f = f.Parent()
	}
	if f.Pkg != nil {
		return f.Pkg.Pkg.Path()
	}
	if f.Object() != nil && f.Object().Pkg() != nil {
		return f.Object().Pkg().Path()
	}
	return ""
}

// shortName renders a function as pkg.(Recv).Name without the module prefix.
func shortName(fn *ssa.Function) string {
	if fn == nil {
		return "<nil>"
	}
	s := fn.String()
	s = strings.ReplaceAll(s, modPath+"/", "")
	s = strings.ReplaceAll(s, "protocol/thrift/", "")
	s = strings.ReplaceAll(s, "protocol/", "")
	s = strings.ReplaceAll(s, "container/", "")
	s = strings.ReplaceAll(s, "internal/", "")
	return s
}

// Func returns the package-level function rel.name, or nil.
func (P *Program) Func(rel, name string) *ssa.Function {
	sp := P.pkg(rel)
	if sp == nil {
		return nil
	}
	return sp.Func(name)
}

// Method returns the method typ.name (value or pointer receiver), or nil.
func (P *Program) Method(rel, typ, name string) *ssa.Function {
	sp := P.pkg(rel)
	if sp == nil {
		return nil
	}
	t := sp.Type(typ)
	if t == nil {
		return nil
	}
	T := t.Type()
	for _, recv := range []types.Type{T, types.NewPointer(T)} {
		ms := P.SSA.MethodSets.MethodSet(recv)
		for i := 0; i < ms.Len(); i++ {
			sel := ms.At(i)
			if sel.Obj().Name() == name {
				if f := P.SSA.MethodValue(sel); f != nil && f.Synthetic == "" {
					return f
				} else if f != nil {
					// wrapper (e.g. promoted through embedding): find the declared one
					if fn, ok := sel.Obj().(*types.Func); ok {
						if d := P.SSA.FuncValue(fn); d != nil {
							return d
						}
					}
					return f
				}
			}
		}
	}
	return nil
}

// Instances returns all instantiations of the generic method/function named
// name declared in package rel whose receiver's origin type is typ ("" for
// plain functions), plus the generic body itself.
func (P *Program) Instances(rel, typ, name string) []*ssa.Function {
	var out []*ssa.Function
	path := modPath + "/" + rel
	for fn := range P.AllFuncs {
		if baseName(fn) != name || fnPkgPath(fn) != path {
			continue
		}
		if fn.Synthetic != "" && !strings.Contains(fn.Synthetic, "instance") {
			continue
		}
		sig := fn.Signature
		if typ == "" {
			if sig.Recv() == nil {
				out = append(out, fn)
			}
			continue
		}
		if sig.Recv() == nil {
			continue
		}
		rt := sig.Recv().Type()
		if p, ok := rt.(*types.Pointer); ok {
			rt = p.Elem()
		}
		if n, ok := rt.(*types.Named); ok && n.Obj().Name() == typ {
			out = append(out, fn)
		}
	}
	sort.Slice(out, func(i, j int) bool { return out[i].String() < out[j].String() })
	return out
}

func (P *Program) pos(p token.Pos) string {
	if !p.IsValid() {
		return "-"
	}
	pp := P.Fset.Position(p)
	f := strings.TrimPrefix(pp.Filename, P.Repo+"/")
	return fmt.Sprintf("%s:%d", f, pp.Line)
}

// instrPos finds the best source position for an instruction.
func instrPos(in ssa.Instruction) token.Pos {
	if in == nil {
		return token.NoPos
	}
	if p := in.Pos(); p.IsValid() {
		return p
	}
	// look at operands
	var ops []*ssa.Value
	for _, op := range in.Operands(ops) {
		if *op != nil {
			if p := (*op).Pos(); p.IsValid() {
				return p
			}
		}
	}
	// neighbouring instructions in the block
	if b := in.Block(); b != nil {
		idx := -1
		for i, x := range b.Instrs {
			if x == in {
				idx = i
			}
		}
		for d := 1; d < len(b.Instrs); d++ {
			for _, j := range []int{idx - d, idx + d} {
				if j >= 0 && j < len(b.Instrs) {
					if p := b.Instrs[j].Pos(); p.IsValid() {
						return p
					}
				}
			}
		}
	}
	if f := in.Parent(); f != nil {
		return f.Pos()
	}
	return token.NoPos
}

// staticCallee resolves the callee of a call instruction when it is static
// (function, method with known receiver type, or closure literal).
func staticCallee(c ssa.CallInstruction) *ssa.Function {
	return c.Common().StaticCallee()
}

// reachable returns the repo functions reachable from roots through static
// calls (and closures created inside them), not crossing into functions for
// which stop returns true.
func (P *Program) reachable(roots []*ssa.Function, stop func(*ssa.Function) bool) []*ssa.Function {
	seen := map[*ssa.Function]bool{}
	var out []*ssa.Function
	var walk func(f *ssa.Function)
	walk = func(f *ssa.Function) {
		if f == nil || seen[f] || !inRepo(f) || f.Blocks == nil {
			return
		}
		if stop != nil && stop(f) {
			return
		}
		seen[f] = true
		out = append(out, f)
		for _, b := range f.Blocks {
			for _, in := range b.Instrs {
				if c, ok := in.(ssa.CallInstruction); ok {
					if cal := staticCallee(c); cal != nil {
						walk(cal)
					}
				}
				if mc, ok := in.(*ssa.MakeClosure); ok {
					if cf, ok := mc.Fn.(*ssa.Function); ok {
						walk(cf)
					}
				}
			}
		}
		for _, an := range f.AnonFuncs {
			walk(an)
		}
	}
	for _, r := range roots {
		walk(r)
	}
	sort.Slice(out, func(i, j int) bool { return out[i].String() < out[j].String() })
	return out
}

// funcDecl finds the AST declaration of fn (nil for synthetic functions).
func (P *Program) funcDecl(fn *ssa.Function) *ast.FuncDecl {
	if fn == nil {
		return nil
	}
	if o := fn.Origin(); o != nil {
		fn = o
	}
	if d, ok := fn.Syntax().(*ast.FuncDecl); ok {
		return d
	}
	return nil
}

func isNilConst(v ssa.Value) bool {
	c, ok := v.(*ssa.Const)
	return ok && c.Value == nil
}

func deref(t types.Type) types.Type {
	if p, ok := t.Underlying().(*types.Pointer); ok {
		return p.Elem()
	}
	return t
}

func isErrorType(t types.Type) bool {
	return types.Identical(t, types.Universe.Lookup("error").Type())
}

func isByteSlice(t types.Type) bool {
	s, ok := t.Underlying().(*types.Slice)
	if !ok {
		return false
	}
	b, ok := s.Elem().Underlying().(*types.Basic)
	return ok && b.Kind() == types.Uint8
}

func isString(t types.Type) bool {
	b, ok := t.Underlying().(*types.Basic)
	return ok && b.Info()&types.IsString != 0
}

func isInteger(t types.Type) bool {
	b, ok := t.Underlying().(*types.Basic)
	return ok && b.Info()&types.IsInteger != 0
}

func isUnsafePointer(t types.Type) bool {
	b, ok := t.Underlying().(*types.Basic)
	return ok && b.Kind() == types.UnsafePointer
}

// baseName is the function's name without type arguments ("Get[int]" → "Get").
func baseName(fn *ssa.Function) string {
	n := fn.Name()
	if i := strings.IndexByte(n, '['); i >= 0 {
		n = n[:i]
	}
	return n
}

// genericMethods returns the generic (uninstantiated) bodies of all methods
// declared on the named type typ of package rel.
func (P *Program) genericMethods(rel, typ string) []*ssa.Function {
	tp := P.tpkg(rel)
	if tp == nil {
		return nil
	}
	obj := tp.Types.Scope().Lookup(typ)
	if obj == nil {
		return nil
	}
	named, ok := obj.Type().(*types.Named)
	if !ok {
		return nil
	}
	var out []*ssa.Function
	for i := 0; i < named.NumMethods(); i++ {
		if f := P.SSA.FuncValue(named.Method(i)); f != nil && f.Blocks != nil {
			out = append(out, f)
		}
	}
	return out
}

// findReachable returns the first function reachable from the exported entry
// points (by static calls inside the repository) that satisfies pred, in
// breadth-first order: internal helpers are located by what they are, not by
// what they are called.
func (P *Program) findReachable(roots []*ssa.Function, pred func(*ssa.Function) bool) *ssa.Function {
	seen := map[*ssa.Function]bool{}
	queue := []*ssa.Function{}
	for _, r := range roots {
		if r != nil {
			queue = append(queue, r)
			seen[r] = true
		}
	}
	for len(queue) > 0 {
		f := queue[0]
		queue = queue[1:]
		if pred(f) {
			return f
		}
		if f.Blocks == nil {
			continue
		}
		for _, b := range f.Blocks {
			for _, in := range b.Instrs {
				if c, ok := in.(ssa.CallInstruction); ok {
					if cal := staticCallee(c); cal != nil && inRepo(cal) && !seen[cal] {
						seen[cal] = true
						queue = append(queue, cal)
					}
				}
			}
		}
	}
	return nil
}

// sigIs reports whether fn's parameter and result types print as given
// (package qualifiers dropped), e.g. sigIs(f, "(*UnknownField, []byte, int8, int16)", "(int, error)").
func sigIs(fn *ssa.Function, params, results string) bool {
	q := func(*types.Package) string { return "" }
	var ps, rs []string
	for _, p := range fn.Params {
		ps = append(ps, types.TypeString(p.Type(), q))
	}
	res := fn.Signature.Results()
	for i := 0; i < res.Len(); i++ {
		rs = append(rs, types.TypeString(res.At(i).Type(), q))
	}
	return "("+strings.Join(ps, ", ")+")" == params && "("+strings.Join(rs, ", ")+")" == results
}
