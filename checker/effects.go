package main

// E4 (effects), E5 (dominance / path helpers) and E6 (alias roots).

import (
	"fmt"
	"go/token"
	"go/types"
	"sort"
	"strings"

	"golang.org/x/tools/go/ssa"
)

// ---------- E5 helpers ----------

func instrIndex(in ssa.Instruction) int {
	for i, x := range in.Block().Instrs {
		if x == in {
			return i
		}
	}
	return -1
}

// instrDominates reports whether a executes before b on every path to b.
func instrDominates(a, b ssa.Instruction) bool {
	if a.Block() == b.Block() {
		return instrIndex(a) < instrIndex(b)
	}
	return a.Block().Dominates(b.Block())
}

// edgeDominates reports whether every path to block b goes through the edge from→to.
func edgeDominates(from, to, b *ssa.BasicBlock) bool {
	if len(to.Preds) == 1 && to.Preds[0] == from {
		return to == b || to.Dominates(b)
	}
	return false
}

// condEdges lists, for a boolean value, the (block, successor index) pairs of If
// instructions testing it (through negations).
type condEdge struct {
	If    *ssa.If
	Truth bool // successor 0 is taken when the value is Truth
}

func testsOf(v ssa.Value) []condEdge {
	var out []condEdge
	var walk func(x ssa.Value, truth bool)
	walk = func(x ssa.Value, truth bool) {
		refs := x.Referrers()
		if refs == nil {
			return
		}
		for _, r := range *refs {
			switch r := r.(type) {
			case *ssa.If:
				out = append(out, condEdge{If: r, Truth: truth})
			case *ssa.UnOp:
				if r.Op == token.NOT {
					walk(r, !truth)
				}
			}
		}
	}
	walk(v, true)
	return out
}

// guardedBy reports whether instruction in is only reachable through an edge on
// which boolean value cond has the given truth value.
func guardedBy(in ssa.Instruction, cond ssa.Value, truth bool) bool {
	for _, t := range testsOf(cond) {
		b := t.If.Block()
		succ := 0
		if t.Truth != truth {
			succ = 1
		}
		if b.Succs[0] == b.Succs[1] {
			continue
		}
		if edgeDominates(b, b.Succs[succ], in.Block()) {
			return true
		}
	}
	return false
}

// nilTests finds comparisons "v == nil" / "v != nil" of value v.
func nilTests(v ssa.Value) (eq []*ssa.BinOp, neq []*ssa.BinOp) {
	refs := v.Referrers()
	if refs == nil {
		return
	}
	for _, r := range *refs {
		if b, ok := r.(*ssa.BinOp); ok && (isNilConst(b.X) || isNilConst(b.Y)) {
			if b.Op == token.EQL {
				eq = append(eq, b)
			} else if b.Op == token.NEQ {
				neq = append(neq, b)
			}
		}
	}
	return
}

// guardedNonNil: in is only reachable when v != nil was established.
func guardedNonNil(in ssa.Instruction, v ssa.Value) bool {
	eq, neq := nilTests(v)
	for _, b := range neq {
		if guardedBy(in, b, true) {
			return true
		}
	}
	for _, b := range eq {
		if guardedBy(in, b, false) {
			return true
		}
	}
	return false
}

func guardedNil(in ssa.Instruction, v ssa.Value) bool {
	eq, neq := nilTests(v)
	for _, b := range eq {
		if guardedBy(in, b, true) {
			return true
		}
	}
	for _, b := range neq {
		if guardedBy(in, b, false) {
			return true
		}
	}
	return false
}

// reachesWithout reports whether some CFG path leads from just after `from` to
// `to` without executing an instruction for which stop returns true.
func reachesWithout(from, to ssa.Instruction, stop func(ssa.Instruction) bool) bool {
	type pos struct {
		b *ssa.BasicBlock
		i int
	}
	seen := map[*ssa.BasicBlock]bool{}
	var walkBlock func(b *ssa.BasicBlock, start int) bool
	walkBlock = func(b *ssa.BasicBlock, start int) bool {
		for i := start; i < len(b.Instrs); i++ {
			in := b.Instrs[i]
			if in == to {
				return true
			}
			if stop(in) {
				return false
			}
		}
		for _, s := range b.Succs {
			if seen[s] {
				continue
			}
			seen[s] = true
			if walkBlock(s, 0) {
				return true
			}
		}
		return false
	}
	return walkBlock(from.Block(), instrIndex(from)+1)
}

// exitsWithout reports whether some path from just after `from` reaches a
// function exit (return or panic) without executing a stop instruction.
func exitsWithout(from ssa.Instruction, stop func(ssa.Instruction) bool) (bool, ssa.Instruction) {
	seen := map[*ssa.BasicBlock]bool{}
	var exit ssa.Instruction
	var walkBlock func(b *ssa.BasicBlock, start int) bool
	walkBlock = func(b *ssa.BasicBlock, start int) bool {
		for i := start; i < len(b.Instrs); i++ {
			in := b.Instrs[i]
			if stop(in) {
				return false
			}
			switch in.(type) {
			case *ssa.Return, *ssa.Panic:
				exit = in
				return true
			}
		}
		for _, s := range b.Succs {
			if seen[s] {
				continue
			}
			seen[s] = true
			if walkBlock(s, 0) {
				return true
			}
		}
		return false
	}
	r := walkBlock(from.Block(), instrIndex(from)+1)
	return r, exit
}

// ---------- callee classification ----------

func calleeFullName(c ssa.CallInstruction) string {
	com := c.Common()
	if com.IsInvoke() {
		return "invoke " + com.Value.Type().String() + "." + com.Method.Name()
	}
	if cal := com.StaticCallee(); cal != nil {
		return cal.String()
	}
	if b, ok := com.Value.(*ssa.Builtin); ok {
		return "builtin " + b.Name()
	}
	return "dynamic"
}

// isCallTo reports whether c statically calls pkgPath.name (function) or a
// method named name on a type of that package.
func isCallTo(c ssa.CallInstruction, pkgPath, name string) bool {
	cal := c.Common().StaticCallee()
	if cal == nil || cal.Name() != name {
		return false
	}
	return fnPkgPath(cal) == pkgPath
}

// isInvoke reports an interface method call with the given method name.
func isInvokeOf(c ssa.CallInstruction, method string) bool {
	com := c.Common()
	return com.IsInvoke() && com.Method.Name() == method
}

const (
	pkgMcache   = "github.com/bytedance/gopkg/lang/mcache"
	pkgDirtmake = "github.com/bytedance/gopkg/lang/dirtmake"
	pkgSpan     = "github.com/bytedance/gopkg/lang/span"
)

// ---------- E4: effects ----------

// Effect is a store performed (directly or through callees) by a function.
type Effect struct {
	Key  string // "P:<param>.<field path>" relative to the function's own parameters, "G:<global>", or "?" (unknown target)
	In   ssa.Instruction
	Via  string
	Elem bool // store into the elements of the slice held in Key (not the cell itself)
}

type Effects struct {
	P     *Program
	memo  map[*ssa.Function][]Effect
	busy  map[*ssa.Function]bool
	calls map[*ssa.Function][]ssa.CallInstruction
}

func newEffects(P *Program) *Effects {
	return &Effects{P: P, memo: map[*ssa.Function][]Effect{}, busy: map[*ssa.Function]bool{}}
}

// pathOf canonicalises an address relative to parameters/globals/locals.
// It follows loads of tracked cells one level ("*" marks a dereference).
func pathOf(v ssa.Value) string { return pathOf1(v, 0) }

func pathOf1(v ssa.Value, depth int) string {
	if depth > 12 {
		return ""
	}
	pathOf := func(x ssa.Value) string { return pathOf1(x, depth+1) }
	switch v := v.(type) {
	case *ssa.Parameter:
		return "P:" + v.Name()
	case *ssa.Global:
		return "G:" + v.Pkg.Pkg.Path() + "." + v.Name()
	case *ssa.Alloc:
		// a value parameter spilled to memory (its address is taken) still names the parameter
		if sp := spilledParam(v); sp != nil {
			return "P:" + sp.Name()
		}
		return "A:" + v.Name()
	case *ssa.FreeVar:
		return "F:" + v.Name()
	case *ssa.FieldAddr:
		b := pathOf(v.X)
		if b == "" {
			return ""
		}
		st := deref(v.X.Type()).Underlying().(*types.Struct)
		_ = st
		return b + "." + canonFieldName(v.X.Type(), v.Field)
	case *ssa.IndexAddr:
		b := pathOf(v.X)
		if b == "" {
			return ""
		}
		return b + "[]"
	case *ssa.UnOp:
		if v.Op == token.MUL {
			b := pathOf(v.X)
			if b == "" {
				return ""
			}
			return b + "*"
		}
	case *ssa.ChangeType:
		return pathOf(v.X)
	case *ssa.Convert:
		return pathOf(v.X)
	case *ssa.Slice:
		return pathOf(v.X)
	case *ssa.TypeAssert:
		return pathOf(v.X)
	case *ssa.MakeInterface:
		return pathOf(v.X)
	case *ssa.Extract:
		if b := pathOf(v.Tuple); b != "" {
			return b
		}
	case *ssa.Call:
		// the object a call returns: fresh, pooled or handed out by another instance — not a named location
		return "C:" + calleeFullName(v)
	case *ssa.MakeSlice, *ssa.MakeMap:
		return "A:make"
	case *ssa.Phi:
		// the non-phi values feeding the phi (through other phis), nil constants aside, must agree;
		// different local/fresh objects merge into a local one
		seen := map[ssa.Value]bool{}
		var leaves []ssa.Value
		var walk func(x ssa.Value)
		walk = func(x ssa.Value) {
			if seen[x] {
				return
			}
			seen[x] = true
			if ph, ok := x.(*ssa.Phi); ok {
				for _, e := range ph.Edges {
					walk(e)
				}
				return
			}
			// a window of the same memory (rest = rest[n:]) names what it is a window of
			switch y := x.(type) {
			case *ssa.Slice:
				walk(y.X)
				return
			case *ssa.ChangeType:
				walk(y.X)
				return
			}
			if !isNilConst(x) {
				leaves = append(leaves, x)
			}
		}
		walk(v)
		p := ""
		local := true
		for _, e := range leaves {
			q := pathOf(e)
			if q == "" {
				return ""
			}
			if !strings.HasPrefix(q, "A:") && !strings.HasPrefix(q, "C:") {
				local = false
			}
			if p == "" {
				p = q
			} else if p != q {
				if !local {
					if pathMayMode {
						return mayPathOf(v)
					}
					return ""
				}
				p = "A:phi"
			}
		}
		return p
	}
	return ""
}

// throughLocalStruct: arg is the value of a local struct variable that does not escape (only its fields are stored
// to and it is loaded whole), tail starts with ".f": the path of the one value stored in field f before the load, and
// the rest of the tail.
func throughLocalStruct(arg ssa.Value, tail string) (string, string, bool) {
	ld, ok := arg.(*ssa.UnOp)
	if !ok || ld.Op != token.MUL || !strings.HasPrefix(tail, ".") {
		return "", "", false
	}
	al, ok := ld.X.(*ssa.Alloc)
	if !ok || al.Referrers() == nil || spilledParam(al) != nil {
		return "", "", false
	}
	if _, isStruct := deref(al.Type()).Underlying().(*types.Struct); !isStruct {
		return "", "", false
	}
	field, rest := tail[1:], ""
	if i := strings.IndexAny(field, ".[*{"); i >= 0 {
		field, rest = field[:i], field[i:]
	}
	var val ssa.Value
	n := 0
	for _, ref := range *al.Referrers() {
		switch x := ref.(type) {
		case *ssa.FieldAddr:
			if x.Referrers() == nil {
				return "", "", false
			}
			for _, r2 := range *x.Referrers() {
				st, isSt := r2.(*ssa.Store)
				if !isSt || st.Addr != ssa.Value(x) {
					return "", "", false // the field's address is used for something other than initialising it
				}
				if canonFieldName(x.X.Type(), x.Field) == field {
					n++
					if instrDominates(st, ld) {
						val = st.Val
					}
				}
			}
		case *ssa.UnOp:
			if x.Op != token.MUL {
				return "", "", false
			}
		case *ssa.DebugRef:
		default:
			return "", "", false
		}
	}
	if n != 1 || val == nil {
		return "", "", false
	}
	return pathOf(val), rest, true
}

// pathMayMode: pathOf answers "where may this point" for joins of one named location with local objects
// (mayPathOf) instead of giving up. Only used to name what a store may write.
var pathMayMode bool

// of returns the effects of fn (transitively through static calls into the repository).
func (E *Effects) of(fn *ssa.Function) []Effect {
	if e, ok := E.memo[fn]; ok {
		return e
	}
	if E.busy[fn] || fn.Blocks == nil {
		return nil
	}
	E.busy[fn] = true
	defer delete(E.busy, fn)
	var out []Effect
	add := func(e Effect) { out = append(out, e) }
	for _, b := range fn.Blocks {
		for _, in := range b.Instrs {
			switch x := in.(type) {
			case *ssa.Store:
				if a, ok := x.Addr.(*ssa.Alloc); ok && spilledParam(a) != nil {
					continue // the spill of a value parameter into its own local
				}
				k := pathOf(x.Addr)
				if k == "" {
					pathMayMode = true
					k = pathOf(x.Addr)
					pathMayMode = false
				}
				if privatePath(k) {
					continue // private local
				}
				if strings.HasPrefix(k, "A:") {
					k = "?" // through a pointer that was merely stored in a local
				}
				if k == "" {
					k = "?"
				}
				add(Effect{Key: k, In: in})
			case *ssa.MapUpdate:
				k := pathOf(x.Map)
				if k == "" {
					k = mayPathOf(x.Map)
				}
				if k == "" {
					k = "?"
				}
				add(Effect{Key: k + "{}", In: in})
			case ssa.CallInstruction:
				com := x.Common()
				if bi, ok := com.Value.(*ssa.Builtin); ok {
					if bi.Name() == "copy" || bi.Name() == "clear" {
						k := pathOf(com.Args[0])
						if k == "" {
							pathMayMode = true
							k = pathOf(com.Args[0])
							pathMayMode = false
						}
						if privatePath(k) {
							continue
						}
						if strings.HasPrefix(k, "A:") {
							k = "?"
						}
						if k == "" {
							k = "?"
						}
						add(Effect{Key: k + "[]", In: in, Elem: true})
					}
					continue
				}
				cal := com.StaticCallee()
				if cal == nil || !inRepo(cal) {
					continue
				}
				for _, ce := range E.of(cal) {
					// translate callee-relative keys to this function
					k := ce.Key
					if strings.HasPrefix(k, "P:") {
						rest := k[2:]
						name := rest
						tail := ""
						if i := strings.IndexAny(rest, ".[*{"); i >= 0 {
							name, tail = rest[:i], rest[i:]
						}
						idx := -1
						for i, p := range cal.Params {
							if p.Name() == name {
								idx = i
							}
						}
						if idx < 0 || idx >= len(com.Args) {
							k = "?"
						} else {
							base := pathOf(com.Args[idx])
							if base == "" {
								k = "?"
							} else if privatePath(base) {
								continue
							} else if strings.HasPrefix(base, "A:") {
								k = "?"
								// a struct literal handed over by value (T{r: p}): the callee's path through field r continues in what was stored there
								if nb, nt, ok := throughLocalStruct(com.Args[idx], tail); ok {
									if privatePath(nb) {
										continue
									}
									if nb != "" && !strings.HasPrefix(nb, "A:") {
										k = nb + nt
									}
								}
							} else {
								k = base + tail
							}
						}
					}
					add(Effect{Key: k, In: in, Via: cal.Name() + "→" + ce.Via, Elem: ce.Elem})
				}
			}
		}
	}
	E.memo[fn] = out
	return out
}

func (E *Effects) keys(fn *ssa.Function) []string {
	m := map[string]bool{}
	for _, e := range E.of(fn) {
		m[e.Key] = true
	}
	var out []string
	for k := range m {
		out = append(out, k)
	}
	sort.Strings(out)
	return out
}

// callsReachable lists the call instructions reachable from fn through static
// repository calls (each with the function containing it).
func (P *Program) callsReachable(fn *ssa.Function) []ssa.CallInstruction {
	var out []ssa.CallInstruction
	for _, f := range P.reachable([]*ssa.Function{fn}, nil) {
		for _, b := range f.Blocks {
			for _, in := range b.Instrs {
				if c, ok := in.(ssa.CallInstruction); ok {
					out = append(out, c)
				}
			}
		}
	}
	return out
}

// ---------- E6: alias roots ----------

// Root describes where the memory of a slice/string/pointer value may come from.
type Root struct {
	Kind string // param | fresh | cell | call | const | global | unknown
	Name string
}

func (r Root) String() string { return r.Kind + ":" + r.Name }

// rootsOf computes the set of memory roots value v may share its backing store with.
func rootsOf(v ssa.Value) []Root {
	seen := map[ssa.Value]bool{}
	set := map[Root]bool{}
	var walk func(v ssa.Value)
	walk = func(v ssa.Value) {
		if v == nil || seen[v] {
			return
		}
		seen[v] = true
		switch x := v.(type) {
		case *ssa.Parameter:
			set[Root{"param", x.Name()}] = true
		case *ssa.Const:
			set[Root{"const", ""}] = true
		case *ssa.Global:
			set[Root{"global", x.Name()}] = true
		case *ssa.Alloc:
			set[Root{"fresh", "alloc " + x.Name()}] = true
		case *ssa.MakeSlice:
			set[Root{"fresh", "make"}] = true
		case *ssa.Slice:
			walk(x.X)
		case *ssa.ChangeType:
			walk(x.X)
		case *ssa.Convert:
			tx, tr := x.X.Type(), x.Type()
			if isString(tx) && isByteSlice(tr) {
				set[Root{"fresh", "string→[]byte conversion"}] = true // always a copy
				return
			}
			if isByteSlice(tx) && isString(tr) {
				set[Root{"fresh", "[]byte→string conversion"}] = true // a copy, but immutable: see StringToBinary
				return
			}
			walk(x.X)
		case *ssa.Phi:
			for _, e := range x.Edges {
				walk(e)
			}
		case *ssa.Extract:
			if c, ok := x.Tuple.(*ssa.Call); ok {
				callRoots(c, x.Index, set, walk)
				return
			}
			set[Root{"unknown", x.Name()}] = true
		case *ssa.Call:
			callRoots(x, 0, set, walk)
		case *ssa.UnOp:
			if x.Op == token.MUL {
				k := pathOf(x.X)
				if k == "" {
					set[Root{"unknown", "load"}] = true
				} else {
					set[Root{"cell", k}] = true
				}
				return
			}
			walk(x.X)
		case *ssa.FieldAddr, *ssa.IndexAddr:
			k := pathOf(v)
			if k == "" {
				set[Root{"unknown", "addr"}] = true
			} else {
				set[Root{"cell", k}] = true
			}
		case *ssa.MakeInterface:
			walk(x.X)
		default:
			set[Root{"unknown", fmt.Sprintf("%T", v)}] = true
		}
	}
	walk(v)
	var out []Root
	for r := range set {
		out = append(out, r)
	}
	sort.Slice(out, func(i, j int) bool { return out[i].String() < out[j].String() })
	return out
}

func callRoots(c *ssa.Call, idx int, set map[Root]bool, walk func(ssa.Value)) {
	com := c.Common()
	if b, ok := com.Value.(*ssa.Builtin); ok {
		switch b.Name() {
		case "append":
			// shares with its first argument (or a fresh array when it grows)
			if cst, ok := com.Args[0].(*ssa.Const); ok && cst.Value == nil {
				set[Root{"fresh", "append to nil"}] = true
			} else {
				walk(com.Args[0])
				set[Root{"fresh", "append growth"}] = true
			}
		case "Slice", "String":
			walk(com.Args[0])
		case "SliceData", "StringData":
			walk(com.Args[0])
		default:
			set[Root{"unknown", "builtin " + b.Name()}] = true
		}
		return
	}
	cal := com.StaticCallee()
	if cal == nil {
		name := "dynamic"
		if com.IsInvoke() {
			name = "invoke " + com.Method.Name()
		}
		set[Root{"call", name}] = true
		return
	}
	pp := fnPkgPath(cal)
	switch {
	case pp == pkgDirtmake && cal.Name() == "Bytes":
		set[Root{"fresh", "dirtmake.Bytes"}] = true
	case pp == pkgMcache && cal.Name() == "Malloc":
		set[Root{"fresh", "mcache.Malloc"}] = true
	case pp == pkgSpan && cal.Name() == "Copy":
		set[Root{"fresh", "span.Copy"}] = true
	case pp == modPath+"/unsafex" && cal.Name() == "StringToBinary":
		// a writable view of its argument: strings made by conversion are immutable values the
		// runtime may share (empty and one-byte strings), constants live in read-only memory
		for _, r := range rootsOf(com.Args[0]) {
			if (r.Kind == "fresh" && r.Name == "[]byte→string conversion") || r.Kind == "const" {
				set[Root{"strview", "writable []byte view of an immutable string (" + r.Name + ")"}] = true
				continue
			}
			set[r] = true
		}
	case pp == modPath+"/unsafex":
		// zero-copy conversions alias exactly their argument
		walk(com.Args[0])
	case inRepo(cal) && cal.Blocks != nil:
		// union over the callee's returns of result idx, mapping parameter roots back to arguments
		for _, ret := range returnsOf(cal) {
			if idx >= len(ret.Results) {
				continue
			}
			for _, r := range rootsOf(ret.Results[idx]) {
				if r.Kind == "param" {
					for i, p := range cal.Params {
						if p.Name() == r.Name && i < len(com.Args) {
							walk(com.Args[i])
						}
					}
					continue
				}
				if r.Kind == "cell" && strings.HasPrefix(r.Name, "P:") {
					set[Root{"call", cal.Name() + " → " + r.Name}] = true
					continue
				}
				set[r] = true
			}
		}
	default:
		set[Root{"call", cal.String()}] = true
	}
}

func onlyFresh(rs []Root) (bool, string) {
	for _, r := range rs {
		if r.Kind != "fresh" && r.Kind != "const" {
			return false, r.String()
		}
	}
	return true, ""
}

// privatePath: the path denotes memory inside a local allocation itself (no
// pointer loaded from it is followed).
func privatePath(k string) bool {
	return strings.HasPrefix(k, "A:") && !strings.Contains(k, "*")
}

// spilledParam returns the parameter whose value is the only thing ever stored
// into the whole of local a (go/ssa spills value parameters whose address is taken).
func spilledParam(a *ssa.Alloc) *ssa.Parameter {
	refs := a.Referrers()
	if refs == nil {
		return nil
	}
	var par *ssa.Parameter
	for _, r := range *refs {
		if st, ok := r.(*ssa.Store); ok && st.Addr == ssa.Value(a) {
			p, isP := st.Val.(*ssa.Parameter)
			if !isP || par != nil {
				return nil
			}
			par = p
		}
	}
	return par
}

// mayPathOf: for a join of one named location with objects made locally (m = param; if m == nil { m = make(...) }),
// the named location — a write through the join is at most a write there. Only for "what may be written".
func mayPathOf(v ssa.Value) string {
	ph, ok := v.(*ssa.Phi)
	if !ok {
		return ""
	}
	seen := map[ssa.Value]bool{}
	named := ""
	okAll := true
	var walk func(x ssa.Value)
	walk = func(x ssa.Value) {
		if seen[x] || !okAll {
			return
		}
		seen[x] = true
		if p, isPhi := x.(*ssa.Phi); isPhi {
			for _, e := range p.Edges {
				walk(e)
			}
			return
		}
		if isNilConst(x) {
			return
		}
		q := pathOf(x)
		switch {
		case q == "":
			okAll = false
		case strings.HasPrefix(q, "A:") || strings.HasPrefix(q, "C:"):
		case named == "" || named == q:
			named = q
		default:
			okAll = false
		}
	}
	walk(ph)
	if !okAll {
		return ""
	}
	if named == "" {
		return "A:phi"
	}
	return named
}
