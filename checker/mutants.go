package main

// Small single-site edits used by the thorough tier to demonstrate that each
// rule still reacts (applied in memory; see thorough.go). Every edit compiles.
// An anchor that no longer occurs exactly once is reported as "skipped".

type smallMutant struct {
	Prop, File, Old, New, Note string
}

const (
	fBin    = "protocol/thrift/binary.go"
	fBR     = "protocol/thrift/bufferreader.go"
	fBW     = "protocol/thrift/bufferwriter.go"
	fTpl    = "protocol/thrift/skipdecoder_tpl.go"
	fSD     = "protocol/thrift/skipdecoder.go"
	fUF     = "protocol/thrift/unknownfields/unknownfields.go"
	fBase   = "protocol/thrift/base/k-base.go"
	fExc    = "protocol/thrift/exception.go"
	fFast   = "protocol/thrift/fastcodec.go"
	fBuf    = "bufiox/defaultbuf.go"
	fEnc    = "protocol/ttheader/encode.go"
	fDec    = "protocol/ttheader/decode.go"
	fStrmap = "container/strmap/strmap.go"
)

var smallMutants = []smallMutant{
	// C01
	{"C01", fBin, "return append(buf, byte(uint16(v)>>8), byte(v))", "return append(buf, byte(v), byte(uint16(v)>>8))", "AppendI16 little-endian"},
	{"C01", fBin, "func (BinaryProtocol) I64Length() int                  { return 8 }", "func (BinaryProtocol) I64Length() int                  { return 4 }", "I64Length wrong"},
	{"C01", fBR, "v = b[0] == 1", "v = b[0] == 2", "stream ReadBool accepts 2 as true"},
	{"C01", fBW, "buf[0], buf[1] = byte(kt), byte(vt)", "buf[0], buf[1] = byte(vt), byte(kt)", "stream WriteMapBegin swaps key/value type"},
	{"C01", fBin, "\tbinary.BigEndian.PutUint64(buf, uint64(v))\n\treturn 8", "\tbinary.BigEndian.PutUint64(buf, uint64(v)<<1)\n\treturn 8", "WriteI64 shifts the value"},
	{"C01", fBR, "\tb, err := r.next(8)\n\tif err != nil {\n\t\treturn 0, err\n\t}\n\tv = int64(", "\tb, err := r.next(4)\n\tif err != nil {\n\t\treturn 0, err\n\t}\n\tv = int64(", "stream ReadI64 consumes 4 bytes"},
	// C02
	{"C02", fBin, "i += 2 // Field ID", "i += 3 // Field ID", "struct field header 4 bytes"},
	{"C02", fBin, "listvsize := int(sz) * vsz", "listvsize := int(sz) * (vsz + 1)", "list fast path over-consumes"},
	{"C02", fTpl, "if _, err := p.r.SkipN(2); err != nil { // Field ID", "if _, err := p.r.SkipN(1); err != nil { // Field ID", "template skips 1-byte field id"},
	{"C02", fSD, "if buf, err = p.r.Peek(p.rn + n); err == nil {", "if buf, err = p.r.Peek(n); err == nil {", "SkipDecoder peeks n only"},
	{"C02", fSD, "buf = p.b[p.n : p.n+n]", "buf = p.b[p.n:]", "ReaderSkipDecoder may read past the value"},
	{"C02", fBR, "return r.skipn(sz * int(vsz))", "return r.skipn(sz + int(vsz))", "stream list fast path wrong product"},
	// C03
	{"C03", fBin, "if len(buf) < 6 {\n\t\treturn 0, 0, 0, 0, errReadMap", "if len(buf) < 5 {\n\t\treturn 0, 0, 0, 0, errReadMap", "ReadMapBegin short check"},
	{"C03", fExc, "l, err = Binary.Skip(b[off:], tp)", "l, err = Binary.Skip(b, tp)", "D3 again"},
	// C04
	{"C04", fBuf, "\tbuf = r.buf[r.ri : r.ri+n]\n\tr.ri += n\n\treturn\n}", "\tbuf = r.buf[r.ri : r.ri+n]\n\tr.ri += n + 1\n\treturn\n}", "Next over-advances"},
	{"C04", fBuf, "\tcopy(bs, r.buf[r.ri:r.ri+m])\n\tr.ri += m", "\tcopy(bs, r.buf[r.ri:r.ri+m])\n\tr.ri += len(bs)", "ReadBinary advances by the request"},
	// C05
	{"C05", fBuf, "\tbuf = w.buf[len(w.buf) : len(w.buf)+n]\n\tw.buf = w.buf[:len(w.buf)+n]", "\tbuf = w.buf[len(w.buf) : len(w.buf)+n]\n\tw.buf = w.buf[:len(w.buf)+n-1]", "Malloc extends by n-1"},
	{"C05", fBuf, "offset += copy(w.buf[offset:], oldBuf[offset:])", "offset += copy(w.buf[offset:], oldBuf)", "Flush stitches from offset 0 of the old buffer"},
	// C06
	{"C06", fEnc, "padding := (4 - writeSize%4) % 4", "padding := (4 - writeSize%4) % 3", "padding formula"},
	// C07
	{"C07", fStrmap, "if n == 0 {\n\t\treturn t, false\n\t}", "if n == 1 {\n\t\treturn t, false\n\t}", "empty-table guard off by one (D6 again)"},
	// C08
	{"C08", fTpl, "if maxdepth == 0 {\n\t\treturn errDepthLimitExceeded\n\t}", "if maxdepth == -1 {\n\t\treturn errDepthLimitExceeded\n\t}", "depth guard never fires"},
	{"C08", fBR, "if int32(sz) < 0 { // sz comes from an uint32, it's never negative as an int\n\t\t\treturn errNegativeSize\n\t\t}\n\t\tksz", "if sz < 0 { // sz comes from an uint32, it's never negative as an int\n\t\t\treturn errNegativeSize\n\t\t}\n\t\tksz", "D9 again (map)"},
	// C09
	{"C09", fBuf, "if !r.bufReadOnly && cap(r.buf) > 0 {\n\t\t\tmcache.Free(r.buf)", "if cap(r.buf) > 0 {\n\t\t\tmcache.Free(r.buf)", "frees a caller-owned buffer"},
	// C10
	{"C10", fDec, "if headerInfoSize > int(MaxHeaderSize)", "if headerInfoSize > int(MaxHeaderSize)*2", "header size limit doubled"},
	// C11
	{"C11", fBase, "\toff += 3\n\toff += 4 + len(p.Caller)", "\toff += 2\n\toff += 4 + len(p.Caller)", "BLength one short"},
	{"C11", fExc, "off += Binary.WriteFieldBegin(b[off:], I32, 2)", "off += Binary.WriteFieldBegin(b[off:], I32, 3)", "exception type id written as field 3"},
	// C12
	{"C12", fFast, "_ = msg.FastWriteNocopy(b[i:], nil)", "_ = msg.FastWriteNocopy(b[i-1:], nil)", "payload overlaps the header"},
	{"C12", fFast, "if msgType == EXCEPTION {", "if msgType == EXCEPTION && seq != 0 {", "exception branch conditional on seq"},
	{"C12", fBW, "binary.BigEndian.PutUint32(buf[8+len(name):], uint32(seq))", "binary.BigEndian.PutUint32(buf[8+len(name):], uint32(seq)+1)", "stream writer bumps seq"},
	// C13
	{"C13", fUF, "offset += thrift.Binary.WriteMapBegin(buf, f.KeyType, f.ValType, len(kvs)/2)", "offset += thrift.Binary.WriteMapBegin(buf, f.ValType, f.KeyType, len(kvs)/2)", "map header types swapped"},
	{"C13", fUF, "l, err2 = readUnknownField(&flatMap[2*i+1], buf[length:], f.ValType, int16(i))", "l, err2 = readUnknownField(&flatMap[2*i+1], buf[length:], f.KeyType, int16(i))", "map value read with key type"},
	{"C13", fUF, "length += thrift.Binary.MapBeginLength()", "length += thrift.Binary.ListBeginLength()", "map header length 5"},
	{"C13", fUF, "flatMap := make([]UnknownField, size*2)", "flatMap := make([]UnknownField, size*2+1)", "one extra map slot"},
	// C15
	{"C15", fBin, "_ = w.WriteDirect(v, len(buf[4:])) // always err == nil ?", "_ = w.WriteDirect(v, len(buf)) // always err == nil ?", "remainCap ignores the length prefix"},
	// C16
	{"C16", fBin, "\t\ts = string(buf[4:l])", "\t\ts = unsafex.BinaryToString(buf[4:l])", "ReadString aliases the input"},
	// C17
	{"C17", fBin, "errBadVersion  = NewProtocolException(BAD_VERSION, ", "errBadVersion  = NewProtocolException(INVALID_DATA, ", "bad version reported as invalid data"},
}
