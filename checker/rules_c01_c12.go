package main

// C01 (codec agreement with the wire format) and C12 (message envelope),
// decided on the byte-layout summaries of layout.go.

import (
	"fmt"
	"go/token"
	"strings"

	"golang.org/x/tools/go/ssa"
)

var codecKinds = []string{"MessageBegin", "FieldBegin", "FieldStop", "MapBegin", "ListBegin", "SetBegin", "Bool", "Byte", "I16", "I32", "I64", "Double", "Binary", "String"}

type wireSpec struct {
	writer []string // canonical bytes, in order
	length string   // advertised length
	reader string   // canonical reader summary ("" = no reader of that kind)
}

func beBytes(n int, root string) []string {
	var out []string
	for k := n - 1; k >= 0; k-- {
		out = append(out, fmt.Sprintf("%s[%d..%d]", root, 8*k, 8*k+7))
	}
	return out
}

func cat(parts ...[]string) []string {
	var out []string
	for _, p := range parts {
		out = append(out, p...)
	}
	return out
}

// thriftBinarySpec is the Thrift Binary protocol (strict write), written in
// the vocabulary of the layout summaries: argN = N-th value argument of the
// writer, beN@p = big-endian N-byte load at byte p of the input. int is 64 bits.
func thriftBinarySpec() map[string]wireSpec {
	lenPrefixed := wireSpec{
		writer: cat(beBytes(4, "len(arg0)"), []string{"bytes(arg0)"}),
		length: "4+len(arg0)",
		reader: "{if [] → (bytes@4[sext64(be4@0)]) consuming 4+sext64(be4@0)}",
	}
	listLike := wireSpec{
		writer: cat([]string{"arg0[0..7]"}, beBytes(4, "arg1")),
		length: "5",
		reader: "{if [] → (be1@0, zext64(be4@1)) consuming 5}",
	}
	fixed := func(n int, root, rd string) wireSpec {
		return wireSpec{writer: beBytes(n, root), length: fmt.Sprint(n), reader: fmt.Sprintf("{if [] → (%s) consuming %d}", rd, n)}
	}
	return map[string]wireSpec{
		"MessageBegin": {
			writer: cat(beBytes(4, "or(0x80010000,zext32(low16(arg1)))"), beBytes(4, "len(arg0)"), []string{"bytes(arg0)"}, beBytes(4, "arg2")),
			length: "12+len(arg0)",
			reader: "{if [eq(and(be4@0,0xffff0000),0x80010000)] → (bytes@8[sext64(be4@4)], zext32(low16(be4@0)), be4@8+sext64(be4@4)) consuming 12+sext64(be4@4)}",
		},
		"FieldBegin": {
			writer: cat([]string{"arg0[0..7]"}, beBytes(2, "arg1")),
			length: "3",
			reader: "{if [eq(be1@0,0x0)] → (0x0, 0x0) consuming 1} {if [ne(be1@0,0x0)] → (be1@0, be2@1) consuming 3}",
		},
		"FieldStop": {writer: []string{"0x00"}, length: "1"},
		"MapBegin": {
			writer: cat([]string{"arg0[0..7]", "arg1[0..7]"}, beBytes(4, "arg2")),
			length: "6",
			reader: "{if [] → (be1@0, be1@1, zext64(be4@2)) consuming 6}",
		},
		"ListBegin": listLike,
		"SetBegin":  listLike,
		"Bool":      {writer: []string{"bool(arg0)"}, length: "1", reader: "{if [] → (eq(be1@0,0x1)) consuming 1}"},
		"Byte":      fixed(1, "arg0", "be1@0"),
		"I16":       fixed(2, "arg0", "be2@0"),
		"I32":       fixed(4, "arg0", "be4@0"),
		"I64":       fixed(8, "arg0", "be8@0"),
		"Double":    fixed(8, "f64bits(arg0)", "f64from(be8@0)"),
		"Binary":    lenPrefixed,
		"String":    lenPrefixed,
	}
}

// extNeutral: the property quantifies over 32-bit sizes and lengths in
// 0 … 2^31−1, where sign- and zero-extension of the 32-bit word coincide, so the
// comparison does not distinguish them (negative sizes are C08's subject).
func extNeutral(s string) string {
	s = strings.ReplaceAll(s, "sext64(be4@", "ext64(be4@")
	s = strings.ReplaceAll(s, "zext64(be4@", "ext64(be4@")
	// the writers emit only 0x00 / 0x01 for booleans, on which (b == 1) and (b != 0) coincide
	return strings.ReplaceAll(s, "(ne(be1@0,0x0)) consuming 1", "(eq(be1@0,0x1)) consuming 1")
}

func firstDiff(a, b []string) string {
	for i := 0; i < len(a) || i < len(b); i++ {
		x, y := "<nothing>", "<nothing>"
		if i < len(a) {
			x = a[i]
		}
		if i < len(b) {
			y = b[i]
		}
		if x != y {
			return fmt.Sprintf("byte %d is %s, the wire format has %s", i, x, y)
		}
	}
	return ""
}

func layoutRules(P *Program, r *Result, kinds []string) {
	L := newLayouts(P)
	spec := thriftBinarySpec()
	for _, k := range kinds {
		sp := spec[k]
		type wr struct {
			name string
			fn   *ssa.Function
			sum  func(*ssa.Function) *wsum
		}
		writers := []wr{
			{"BinaryProtocol.Write" + k, P.Method(relThrift, "BinaryProtocol", "Write"+k), L.inplaceWriter},
			{"BinaryProtocol.Append" + k, P.Method(relThrift, "BinaryProtocol", "Append"+k), L.appendWriter},
			{"BufferWriter.Write" + k, P.Method(relThrift, "BufferWriter", "Write"+k), L.streamWriter},
		}
		for _, w := range writers {
			if !r.require("thrift."+w.name, w.fn != nil) {
				continue
			}
			r.Funcs[shortName(w.fn)] = true
			got, bad := w.sum(w.fn).canon()
			detail := bad
			if bad == "" {
				detail = firstDiff(got, sp.writer)
			} else {
				detail = "undecided: " + bad
			}
			r.add("WRITE-LAYOUT", shortName(w.fn), "bytes", fmt.Sprintf("emits exactly the %d-unit Thrift Binary encoding of %s", len(sp.writer), k), P.pos(w.fn.Pos()), detail == "", detail)
		}
		if lf := P.Method(relThrift, "BinaryProtocol", k+"Length"); r.require("thrift.BinaryProtocol."+k+"Length", lf != nil) {
			r.Funcs[shortName(lf)] = true
			got := L.lengthFunc(lf).String()
			r.add("LEN", shortName(lf), "value", "advertised length equals the encoded size "+sp.length, P.pos(lf.Pos()), got == sp.length, "function returns "+got)
			// and the in-place writer reports that many bytes
			if wf := writers[0].fn; wf != nil {
				tot := L.inplaceWriter(wf).total.String()
				r.add("LEN", shortName(wf), "return", "the in-place writer reports "+sp.length+" bytes written", P.pos(wf.Pos()), tot == sp.length, "returns "+tot)
			}
		}
		// the no-copy variant of the length function advertises the same size (the copying writers are what it sizes for
		// when no direct writer is attached)
		if lf := P.Method(relThrift, "BinaryProtocol", k+"LengthNocopy"); lf != nil {
			r.Funcs[shortName(lf)] = true
			got := L.lengthFunc(lf).String()
			r.add("LEN", shortName(lf), "value", "advertised length equals the encoded size "+sp.length, P.pos(lf.Pos()), got == sp.length, "function returns "+got)
		}
		if sp.reader == "" {
			continue
		}
		type rd struct {
			name string
			fn   *ssa.Function
			sum  func(*ssa.Function) *rsum
		}
		for _, x := range []rd{
			{"BinaryProtocol.Read" + k, P.Method(relThrift, "BinaryProtocol", "Read"+k), L.bufferReader},
			{"BufferReader.Read" + k, P.Method(relThrift, "BufferReader", "Read"+k), L.streamReader},
		} {
			if !r.require("thrift."+x.name, x.fn != nil) {
				continue
			}
			r.Funcs[shortName(x.fn)] = true
			got := x.sum(x.fn).String()
			detail := ""
			if extNeutral(got) != extNeutral(sp.reader) {
				detail = "summary is " + got + "; the wire format requires " + sp.reader
			}
			r.add("READ-LAYOUT", shortName(x.fn), "results", "decodes the Thrift Binary encoding of "+k+" and consumes exactly its length", P.pos(x.fn.Pos()), detail == "", detail)
		}
	}
}

func checkC01(P *Program, r *Result, tier string) {
	r.Explanation = "Byte-layout summaries (E3) of the 13 value kinds (scalars, strings/binaries, field/map/list/set headers, STOP): WRITE-LAYOUT (the in-place, appending and stream writer each store, contiguously from offset 0, exactly the bytes of the Thrift Binary encoding, expressed as bit ranges of their arguments; big-endian order and 4-byte length prefixes are part of the specification table), " +
		"LEN (XLength and the in-place writer's return value equal the number of bytes stored), READ-LAYOUT (the buffer reader and the stream reader compute every result from the same big-endian loads at the same positions, with the same sign/zero extension, and consume exactly the encoded length). " +
		"TIGHT (no buffer reader requires a byte beyond what it consumes). The specification table is written in the checker; agreement of writer and reader with that one table gives the round trip."
	layoutRules(P, r, codecKinds[1:]) // the message envelope is C12's subject
	// exact fit: a reader must accept a buffer that holds exactly the encoded bytes
	var rdFns []*ssa.Function
	for _, k := range codecKinds[1:] {
		if f := P.Method(relThrift, "BinaryProtocol", "Read"+k); f != nil {
			rdFns = append(rdFns, f)
		}
	}
	tightRules(P, r, "TIGHT", rdFns)
	// the stream halves sit on bufiox: its delivery rules are part of what this property needs
	expl := r.Explanation
	checkC04(P, r, tier)
	e4 := r.Explanation
	checkC05(P, r, tier)
	// a decoded string/binary stays what it was: it shares no memory with the reader's buffer (the C16 rule)
	{
		tmp := newResult(r.Prop)
		checkC16(P, tmp, tier)
		r.Fatal = append(r.Fatal, tmp.Fatal...)
		n := 0
		for _, o := range tmp.Obls {
			if strings.HasSuffix(o.Rule, "/COPIES") && (strings.Contains(o.Func, "ReadBinary") || strings.Contains(o.Func, "ReadString")) {
				o.Rule = r.Prop + "/VALUE-STABLE"
				r.Obls = append(r.Obls, o)
				n++
			}
		}
		if n < 4 {
			r.fatal("expected the aliasing obligations of ReadBinary/ReadString, found %d", n)
		}
	}
	r.Explanation = expl + " STREAM (the stream reader/writer deliver or emit exactly the bytes requested, in order, under any fragmentation: the bufiox rules of C04 and C05 are re-checked here) — " + e4 + " — " + r.Explanation
	{
		var fns []*ssa.Function
		for _, fn := range pkgFuncs(P, relThrift) {
			if len(fn.Params) > 0 && (typeIsPtrTo(fn.Params[0].Type(), "BufferWriter") || typeIsPtrTo(fn.Params[0].Type(), "BufferReader")) && fn.Signature.Recv() != nil {
				fns = append(fns, fn)
			}
		}
		errDisciplineRule(P, r, "ERR-USED", fns)
	}
	r.assume("int is 64 bits wide (sign/zero extension of 32-bit wire sizes is compared at that width)")
	r.assume("the in-place writers are given a buffer with room for the advertised length (copy() then copies len(v) bytes); the stream reader/writer halves rest on the bufiox rules (C04/C05) that are re-run as part of this check")
	r.assume("unsafex.StringToBinary/BinaryToString, string↔[]byte conversions and spanCache.Copy preserve content (C16, C19)")
}

func checkC12(P *Program, r *Result, tier string) {
	r.Explanation = "LAYOUT (the three MessageBegin writers, MessageBeginLength and the two readers agree with the strict-version envelope: word0 = 0x80010000 | type (16 bits), BE32 name length, name, BE32 seq; both readers accept iff word0 & 0xffff0000 == 0x80010000 and return all 16 type bits), " +
		"VERSION (the failing side of that test returns the BAD_VERSION exception value before anything else is decoded), EXC-BRANCH (UnmarshalFastMsg decodes an EXCEPTION-typed message into a fresh ApplicationException and returns it as the error, never touching the caller's struct; otherwise it decodes the payload at the header's length; MarshalFastMsg writes header then payload at the returned offset into a buffer of exactly MessageBeginLength + BLength bytes), ACCESSORS (TypeId/TypeID/Msg return the decoded fields)."
	layoutRules(P, r, []string{"MessageBegin"})
	// the exception that travels in an EXCEPTION message keeps its type id and text: the struct rules of C11
	// for ApplicationException (declaration, writer and reader agree field by field; BLength = bytes written)
	{
		tmp := newResult(r.Prop)
		checkC11(P, tmp, tier)
		r.Fatal = append(r.Fatal, tmp.Fatal...)
		n := 0
		for _, o := range tmp.Obls {
			if strings.Contains(o.Func, "ApplicationException") {
				o.Rule = r.Prop + "/EXC-FIELDS"
				r.Obls = append(r.Obls, o)
				r.Funcs[o.Func] = true
				n++
			}
		}
		if n < 4 {
			r.fatal("expected the field obligations of ApplicationException, found %d", n)
		}
	}
	// truncated headers end in an error: no failure of a nested read is overwritten or dropped
	{
		var fns []*ssa.Function
		for _, t := range [][2]string{{"BinaryProtocol", "ReadMessageBegin"}, {"BufferReader", "ReadMessageBegin"}} {
			if f := P.Method(relThrift, t[0], t[1]); f != nil {
				fns = append(fns, f)
			}
		}
		if f := P.Func(relThrift, "UnmarshalFastMsg"); f != nil {
			fns = append(fns, f)
		}
		n := 0
		for _, fn := range fns {
			for _, c := range callsIn(fn) {
				cc, ok := c.(*ssa.Call)
				if !ok {
					continue
				}
				sig := cc.Common().Signature()
				ei := -1
				for i := 0; i < sig.Results().Len(); i++ {
					if isErrorType(sig.Results().At(i).Type()) {
						ei = i
					}
				}
				if ei < 0 {
					continue
				}
				n++
				ev := resultValue(cc, ei)
				r.add("TRUNCATED", shortName(fn), "call", "the error result of "+calleeFullName(cc)+" is examined: a header cut short inside this part is reported", P.pos(instrPos(cc)), ev != nil && errExamined(ev, map[ssa.Value]bool{}), "")
			}
		}
		if n < 5 {
			r.fatal("expected at least 5 fallible nested reads in the message-begin readers, found %d", n)
		}
	}
	// ---- VERSION ----
	for _, t := range []struct{ typ, name string }{{"BinaryProtocol", "ReadMessageBegin"}, {"BufferReader", "ReadMessageBegin"}} {
		fn := P.Method(relThrift, t.typ, t.name)
		if !r.require("thrift."+t.typ+"."+t.name, fn != nil) {
			continue
		}
		ok, detail := false, "no version test found"
		for _, b := range fn.Blocks {
			iff, isIf := b.Instrs[len(b.Instrs)-1].(*ssa.If)
			if !isIf {
				continue
			}
			bo, isB := iff.Cond.(*ssa.BinOp)
			if !isB || (bo.Op != token.NEQ && bo.Op != token.EQL) {
				continue
			}
			and, isAnd := bo.X.(*ssa.BinOp)
			if !isAnd || and.Op != token.AND {
				continue
			}
			// failing successor
			fail := b.Succs[0]
			if bo.Op == token.EQL {
				fail = b.Succs[1]
			}
			// the failing side returns errBadVersion without further reads
			ok, detail = false, "the failing side of the version test does not return the bad-version error"
			seen := map[*ssa.BasicBlock]bool{}
			var walk func(x *ssa.BasicBlock) bool
			walk = func(x *ssa.BasicBlock) bool {
				if seen[x] {
					return true
				}
				seen[x] = true
				for _, in := range x.Instrs {
					if c, isC := in.(*ssa.Call); isC {
						if cal := c.Common().StaticCallee(); cal != nil && strings.HasPrefix(cal.Name(), "Read") {
							return false
						}
					}
				}
				if ret, isRet := x.Instrs[len(x.Instrs)-1].(*ssa.Return); isRet {
					ev := ret.Results[len(ret.Results)-1]
					if ph, isPhi := ev.(*ssa.Phi); isPhi {
						for i, p := range ph.Block().Preds {
							if seen[p] {
								ev = ph.Edges[i]
							}
						}
					}
					t, known := exceptionTypeOf(P, ev)
					return known && t == 4 // BAD_VERSION
				}
				for _, s := range x.Succs {
					if !walk(s) {
						return false
					}
				}
				return true
			}
			if walk(fail) {
				ok, detail = true, ""
			}
		}
		r.add("VERSION", shortName(fn), "fail", "a header without the strict-version marker is answered with the BAD_VERSION exception, before any further decoding", P.pos(fn.Pos()), ok, detail)
	}
	// a short header that lacks the marker is still answered with BAD_VERSION: the test needs 4 bytes only
	versionFirstRule(P, r, newAnalysis(P))
	// the method name handed to the caller is a copy (it must stay the same after the reader moves on)
	copyRules(P, r, "NAME-COPY", []*ssa.Function{P.Method(relThrift, "BinaryProtocol", "ReadMessageBegin"), P.Method(relThrift, "BufferReader", "ReadMessageBegin")})
	// ---- EXC-BRANCH ----
	um := P.Func(relThrift, "UnmarshalFastMsg")
	mm := P.Func(relThrift, "MarshalFastMsg")
	if r.require("thrift.UnmarshalFastMsg / MarshalFastMsg", um != nil && mm != nil) {
		r.Funcs[shortName(um)] = true
		r.Funcs[shortName(mm)] = true
		var hdr *ssa.Call
		for _, c := range callsIn(um) {
			if cal := c.Common().StaticCallee(); isBinaryProtocolMethod(cal) && cal.Name() == "ReadMessageBegin" {
				hdr, _ = c.(*ssa.Call)
			}
		}
		if r.require("UnmarshalFastMsg: call of Binary.ReadMessageBegin", hdr != nil) {
			res := func(k int) ssa.Value { return resultValue(hdr, k) }
			isRes := func(v ssa.Value, k int) bool {
				ex, ok := v.(*ssa.Extract)
				return ok && ex.Tuple == ssa.Value(hdr) && ex.Index == k
			}
			_ = res
			// the test msgType == EXCEPTION (or its negation)
			var test *ssa.BinOp
			isExc := true // truth value of `test` that means "type is EXCEPTION"
			for _, b := range um.Blocks {
				for _, in := range b.Instrs {
					if bo, ok := in.(*ssa.BinOp); ok && (bo.Op == token.EQL || bo.Op == token.NEQ) && isRes(bo.X, 1) {
						if k, isC := constInt(bo.Y); isC && k == 3 {
							test = bo
							isExc = bo.Op == token.EQL
						}
					}
				}
			}
			r.add("EXC-BRANCH", shortName(um), "test", "the message type returned by the header reader is compared with EXCEPTION (3)", P.pos(um.Pos()), test != nil, "")
			var msgRead, exRead *ssa.Call
			var exFn *ssa.Function // function containing the exception decode (um itself or a helper it calls)
			var exCall *ssa.Call   // the call in um that leads there (nil when in um itself)
			isExRead := func(c ssa.CallInstruction) bool {
				cal := c.Common().StaticCallee()
				return cal != nil && cal.Name() == "FastRead" && strings.Contains(cal.String(), "ApplicationException")
			}
			for _, c := range callsIn(um) {
				cc, ok := c.(*ssa.Call)
				if !ok {
					continue
				}
				if isInvokeOf(c, "FastRead") && c.Common().Value == ssa.Value(um.Params[1]) {
					msgRead = cc
				}
				if isExRead(c) {
					exRead, exFn = cc, um
				}
				if cal := c.Common().StaticCallee(); cal != nil && inRepo(cal) && cal.Blocks != nil && exRead == nil {
					for _, c2 := range callsIn(cal) {
						if cc2, ok2 := c2.(*ssa.Call); ok2 && isExRead(c2) {
							exRead, exFn, exCall = cc2, cal, cc
						}
					}
				}
			}
			if test != nil && r.require("UnmarshalFastMsg: msg.FastRead and ex.FastRead calls", msgRead != nil && exRead != nil) {
				r.Funcs[shortName(exFn)] = true
				var exSite ssa.Instruction = exRead
				if exCall != nil {
					exSite = exCall
				}
				r.add("EXC-BRANCH", shortName(um), "guard", "the caller's struct is decoded only when the type is not EXCEPTION", P.pos(instrPos(msgRead)), guardedBy(msgRead, test, !isExc), "")
				r.add("EXC-BRANCH", shortName(um), "guard", "the exception payload is decoded only when the type is EXCEPTION", P.pos(instrPos(exSite)), guardedBy(exSite, test, isExc), "")
				// both decode b[i:] with i = consumed header length
				fa := newAnalysis(P).fa(um)
				payloadArg := func(arg ssa.Value) bool {
					d := fa.sliceDesc(arg)
					ok := d != nil && d.Root == ssa.Value(um.Params[0]) && d.Off.equal(fa.expand(resultValue(hdr, 3)))
					if bd := fa.sliceDesc(um.Params[0]); ok && bd != nil && !d.Len.equal(bd.Len.sub(d.Off)) {
						ok = false
					}
					return ok
				}
				r.add("EXC-BRANCH", shortName(um), "payload", "the payload is decoded from b[headerLen:]", P.pos(instrPos(msgRead)), payloadArg(msgRead.Common().Args[0]), "")
				if exCall == nil {
					r.add("EXC-BRANCH", shortName(um), "payload", "the payload is decoded from b[headerLen:]", P.pos(instrPos(exRead)), payloadArg(exRead.Common().Args[len(exRead.Common().Args)-1]), "")
				} else {
					// the helper receives b[headerLen:] and decodes exactly its parameter
					okArg := false
					for i, a := range exCall.Common().Args {
						if isByteSlice(a.Type()) && payloadArg(a) && exRead.Common().Args[len(exRead.Common().Args)-1] == ssa.Value(exFn.Params[i]) {
							okArg = true
						}
					}
					r.add("EXC-BRANCH", shortName(um), "payload", "the payload is decoded from b[headerLen:]", P.pos(instrPos(exCall)), okArg, "")
				}
				// receiver of ex.FastRead is a fresh ApplicationException; it is what is returned as error
				recv := exRead.Common().Args[0]
				_, _, fresh := excBuilt(recv, "ApplicationException", "NewApplicationException")
				r.add("EXC-BRANCH", shortName(exFn), "fresh", "the exception is decoded into a fresh ApplicationException", P.pos(instrPos(exRead)), fresh, "")
				retOK, retErrOK := false, false
				if exCall == nil {
					// (a shared exit is looked at once per way into it)
					for _, rc := range retCases(um) {
						if !guardedBy(rc.at, test, isExc) {
							continue
						}
						ev := rc.results[2]
						if mi, ok := ev.(*ssa.MakeInterface); ok && mi.X == recv {
							if isRes(rc.results[0], 0) && isRes(rc.results[1], 2) {
								retOK = true
							}
						}
						if ex, ok := ev.(*ssa.Extract); ok && ex.Tuple == ssa.Value(exRead) {
							retErrOK = true
						}
					}
				} else {
					// the helper returns the exception itself on success and the decoder's error otherwise …
					hOK, hErr := false, false
					for _, ret := range returnsOf(exFn) {
						ev := ret.Results[len(ret.Results)-1]
						if mi, ok := ev.(*ssa.MakeInterface); ok && mi.X == recv {
							if ee := resultValue(exRead, 1); ee != nil && guardedNil(ret, ee) {
								hOK = true
							}
						}
						if ex, ok := ev.(*ssa.Extract); ok && ex.Tuple == ssa.Value(exRead) {
							hErr = true
						}
					}
					// … and um hands that result on with the header's method and seq
					for _, ret := range returnsOf(um) {
						if guardedBy(ret, test, isExc) && ret.Results[2] == ssa.Value(exCall) && isRes(ret.Results[0], 0) && isRes(ret.Results[1], 2) {
							retOK, retErrOK = hOK, hErr
						}
					}
				}
				r.add("EXC-BRANCH", shortName(um), "return", "on success the decoded exception itself is returned as the error, with the header's method and seq", P.pos(um.Pos()), retOK, "")
				r.add("EXC-BRANCH", shortName(um), "return", "a malformed exception payload surfaces the decoder's error", P.pos(um.Pos()), retErrOK, "")
				// normal path returns method, seq, err of msg.FastRead
				normOK := false
				for _, rc := range retCases(um) {
					if ex, ok := rc.results[2].(*ssa.Extract); ok && ex.Tuple == ssa.Value(msgRead) && isRes(rc.results[0], 0) && isRes(rc.results[1], 2) {
						normOK = true
					}
				}
				r.add("EXC-BRANCH", shortName(um), "return", "otherwise method and seq of the header and the payload decoder's error are returned", P.pos(um.Pos()), normOK, "")
			}
		}
		// MarshalFastMsg
		var wcall, pcall *ssa.Call
		var mk *ssa.Call
		for _, c := range callsIn(mm) {
			cc, ok := c.(*ssa.Call)
			if !ok {
				continue
			}
			if cal := c.Common().StaticCallee(); isBinaryProtocolMethod(cal) && cal.Name() == "WriteMessageBegin" {
				wcall = cc
			}
			if isInvokeOf(c, "FastWriteNocopy") {
				pcall = cc
			}
			if cal := c.Common().StaticCallee(); cal != nil && cal.Name() == "Bytes" && cal.Pkg != nil && strings.HasSuffix(cal.Pkg.Pkg.Path(), "dirtmake") {
				mk = cc
			}
		}
		if r.require("MarshalFastMsg: WriteMessageBegin, FastWriteNocopy and buffer allocation", wcall != nil && pcall != nil && mk != nil) {
			a := wcall.Common().Args
			okArgs := a[1] == ssa.Value(mk) && a[2] == ssa.Value(mm.Params[0]) && a[3] == ssa.Value(mm.Params[1]) && a[4] == ssa.Value(mm.Params[2])
			r.add("EXC-BRANCH", shortName(mm), "header", "the header is written at offset 0 with (method, msgType, seq) in that order", P.pos(instrPos(wcall)), okArgs, "")
			fa := newAnalysis(P).fa(mm)
			d := fa.sliceDesc(pcall.Common().Args[0])
			okP := d != nil && d.Root == ssa.Value(mk) && d.Off.equal(fa.expand(wcall)) && pcall.Common().Value == ssa.Value(mm.Params[3])
			r.add("EXC-BRANCH", shortName(mm), "payload", "the payload is written right after the header", P.pos(instrPos(pcall)), okP, "")
			// size = MessageBeginLength(method) + msg.BLength(), i.e. 12 + len(method) + BLength — however it is spelled
			okSz := false
			{
				faM := newAnalysis(P).fa(mm)
				sz := faM.expand(mk.Common().Args[0])
				var bl *ssa.Call
				sub := map[AtomID]*Lin{}
				for _, c := range callsIn(mm) {
					cc, isCall := c.(*ssa.Call)
					if !isCall {
						continue
					}
					if isInvokeOf(c, "BLength") && c.Common().Value == ssa.Value(mm.Params[3]) {
						bl = cc
					}
					if cal := c.Common().StaticCallee(); isBinaryProtocolMethod(cal) && strings.HasSuffix(cal.Name(), "Length") {
						if id, has := faM.A.byKey["v:"+faM.vkey(cc)]; has {
							if l := calleeLinear(faM, cc); l != nil {
								sub[id] = l
							}
						}
					}
				}
				sz = sz.substAll(sub)
				if bl != nil {
					if md := faM.sliceDesc(mm.Params[0]); md != nil {
						want := md.Len.addConst(12).add(faM.expand(bl))
						okSz = sz.equal(want) && mk.Common().Args[0] == mk.Common().Args[1]
					}
				}
			}
			r.add("EXC-BRANCH", shortName(mm), "size", "the buffer has exactly MessageBeginLength(method) + msg.BLength() bytes", P.pos(instrPos(mk)), okSz, "")
		}
	}
	// no error of a nested read or write is dropped by the envelope functions
	{
		var fns []*ssa.Function
		for _, n := range []string{"MarshalFastMsg", "UnmarshalFastMsg", "FastMarshal", "FastUnmarshal"} {
			if f := P.Func(relThrift, n); f != nil {
				fns = append(fns, f)
			}
		}
		errDisciplineRule(P, r, "TRUNCATED", fns)
	}
	// ---- ACCESSORS ----
	for _, t := range []struct{ m, f string }{{"TypeId", "t"}, {"TypeID", "t"}, {"Msg", "m"}} {
		fn := P.Method(relThrift, "ApplicationException", t.m)
		if !r.require("thrift.ApplicationException."+t.m, fn != nil) {
			continue
		}
		r.Funcs[shortName(fn)] = true
		ret := singleReturn(fn)
		r.add("ACCESSORS", shortName(fn), "return", "returns the decoded field "+t.f, P.pos(fn.Pos()), ret != nil && isLoadOfField(fn, ret.Results[0], t.f), "")
	}
	if nf := P.Func(relThrift, "NewApplicationException"); r.require("thrift.NewApplicationException", nf != nil) {
		r.Funcs[shortName(nf)] = true
	}
	r.assume("int is 64 bits wide")
	r.assume("that ApplicationException.FastRead fills m and t from fields 1 and 2 is decided under C11; that errBadVersion carries BAD_VERSION under C17")
}

func init() {
	register("C01", "other", checkC01)
	register("C12", "other", checkC12)
}
