package main

// Path-wise cursor discipline (CURSOR-ARG): along every enumerated path,
// consecutive codec calls on slices of one buffer parameter are issued at
// offsets that differ by exactly the previous call's length result (plus, for
// writers, a non-negative constant for bytes stored directly in between).

import (
	"fmt"
	"go/token"

	"golang.org/x/tools/go/ssa"
)

type cursorCall struct {
	Call   *ssa.Call
	Off    *Lin // offset of the slice argument inside the buffer parameter
	Len    *Lin // length result (bytes consumed/produced)
	Capped bool // the slice argument has an explicit upper bound
	Whole  bool
}

type cursorSpec struct {
	Buf *ssa.Parameter
	// family reports the index of the slice argument and how the call's length result is obtained
	// (result index, or -1 when the call itself is the integer result).
	Family     func(c *ssa.Call) (argIdx int, resIdx int, ok bool)
	AllowConst bool // writers: direct stores between calls advance the cursor by constants
	MaxPaths   int
}

type cursorFinding struct {
	Pos    string
	Detail string
}

// cursorPaths enumerates the acyclic paths of fn (loop bodies taken 0, 1 and 2
// times), substitutes phis along each path, and checks the offsets of
// consecutive family calls. It returns the violations found and the number of
// (call, successor call) pairs checked.
func cursorPaths(P *Program, fa *FA, spec cursorSpec) (bad []cursorFinding, pairs int, calls int) {
	fn := fa.fn
	fa.ensureInvariants()
	A := fa.A
	if spec.MaxPaths == 0 {
		spec.MaxPaths = 30000
	}
	describe := func(c *ssa.Call) (*cursorCall, bool) {
		ai, ri, ok := spec.Family(c)
		if !ok {
			return nil, false
		}
		arg := c.Common().Args[ai]
		d := fa.sliceDesc(arg)
		if d == nil || d.Root != ssa.Value(spec.Buf) {
			return nil, false
		}
		cc := &cursorCall{Call: c, Off: d.Off}
		if sl, isSl := arg.(*ssa.Slice); isSl {
			cc.Capped = sl.High != nil || sl.Max != nil
		} else if arg == ssa.Value(spec.Buf) {
			cc.Whole = true
		}
		// the slice must extend to the end of the buffer parameter, whatever re-slicing happened on the way
		if bd := fa.sliceDesc(spec.Buf); bd != nil && d.Len != nil && !d.Len.equal(bd.Len.sub(d.Off)) {
			cc.Capped = true
		}
		var rv ssa.Value
		if ri < 0 {
			rv = c
		} else {
			rv = resultValue(c, ri)
		}
		if rv != nil {
			cc.Len = fa.expand(rv)
		}
		return cc, true
	}
	seenBad := map[string]bool{}
	report := func(c *ssa.Call, msg string) {
		k := fmt.Sprintf("%p|%s", c, msg)
		if seenBad[k] {
			return
		}
		seenBad[k] = true
		bad = append(bad, cursorFinding{P.pos(instrPos(c)), msg})
	}
	counted := map[*ssa.Call]bool{}
	paths := 0
	type state struct {
		b    *ssa.BasicBlock
		sub  map[AtomID]*Lin
		prev *cursorCall
		pOff *Lin // prev.Off under the path substitution at the time of the call
		pLen *Lin
		seen map[*ssa.BasicBlock]int
	}
	resolve := func(l *Lin, sub map[AtomID]*Lin) *Lin {
		for i := 0; i < 6; i++ {
			n := l.substAll(sub)
			if n.equal(l) {
				break
			}
			l = n
		}
		return l
	}
	var walk func(st state)
	walk = func(st state) {
		if paths > spec.MaxPaths {
			return
		}
		prev, pOff, pLen := st.prev, st.pOff, st.pLen
		for _, in := range st.b.Instrs {
			c, ok := in.(*ssa.Call)
			if !ok {
				continue
			}
			cc, ok := describe(c)
			if !ok {
				continue
			}
			if !counted[c] {
				counted[c] = true
				calls++
			}
			if cc.Capped {
				report(c, "the slice handed to the codec call has an explicit upper bound (its length is no longer len(buf) − offset)")
			}
			off := resolve(cc.Off, st.sub)
			if prev != nil && pLen != nil {
				pairs++
				d := off.sub(pOff).sub(pLen)
				if k, isC := d.constVal(); !isC {
					report(c, "offset is not the previous call's offset plus the length it returned: difference "+A.linString(d))
				} else if k.Sign() != 0 && (!spec.AllowConst || k.Sign() < 0) {
					report(c, fmt.Sprintf("offset is off by %s from the previous call's offset plus its length", k.String()))
				}
			} else if prev == nil {
				// first call on the path: offset must be a constant ≥ 0 (reads: 0)
				if k, isC := off.constVal(); !isC || k.Sign() < 0 || (!spec.AllowConst && k.Sign() != 0) {
					report(c, "the first codec call on a path does not start at the beginning of the buffer: offset "+A.linString(off))
				}
			}
			prev = cc
			pOff = off
			if cc.Len != nil {
				pLen = resolve(cc.Len, st.sub)
			} else {
				pLen = nil
			}
		}
		if _, isRet := st.b.Instrs[len(st.b.Instrs)-1].(*ssa.Return); isRet {
			paths++
			return
		}
		for _, s := range st.b.Succs {
			if st.seen[s] >= 2 {
				continue
			}
			ns := state{b: s, prev: prev, pOff: pOff, pLen: pLen, sub: map[AtomID]*Lin{}, seen: map[*ssa.BasicBlock]int{}}
			for k, v := range st.sub {
				ns.sub[k] = v
			}
			for k, v := range st.seen {
				ns.seen[k] = v
			}
			ns.seen[s]++
			idx := -1
			for i, p := range s.Preds {
				if p == st.b {
					idx = i
				}
			}
			for _, a := range fa.phiAtomsOf(s) {
				if a.Kind == aVal {
					ns.sub[a.ID] = resolve(a.Phi.In(idx), st.sub)
				}
			}
			walk(ns)
		}
	}
	walk(state{b: fn.Blocks[0], sub: map[AtomID]*Lin{}, seen: map[*ssa.BasicBlock]int{fn.Blocks[0]: 1}})
	return
}

// binaryFamily recognises the methods of thrift.BinaryProtocol (and Skip) that
// take the buffer as first explicit argument and report a length.
func binaryFamily(readers bool) func(c *ssa.Call) (int, int, bool) {
	return func(c *ssa.Call) (int, int, bool) {
		cal := c.Common().StaticCallee()
		if cal == nil || cal.Signature.Recv() == nil {
			return 0, 0, false
		}
		rt := cal.Signature.Recv().Type().String()
		if rt != modPath+"/"+relThrift+".BinaryProtocol" {
			return 0, 0, false
		}
		n := cal.Name()
		if readers {
			if len(n) > 4 && n[:4] == "Read" || n == "Skip" {
				k := lastIntResult(cal)
				if k < 0 {
					return 0, 0, false
				}
				return 1, k, true
			}
			return 0, 0, false
		}
		if len(n) > 5 && n[:5] == "Write" {
			return 1, -1, true
		}
		return 0, 0, false
	}
}

// ---- LOOP-BOUND: element loops run exactly as often as the container header says ----

func stripWidening(v ssa.Value) ssa.Value {
	for {
		switch x := v.(type) {
		case *ssa.ChangeType:
			v = x.X
		case *ssa.Convert:
			w1, _ := intBits(x.Type())
			w2, _ := intBits(x.X.Type())
			if w1 == 0 || w2 == 0 || w1 < w2 {
				return v
			}
			v = x.X
		default:
			return v
		}
	}
}

// loopBoundRule checks every counted loop of fn whose body calls one of the
// functions accepted by isElemCall: the loop must be `for i := 0; i < B; i++`
// (any equivalent form) where B — through widening conversions only, optionally
// multiplied by a constant factor given by scale — is the size result sizeOf
// returns for the header call that dominates the loop.
func loopBoundRule(P *Program, r *Result, rule string, fn *ssa.Function, isElemCall func(*ssa.Call) bool, isSize func(v ssa.Value) bool) int {
	n := 0
	for _, hb := range fn.Blocks {
		iff, ok := hb.Instrs[len(hb.Instrs)-1].(*ssa.If)
		if !ok || !inLoop(hb) {
			continue
		}
		bo, ok := iff.Cond.(*ssa.BinOp)
		if !ok {
			continue
		}
		cnt, bnd := bo.X, bo.Y
		switch bo.Op {
		case token.LSS:
		case token.GTR:
			cnt, bnd = bo.Y, bo.X
		default:
			continue
		}
		// does the loop body (the true side) contain element calls?
		body := hb.Succs[0]
		has := false
		for _, c := range callsIn(fn) {
			cc, isCall := c.(*ssa.Call)
			if isCall && isElemCall(cc) && (cc.Block() == body || body.Dominates(cc.Block())) && len(body.Preds) == 1 {
				has = true
			}
		}
		if !has {
			continue
		}
		n++
		okCnt := false
		// counting down: left := size; left > 0; left-- runs size times as well
		if k, isC := constInt(bo.Y); isC && k == 0 && bo.Op == token.GTR {
			if ph, isPhi := stripWidening(bo.X).(*ssa.Phi); isPhi {
				if init := countdownInit(ph); init != nil {
					w, _ := intBits(ph.Type())
					okDown := w >= 32 && isSize(stripWidening(init))
					d := ""
					if !okDown {
						d = "the count-down does not start from the element count read from the container header, or is narrower than 32 bits"
					}
					r.add(rule, shortName(fn), "loop", "an element loop runs exactly as many times as the container header declares", P.pos(instrPos(iff)), okDown, d)
					continue
				}
			}
		}
		if ph, isPhi := stripWidening(cnt).(*ssa.Phi); isPhi && isCounter(ph) {
			w, _ := intBits(ph.Type())
			okCnt = w >= 32
		} else if boAdd, isAdd := stripWidening(cnt).(*ssa.BinOp); isAdd && boAdd.Op == token.ADD {
			// range-style counter: phi(-1) + 1
			if ph, isPhi := boAdd.X.(*ssa.Phi); isPhi {
				w, _ := intBits(ph.Type())
				okCnt = w >= 32 && rangeIndexFromZero(boAdd)
			}
		}
		okBnd := isSize(stripWidening(bnd))
		// for i := range s, with s made with exactly that many elements
		if lc := builtinCall(stripWidening(bnd), "len"); !okBnd && lc != nil {
			if ms, isMk := lc.Common().Args[0].(*ssa.MakeSlice); isMk && isSize(stripWidening(ms.Len)) {
				okBnd = true
			}
		}
		detail := ""
		if !okCnt {
			detail = "the loop counter is not a 0,1,2,… counter of at least 32 bits"
		} else if !okBnd {
			detail = "the loop bound is not the element count read from the container header (it was narrowed, clamped or replaced)"
		}
		r.add(rule, shortName(fn), "loop", "an element loop runs exactly as many times as the container header declares", P.pos(instrPos(iff)), okCnt && okBnd, detail)
	}
	return n
}
