package main

// Thorough tier: on top of the quick rules, every seeded change known to be
// reported by this check (/verif/seeded/*/patch.diff with the check listed under
// caught_by, and the small edits of mutants.go) is applied *in memory* (a
// go/packages overlay — /repo is never touched) and the check re-run in a
// subprocess. A change that still applies but is no longer reported means the
// check has lost sensitivity; it is written to the evidence file. These runs never
// influence the verdict on /repo itself.

import (
	"context"
	"encoding/json"
	"fmt"
	"os"
	"os/exec"
	"path/filepath"
	"sort"
	"strconv"
	"strings"
	"sync"
	"time"
)

func abs(x int) int {
	if x < 0 {
		return -x
	}
	return x
}

// applyUnifiedDiff applies a git-style unified diff to the files under repo and
// returns the patched contents keyed by absolute file name.
func applyUnifiedDiff(repo, patch string) (map[string][]byte, error) {
	out := map[string][]byte{}
	lines := strings.Split(patch, "\n")
	var file, lastOld string
	var content []string
	flush := func() {
		if file != "" {
			out[file] = []byte(strings.Join(content, "\n"))
		}
	}
	i := 0
	for i < len(lines) {
		l := lines[i]
		switch {
		case strings.HasPrefix(l, "--- "):
			lastOld = strings.TrimPrefix(strings.TrimPrefix(l, "--- "), "a/")
			i++
		case strings.HasPrefix(l, "+++ "):
			flush()
			name := strings.TrimPrefix(l, "+++ ")
			name = strings.TrimPrefix(name, "b/")
			if name == "/dev/null" {
				// a deleted file: what is left of it declares nothing
				file = filepath.Join(repo, lastOld)
				b, err := os.ReadFile(file)
				if err != nil {
					return nil, err
				}
				pkg := ""
				for _, ln := range strings.Split(string(b), "\n") {
					if strings.HasPrefix(ln, "package ") {
						pkg = ln
						break
					}
				}
				out[file] = []byte(pkg + "\n")
				file = ""
				i++
				continue
			}
			file = filepath.Join(repo, name)
			if lastOld == "/dev/null" {
				content = []string{""}
				i++
				continue
			}
			b, err := os.ReadFile(file)
			if err != nil {
				return nil, err
			}
			content = strings.Split(string(b), "\n")
			i++
		case strings.HasPrefix(l, "@@") && file != "":
			want := -1
			if f := strings.Fields(l); len(f) >= 3 && strings.HasPrefix(f[2], "+") {
				if n, err := strconv.Atoi(strings.SplitN(f[2][1:], ",", 2)[0]); err == nil {
					want = n - 1 // position in the file as patched so far
				}
			}
			i++
			var old, new []string
			for i < len(lines) {
				h := lines[i]
				if strings.HasPrefix(h, "@@") || strings.HasPrefix(h, "diff ") || strings.HasPrefix(h, "--- ") {
					break
				}
				switch {
				case strings.HasPrefix(h, "-"):
					old = append(old, h[1:])
				case strings.HasPrefix(h, "+"):
					new = append(new, h[1:])
				case strings.HasPrefix(h, " "):
					old = append(old, h[1:])
					new = append(new, h[1:])
				case h == "" && i == len(lines)-1:
				case h == "":
					old = append(old, "")
					new = append(new, "")
				case strings.HasPrefix(h, "\\"):
				}
				i++
			}
			// locate the old block (unique match required)
			at := -1
			for s := 0; s+len(old) <= len(content); s++ {
				ok := true
				for k := range old {
					if content[s+k] != old[k] {
						ok = false
						break
					}
				}
				if ok {
					if at >= 0 {
						// several matches: the one closest to the line the hunk header names
						if want < 0 {
							return nil, fmt.Errorf("hunk matches more than once in %s", file)
						}
						if abs(s-want) < abs(at-want) {
							at = s
						}
						continue
					}
					at = s
				}
			}
			if at < 0 {
				return nil, fmt.Errorf("hunk does not apply to %s", file)
			}
			nc := append([]string{}, content[:at]...)
			nc = append(nc, new...)
			nc = append(nc, content[at+len(old):]...)
			content = nc
		default:
			i++
		}
	}
	flush()
	if len(out) == 0 {
		return nil, fmt.Errorf("no file section in patch")
	}
	return out, nil
}

// applyEdit replaces the single occurrence of old by new in repo/file.
func applyEdit(repo, file, old, new string) (map[string][]byte, error) {
	abs := filepath.Join(repo, file)
	b, err := os.ReadFile(abs)
	if err != nil {
		return nil, err
	}
	s := string(b)
	if n := strings.Count(s, old); n != 1 {
		return nil, fmt.Errorf("edit anchor occurs %d times in %s", n, file)
	}
	return map[string][]byte{abs: []byte(strings.Replace(s, old, new, 1))}, nil
}

type mutantRun struct {
	ID     string
	Args   []string
	Note   string
	Status string // killed | survived | skipped | error
	Rules  string
}

func runThoroughMutants(res *Result, prop, repo, verif string) {
	var runs []*mutantRun
	// seeded patches
	dirs, _ := filepath.Glob(filepath.Join(verif, "seeded", "*", "meta.json"))
	sort.Strings(dirs)
	for _, mf := range dirs {
		b, err := os.ReadFile(mf)
		if err != nil {
			continue
		}
		var meta struct {
			CaughtBy []struct {
				Check string `json:"check"`
			} `json:"caught_by"`
			What string `json:"what"`
		}
		if json.Unmarshal(b, &meta) != nil {
			continue
		}
		for _, c := range meta.CaughtBy {
			if c.Check == prop {
				id := filepath.Base(filepath.Dir(mf))
				runs = append(runs, &mutantRun{ID: "seeded/" + id, Args: []string{"-patch", filepath.Join(filepath.Dir(mf), "patch.diff")}})
			}
		}
	}
	for i, m := range smallMutants {
		if m.Prop != prop {
			continue
		}
		runs = append(runs, &mutantRun{ID: fmt.Sprintf("edit/%s-%d", prop, i), Note: m.Note, Args: []string{"-edit-file", m.File, "-edit-old", m.Old, "-edit-new", m.New}})
	}
	// behaviour-preserving edits: the check must stay silent on every one of them
	// (those that touch a package in which this property has obligations: an edit elsewhere is not seen by its rules)
	pkgDirs := map[string]bool{}
	for _, o := range res.Obls {
		if i := strings.Index(o.Pos, ":"); i > 0 {
			pkgDirs[filepath.Dir(o.Pos[:i])] = true
		}
	}
	touches := func(patch string) bool {
		b, err := os.ReadFile(patch)
		if err != nil {
			return true
		}
		for _, l := range strings.Split(string(b), "\n") {
			if strings.HasPrefix(l, "+++ b/") || strings.HasPrefix(l, "--- a/") {
				if pkgDirs[filepath.Dir(l[6:])] {
					return true
				}
			}
		}
		return false
	}
	var benign []*mutantRun
	skippedElsewhere := 0
	for _, dir := range []string{"benign", "benign2", "benign3", "benign4", "benign5", "benign6", "benign7", "benign8", "benign9"} {
		files, _ := filepath.Glob(filepath.Join(verif, dir, "*", "*.diff"))
		sort.Strings(files)
		for _, f := range files {
			if !touches(f) {
				skippedElsewhere++
				continue
			}
			rel, _ := filepath.Rel(verif, f)
			benign = append(benign, &mutantRun{ID: rel, Args: []string{"-patch", f}})
		}
	}
	res.Extra["benign_variants_in_other_packages"] = skippedElsewhere
	runs = append(runs, benign...)
	isBenign := map[*mutantRun]bool{}
	for _, b := range benign {
		isBenign[b] = true
	}
	sem := make(chan struct{}, 14)
	var wg sync.WaitGroup
	for _, mr := range runs {
		wg.Add(1)
		go func(mr *mutantRun) {
			defer wg.Done()
			sem <- struct{}{}
			defer func() { <-sem }()
			args := append([]string{"-prop", prop, "-repo", repo, "-verif", verif, "-no-evidence", "-tier", "quick"}, mr.Args...)
			// a variant the prover cannot finish in six minutes is recorded as such (and is not silent)
			ctx, cancel := context.WithTimeout(context.Background(), 6*time.Minute)
			defer cancel()
			cmd := exec.CommandContext(ctx, os.Args[0], args...)
			cmd.Env = append(os.Environ(), "VERIF_TIER=quick")
			out, err := cmd.CombinedOutput()
			code := 0
			if ctx.Err() != nil {
				mr.Status = "analysis error (not finished within 6 minutes)"
				return
			}
			if ee, ok := err.(*exec.ExitError); ok {
				code = ee.ExitCode()
			} else if err != nil {
				mr.Status = "error: " + err.Error()
				return
			}
			text := string(out)
			switch {
			case strings.Contains(text, "MUTANT-SKIPPED"):
				mr.Status = "skipped (no longer applies to this tree)"
			case code == 1 && strings.Contains(text, "VIOLATION property="+prop):
				mr.Status = "killed"
				rules := map[string]bool{}
				for _, l := range strings.Split(text, "\n") {
					if strings.HasPrefix(l, prop+"/") {
						f := strings.Fields(l)
						rules[strings.TrimPrefix(f[0], prop+"/")] = true
					}
				}
				var rs []string
				for k := range rules {
					rs = append(rs, k)
				}
				sort.Strings(rs)
				mr.Rules = strings.Join(rs, ",")
			case code == 0:
				mr.Status = "survived"
			default:
				mr.Status = fmt.Sprintf("analysis error (exit %d)", code)
			}
		}(mr)
	}
	wg.Wait()
	benignTried, benignSilent := 0, 0
	var benignLog []string
	for _, mr := range runs {
		if isBenign[mr] {
			if strings.HasPrefix(mr.Status, "skipped") {
				continue
			}
			benignTried++
			if mr.Status == "survived" {
				benignSilent++
			} else {
				benignLog = append(benignLog, mr.ID+": reported ("+mr.Rules+") — the rule does not recognise this form; see DESIGN.md §10.4")
			}
			continue
		}
		if strings.HasPrefix(mr.Status, "skipped") {
			res.MutantLog = append(res.MutantLog, mr.ID+": "+mr.Status)
			continue
		}
		res.MutantsTried++
		if mr.Status == "killed" {
			res.MutantsKill++
		}
		line := mr.ID + ": " + mr.Status
		if mr.Rules != "" {
			line += " by " + mr.Rules
		}
		if mr.Note != "" {
			line += " — " + mr.Note
		}
		res.MutantLog = append(res.MutantLog, line)
	}
	res.Extra["benign_variants_tried"] = benignTried
	res.Extra["benign_variants_silent"] = benignSilent
	if benignLog == nil {
		benignLog = []string{}
	}
	res.Extra["benign_variants_reported"] = benignLog
	fmt.Printf("%s: thorough: %d seeded/edited variants tried in memory, %d reported; %d behaviour-preserving variants tried, %d silent\n", prop, res.MutantsTried, res.MutantsKill, benignTried, benignSilent)
	for _, l := range benignLog {
		fmt.Println("  " + l)
	}
	for _, l := range res.MutantLog {
		if !strings.Contains(l, ": killed") {
			fmt.Println("  " + l)
		}
	}
}
