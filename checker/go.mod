module verif/checker

go 1.22

require golang.org/x/tools v0.29.0
