package main

import (
	_ "embed"
	"encoding/json"
	"flag"
	"fmt"
	"os"
	"path/filepath"
	"runtime/debug"
	"runtime/pprof"
	"sort"
	"strconv"
	"strings"
	"time"
)

// Obligation is one statically decided proof obligation of a rule.
type Obligation struct {
	Rule      string `json:"rule"`
	Func      string `json:"func"`
	Construct string `json:"construct"`
	Pos       string `json:"pos"`
	OK        bool   `json:"ok"`
	Detail    string `json:"detail,omitempty"`
	Known     bool   `json:"known_finding,omitempty"`
	// Definite: the rule exhibits the offending construct (a path, a store) rather than failing to
	// recognise a form; such a failure is not retried on the normalised program
	Definite bool `json:"definite,omitempty"`
}

func (o Obligation) Key() string { return o.Rule + " " + o.Func + "#" + o.Construct }

type Result struct {
	Prop         string
	Level        string
	Explanation  string
	Obls         []Obligation
	Funcs        map[string]bool
	Assumptions  []string
	Trusted      []string
	Configs      []string
	Fatal        []string // analysis could not run: anchors missing etc. (reported like a failed obligation: exit 1)
	Extra        map[string]interface{}
	ordinals     map[string]int
	MutantsTried int
	MutantsKill  int
	MutantLog    []string
}

func newResult(prop string) *Result {
	return &Result{Prop: prop, Level: "other", Funcs: map[string]bool{}, Extra: map[string]interface{}{}, ordinals: map[string]int{}}
}

// add records an obligation. kind is the construct kind ("slice", "load",
// "return", ...); the ordinal among its kind inside the function is appended so
// that the key never depends on a line number.
func (r *Result) add(rule, fn, kind, what, pos string, ok bool, detail string) {
	k := rule + "|" + fn + "|" + kind
	r.ordinals[k]++
	c := fmt.Sprintf("%s#%d", kind, r.ordinals[k])
	if what != "" {
		c += " " + what
	}
	r.Obls = append(r.Obls, Obligation{Rule: r.Prop + "/" + rule, Func: fn, Construct: c, Pos: pos, OK: ok, Detail: detail})
	r.Funcs[fn] = true
}

// markDefinite flags the obligation added last as a definite failure.
func (r *Result) markDefinite() {
	if n := len(r.Obls); n > 0 && !r.Obls[n-1].OK {
		r.Obls[n-1].Definite = true
	}
}

func (r *Result) fatal(format string, a ...interface{}) {
	r.Fatal = append(r.Fatal, fmt.Sprintf(format, a...))
}

func (r *Result) assume(s string) {
	for _, x := range r.Assumptions {
		if x == s {
			return
		}
	}
	r.Assumptions = append(r.Assumptions, s)
}

// require fails the run (exit 2, vacuity guard) if an anchored entry point
// could not be resolved.
func (r *Result) require(name string, found bool) bool {
	if !found {
		r.fatal("anchor not found: %s", name)
	}
	return found
}

type ruleFunc func(P *Program, r *Result, tier string)

var rules = map[string]ruleFunc{}
var ruleLevel = map[string]string{}

func register(prop, level string, f ruleFunc) {
	rules[prop] = f
	ruleLevel[prop] = level
}

type finding struct {
	prop, rule, at, what string
}

func loadFindings(path string) ([]finding, error) {
	b, err := os.ReadFile(path)
	if err != nil {
		if os.IsNotExist(err) {
			return nil, nil
		}
		return nil, err
	}
	var out []finding
	for _, ln := range strings.Split(string(b), "\n") {
		ln = strings.TrimSpace(ln)
		if !strings.HasPrefix(ln, "finding:") {
			continue // "fixed:" entries and comments suppress nothing
		}
		f := finding{}
		rest := strings.TrimSpace(strings.TrimPrefix(ln, "finding:"))
		for _, kv := range splitKV(rest) {
			switch kv[0] {
			case "property":
				f.prop = kv[1]
			case "rule":
				f.rule = kv[1]
			case "at":
				f.at = kv[1]
			case "what":
				f.what = kv[1]
			}
		}
		if f.prop != "" && f.rule != "" && f.at != "" {
			out = append(out, f)
		}
	}
	return out, nil
}

// splitKV splits `k=v k2="v with spaces"` pairs.
func splitKV(s string) [][2]string {
	var out [][2]string
	for len(s) > 0 {
		s = strings.TrimLeft(s, " \t")
		i := strings.IndexByte(s, '=')
		if i < 0 {
			break
		}
		k := s[:i]
		s = s[i+1:]
		var v string
		if strings.HasPrefix(s, "\"") {
			j := strings.Index(s[1:], "\"")
			if j < 0 {
				v, s = s[1:], ""
			} else {
				v, s = s[1:1+j], s[2+j:]
			}
		} else {
			j := strings.IndexAny(s, " \t")
			if j < 0 {
				v, s = s, ""
			} else {
				v, s = s[:j], s[j:]
			}
		}
		out = append(out, [2]string{k, v})
	}
	return out
}

func main() {
	prop := flag.String("prop", "", "property id (C01..C20)")
	tier := flag.String("tier", "quick", "quick|thorough")
	repo := flag.String("repo", "/repo", "repository root")
	verif := flag.String("verif", "/verif", "verification root (evidence, known findings)")
	explain := flag.String("explain", "", "replay file: re-run the obligations listed in it and print details")
	noEvidence := flag.Bool("no-evidence", false, "do not write evidence (used for mutant runs)")
	verbose := flag.Bool("v", false, "print every obligation")
	debug.SetGCPercent(600)
	cpuprof := flag.String("cpuprofile", "", "write a CPU profile")
	patchFile := flag.String("patch", "", "unified diff applied to the repository in memory before analysing (variants; never touches the tree)")
	editFile := flag.String("edit-file", "", "with -edit-old/-edit-new: single-site in-memory edit of this file")
	editOld := flag.String("edit-old", "", "")
	editNew := flag.String("edit-new", "", "")
	dumpFloor := flag.Bool("dump-floor", false, "print the (rule, kind) pairs that have obligations on this tree (input of rule_floor.txt)")
	dumpKnownFlag := flag.Bool("dump-known", false, "print the function and call-edge list of the tree (input of known_calls.txt)")
	dumpNorm := flag.String("dump-normalised", "", "write the files changed by the inlining normalisation into this directory and exit")
	normOnly := flag.Bool("normalised-only", false, "debugging: run the check on the normalised program only")
	noNorm := flag.Bool("no-normalise", false, "do not retry a failing check on the program normalised by inlining")
	flag.Parse()
	if *dumpKnownFlag {
		P, err := loadSyntaxOnly(*repo, nil)
		if err != nil {
			fmt.Fprintln(os.Stderr, err)
			os.Exit(2)
		}
		dumpKnown(P)
		os.Exit(0)
	}
	if *patchFile != "" {
		b, err := os.ReadFile(*patchFile)
		if err == nil {
			runOverlay, err = applyUnifiedDiff(*repo, string(b))
		}
		if err != nil {
			fmt.Println("MUTANT-SKIPPED:", err)
			os.Exit(3)
		}
	}
	if *editFile != "" {
		var err error
		runOverlay, err = applyEdit(*repo, *editFile, *editOld, *editNew)
		if err != nil {
			fmt.Println("MUTANT-SKIPPED:", err)
			os.Exit(3)
		}
	}
	if *dumpNorm != "" {
		ov, log := normalizeByInlining(*repo, runOverlay)
		for _, l := range log {
			fmt.Println(l)
		}
		for name, b := range ov {
			if runOverlay != nil {
				if ob, ok := runOverlay[name]; ok && string(ob) == string(b) {
					continue
				}
			}
			out := filepath.Join(*dumpNorm, strings.ReplaceAll(strings.TrimPrefix(name, *repo+"/"), "/", "__"))
			_ = os.MkdirAll(*dumpNorm, 0o755)
			_ = os.WriteFile(out, b, 0o644)
			fmt.Println("wrote", out)
		}
		os.Exit(0)
	}
	if *cpuprof != "" {
		f, _ := os.Create(*cpuprof)
		pprof.StartCPUProfile(f)
		defer pprof.StopCPUProfile()
	}
	if t := os.Getenv("VERIF_TIER"); t == "quick" || t == "thorough" {
		*tier = t
	}
	seed := 0
	if s := os.Getenv("VERIF_SEED"); s != "" {
		if n, err := strconv.Atoi(s); err == nil {
			seed = n
		}
	}
	if *explain != "" {
		b, err := os.ReadFile(*explain)
		if err != nil {
			fmt.Fprintln(os.Stderr, "cannot read replay file:", err)
			os.Exit(2)
		}
		var rp struct {
			Property string       `json:"property"`
			Failed   []Obligation `json:"failed"`
		}
		if err := json.Unmarshal(b, &rp); err != nil {
			fmt.Fprintln(os.Stderr, "bad replay file:", err)
			os.Exit(2)
		}
		*prop = rp.Property
		*verbose = true
		*noEvidence = true
		explainKeys = map[string]bool{}
		for _, o := range rp.Failed {
			explainKeys[o.Key()] = true
		}
	}
	f, ok := rules[*prop]
	if !ok {
		fmt.Fprintf(os.Stderr, "unknown or unclaimed property %q\n", *prop)
		os.Exit(2)
	}
	start := time.Now()
	if *normOnly {
		if ov, log := normalizeByInlining(*repo, runOverlay); ov != nil {
			runOverlay = ov
			for _, l := range log {
				fmt.Println(l)
			}
		}
		*noNorm = true
	}
	res := runProp(*prop, f, *repo, *tier)
	if *dumpFloor {
		var ks []string
		for k := range ruleKinds(res) {
			ks = append(ks, k)
		}
		sort.Strings(ks)
		for _, k := range ks {
			fmt.Println(k)
		}
		os.Exit(0)
	}
	definite := false
	for _, o := range res.Obls {
		if !o.OK && o.Definite {
			definite = true
		}
	}
	if !*noNorm && !definite && resFailed(res, *prop, *verif) {
		// the same check on the program with the calls unknown to the rules inlined (inline.go)
		if ov, log := normalizeByInlining(*repo, runOverlay); ov != nil {
			saved := runOverlay
			runOverlay = ov
			res2 := runProp(*prop, f, *repo, *tier)
			runOverlay = saved
			if !resFailed(res2, *prop, *verif) {
				res2.Extra["decided_on_normalised_program"] = log
				res2.assume("the source-level inliner of the checker (inline.go) preserves behaviour; the property was decided on the program it produced")
				fmt.Printf("%s: not decided on the tree as it stands; decided on the program normalised by inlining %d calls unknown to the rules\n", *prop, len(log))
				res = res2
			}
		} else if len(log) > 0 {
			res.Extra["normalisation"] = log
		}
	}
	if *tier == "thorough" && !*noEvidence && runOverlay == nil && len(res.Fatal) == 0 {
		runThoroughMutants(res, *prop, *repo, *verif)
	}
	code := finish(res, *prop, *tier, seed, *verif, start, *noEvidence, *verbose)
	if *cpuprof != "" {
		pprof.StopCPUProfile()
	}
	os.Exit(code)
}

var explainKeys map[string]bool

// resFailed: the run would not exit 0.
func resFailed(res *Result, prop, verif string) bool {
	if len(res.Fatal) > 0 || len(res.Obls) == 0 {
		return true
	}
	fnd, _ := loadFindings(filepath.Join(verif, "known_findings.txt"))
	for _, o := range res.Obls {
		if o.OK {
			continue
		}
		known := false
		for _, f := range fnd {
			if f.prop == prop && f.rule == o.Rule && f.at == o.Func+"#"+strings.SplitN(o.Construct, " ", 2)[0] {
				known = true
			}
		}
		if !known {
			return true
		}
	}
	return false
}

// runOverlay: in-memory file replacements for variant runs (nil for the real tree).
var runOverlay map[string][]byte

func runProp(prop string, f ruleFunc, repo, tier string) (res *Result) {
	res = newResult(prop)
	res.Level = ruleLevel[prop]
	defer func() {
		if e := recover(); e != nil {
			res.fatal("analyser panic: %v\n%s", e, debug.Stack())
		}
	}()
	P, err := loadProgram(LoadOpts{Repo: repo, Deep: false, Overlay: runOverlay})
	if err != nil {
		res.fatal("load: %v", err)
		return
	}
	n := 0
	for _, p := range P.Pkgs {
		if strings.HasPrefix(p.PkgPath, modPath) {
			n++
		}
	}
	if n < 11 {
		res.fatal("expected at least 11 repository packages, loaded %d", n)
		return
	}
	res.Configs = append(res.Configs, P.Config)
	globalEffects = newEffects(P)
	f(P, res, tier)
	applyFloor(res, prop)
	return
}

//go:embed rule_floor.txt
var ruleFloorText string

// ruleKinds lists the (rule, obligation kind) pairs of a result, e.g. "C05/CURSOR return".
func ruleKinds(res *Result) map[string]int {
	out := map[string]int{}
	for _, o := range res.Obls {
		kind := o.Construct
		if i := strings.IndexAny(kind, "# "); i >= 0 {
			kind = kind[:i]
		}
		out[o.Rule+" "+kind]++
	}
	return out
}

// applyFloor: a rule that has instances on the pinned tree and none on the tree analysed has lost the form it is
// anchored in — it would otherwise pass vacuously for ever. rule_floor.txt (generated with -dump-floor on the pinned
// tree) lists the (rule, kind) pairs that must have at least one obligation.
func applyFloor(res *Result, prop string) {
	if len(res.Fatal) > 0 || os.Getenv("VERIF_NO_FLOOR") != "" {
		return
	}
	have := ruleKinds(res)
	var missing []string
	for _, l := range strings.Split(ruleFloorText, "\n") {
		l = strings.TrimSpace(l)
		if l == "" || strings.HasPrefix(l, "#") || !strings.HasPrefix(l, prop+"/") {
			continue
		}
		if have[l] == 0 {
			missing = append(missing, l)
		}
	}
	sort.Strings(missing)
	for _, m := range missing {
		res.fatal("no obligation of kind %q on this tree (the pinned tree has some): what the rule is anchored in is gone, it would pass vacuously", m)
	}
}

func finish(res *Result, prop, tier string, seed int, verif string, start time.Time, noEvidence, verbose bool) int {
	fnd, err := loadFindings(filepath.Join(verif, "known_findings.txt"))
	if err != nil {
		res.fatal("known_findings.txt: %v", err)
	}
	sort.SliceStable(res.Obls, func(i, j int) bool {
		a, b := res.Obls[i], res.Obls[j]
		if a.Rule != b.Rule {
			return a.Rule < b.Rule
		}
		if a.Func != b.Func {
			return a.Func < b.Func
		}
		return false
	})
	var failed []Obligation
	discharged := 0
	inst := map[string]int{}
	for i := range res.Obls {
		o := &res.Obls[i]
		inst[o.Rule]++
		if o.OK {
			discharged++
			continue
		}
		for _, f := range fnd {
			if f.prop == prop && f.rule == o.Rule && f.at == o.Func+"#"+strings.SplitN(o.Construct, " ", 2)[0] {
				o.Known = true
				fmt.Printf("KNOWN-FINDING: property=%s %s at %s %s: %s\n", prop, o.Rule, o.Func, o.Construct, f.what)
			}
		}
		if !o.Known {
			failed = append(failed, *o)
		}
	}
	if verbose {
		for _, o := range res.Obls {
			if explainKeys != nil && !explainKeys[o.Key()] {
				continue
			}
			st := "ok  "
			if !o.OK {
				st = "FAIL"
			}
			fmt.Printf("%s %s %s %s: %s [%s]\n", st, o.Rule, o.Pos, o.Func, o.Construct, o.Detail)
		}
	}
	if len(res.Obls) == 0 && len(res.Fatal) == 0 {
		res.fatal("no obligations generated (vacuous run)")
	}
	wall := time.Since(start).Seconds()
	code := 0
	if len(res.Fatal) > 0 {
		// an anchor that is gone, a form the rules cannot read, a tree that does not type-check: the property is
		// not shown to hold, which is reported like any other failed obligation
		for _, f := range res.Fatal {
			fmt.Printf("%s/ANALYSIS-ERROR %s\n", prop, f)
		}
		code = 1
	}
	replay := filepath.Join(verif, "evidence", "replay", prop+".json")
	if len(failed) > 0 {
		for _, o := range failed {
			fmt.Printf("%s %s %s: %s [%s]\n", o.Rule, o.Pos, o.Func, o.Construct, o.Detail)
		}
		if code == 0 {
			code = 1
		}
	}
	if !noEvidence {
		_ = os.MkdirAll(filepath.Join(verif, "evidence", "replay"), 0o755)
		if len(failed) > 0 || len(res.Fatal) > 0 {
			rb, _ := json.MarshalIndent(map[string]interface{}{"property": prop, "tier": tier, "failed": failed, "analysis_errors": res.Fatal}, "", " ")
			_ = os.WriteFile(replay, rb, 0o644)
		} else {
			_ = os.Remove(replay)
		}
		writeEvidence(res, prop, tier, seed, verif, wall, len(failed), discharged, inst)
	}
	if code == 1 {
		fmt.Printf("VIOLATION property=%s replay=%s\n", prop, replay)
	}
	if code == 0 {
		fmt.Printf("%s: %d obligations, %d discharged, %d known findings, %d functions, %.1fs (%s)\n",
			prop, len(res.Obls), discharged, len(res.Obls)-discharged, len(res.Funcs), wall, tier)
	}
	return code
}

func writeEvidence(res *Result, prop, tier string, seed int, verif string, wall float64, nfailed, discharged int, inst map[string]int) {
	var funcs []string
	for f := range res.Funcs {
		funcs = append(funcs, f)
	}
	sort.Strings(funcs)
	// samples: up to 3 obligations per rule, written out
	var samples []interface{}
	perRule := map[string]int{}
	for _, o := range res.Obls {
		if perRule[o.Rule] >= 3 {
			continue
		}
		perRule[o.Rule]++
		samples = append(samples, map[string]interface{}{
			"rule": o.Rule, "func": o.Func, "construct": o.Construct, "pos": o.Pos, "ok": o.OK, "discharged_by": o.Detail,
		})
	}
	var viol []Obligation
	for _, o := range res.Obls {
		if !o.OK {
			viol = append(viol, o)
		}
	}
	cov := map[string]interface{}{
		"explanation":        res.Explanation,
		"obligations":        len(res.Obls),
		"discharged":         discharged,
		"exhaustive":         true,
		"functions_analysed": funcs,
		"rule_instances":     inst,
		"samples":            samples,
		"configs":            res.Configs,
		"checker_cmd":        fmt.Sprintf("bin/gopkgcheck -prop %s -tier %s", prop, tier),
		"trusted_base":       append([]string{"go/types", "go/ssa (golang.org/x/tools v0.29.0)", "Go specification: slices, conversions, unsafe builtins"}, res.Trusted...),
		"failed_obligations": viol,
		"analysis_errors":    res.Fatal,
	}
	if tier == "thorough" {
		cov["mutants_tried"] = res.MutantsTried
		cov["mutants_killed"] = res.MutantsKill
		cov["mutant_log"] = res.MutantLog
	}
	for k, v := range res.Extra {
		cov[k] = v
	}
	if res.Assumptions == nil {
		res.Assumptions = []string{"go/types and go/ssa model the program faithfully; the default linux/amd64 build configuration is analysed"}
	}
	ev := map[string]interface{}{
		"property_id": prop,
		"tier":        tier,
		"seed":        seed,
		"level":       res.Level,
		"coverage":    cov,
		"assumptions": res.Assumptions,
		"wall_s":      wall,
		"violations":  nfailed,
	}
	b, _ := json.MarshalIndent(ev, "", " ")
	_ = os.WriteFile(filepath.Join(verif, "evidence", prop+".json"), b, 0o644)
}

var debugContracts = os.Getenv("E1_DEBUG") != ""
