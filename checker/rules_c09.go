package main

// C09 — zero-copy lifetimes and ownership of buffers.

import (
	"fmt"
	"go/constant"
	"go/token"
	"go/types"
	"strings"

	"golang.org/x/tools/go/ssa"
)

type freeSite struct {
	Call *ssa.Call
	Fn   *ssa.Function
}

func allFreeSites(P *Program) []freeSite {
	var out []freeSite
	for fn := range P.AllFuncs {
		if !inRepo(fn) || fn.Blocks == nil || strings.Contains(fnPkgPath(fn), "/internal/testutils") {
			continue
		}
		for _, c := range callsIn(fn) {
			if cc, ok := c.(*ssa.Call); ok && isCallTo(c, pkgMcache, "Free") {
				out = append(out, freeSite{cc, fn})
			}
		}
	}
	return out
}

// freedField: the receiver field the freed value was loaded from (directly, or
// as an element of the slice held in that field).
func freedField(fn *ssa.Function, v ssa.Value) (field string, elem bool) {
	ld, ok := v.(*ssa.UnOp)
	if !ok || ld.Op != token.MUL {
		return "", false
	}
	if f := recvFieldOf(fn, ld.X); f != "" && !strings.ContainsAny(f, "*[{") {
		return f, false
	}
	if ia, ok := ld.X.(*ssa.IndexAddr); ok {
		if l2, ok := ia.X.(*ssa.UnOp); ok && l2.Op == token.MUL {
			if f := recvFieldOf(fn, l2.X); f != "" {
				return f, true
			}
		}
	}
	return "", false
}

// flagGuard reports whether instruction in is only reachable when the boolean
// receiver field has the given value.
func flagGuard(fn *ssa.Function, in ssa.Instruction, field string, want bool) bool {
	for _, b := range fn.Blocks {
		for _, x := range b.Instrs {
			ld, ok := x.(*ssa.UnOp)
			if !ok || ld.Op != token.MUL || recvFieldOf(fn, ld.X) != field {
				continue
			}
			// the tests that establish flag == want: the load itself (bool), or comparisons with constants
			type test struct {
				cond  ssa.Value
				truth bool
			}
			var tests []test
			if isBoolType(ld.Type()) {
				tests = append(tests, test{ld, want})
			} else if ld.Referrers() != nil {
				for _, rf := range *ld.Referrers() {
					bo, isBo := rf.(*ssa.BinOp)
					if !isBo || (bo.Op != token.EQL && bo.Op != token.NEQ) {
						continue
					}
					k, isC := constInt(bo.Y)
					if !isC {
						continue
					}
					// a two-valued mode: zero stands for "false"; comparing with the other value decides just as well
					isZero := k == 0
					// (ld == k) true  ⇒ flag set iff k != 0
					eqTruth := bo.Op == token.EQL
					// want=false (flag is zero): (ld == 0) true, (ld != 0) false, (ld == K) false, (ld != K) true
					if want == !isZero {
						tests = append(tests, test{bo, eqTruth})
					} else {
						tests = append(tests, test{bo, !eqTruth})
					}
				}
			}
			for _, t := range tests {
				if !guardedBy(in, t.cond, t.truth) {
					continue
				}
				// no store to the flag between the test and the instruction
				clean := true
				for _, st := range storesTo(fn, field) {
					if instrDominates(ld, st) && reachesWithout(st, in, func(ssa.Instruction) bool { return false }) && !instrDominates(in, st) {
						if set, isC := flagConst(st.Val); !isC || set != want {
							clean = false
						}
					}
				}
				if clean {
					return true
				}
			}
		}
	}
	return false
}

func isBoolType(t types.Type) bool {
	b, ok := t.Underlying().(*types.Basic)
	return ok && b.Kind() == types.Bool
}

// flagConst: v is a constant of a flag type; set reports whether it stands for "true" (non-zero).
func flagConst(v ssa.Value) (set bool, ok bool) {
	c, isC := v.(*ssa.Const)
	if !isC || c.Value == nil {
		return false, false
	}
	if c.Value.Kind() == constant.Bool {
		return constant.BoolVal(c.Value), true
	}
	if k, isInt := constInt(v); isInt {
		return k != 0, true
	}
	return false, false
}

func checkC09(P *Program, r *Result, tier string) {
	r.Explanation = "Ownership rules over every mcache.Free site of the repository and the bufiox reader/writer: WHO-FREES (no Free is reachable from the operations across which handed-out slices must survive), " +
		"OWNER-GUARD (reader frees and parking are dominated by !bufReadOnly, writer frees by !disableCache; a caller's slice stored as reader buffer sets bufReadOnly; reset with a caller buffer only from the bytes-backed constructors with the inert source / cache disabled), " +
		"NO-WRITE-CALLER (copies into the reader's buffer only on the pool-owned branch; the inert source writes nothing; WriteBinary's payload is only read), " +
		"FREE-THEN-FORGET (after Free(v) the field v came from is overwritten on every path to the exit)."
	sites := allFreeSites(P)
	if len(sites) < 3 {
		r.fatal("expected at least 3 mcache.Free call sites in the repository, found %d (vacuity guard)", len(sites))
		return
	}
	r.Extra["free_sites"] = len(sites)
	inBufiox := func(f *ssa.Function) bool { return fnPkgPath(f) != modPath+"/"+relBufiox }
	// ---- WHO-FREES ----
	ops := map[string][]string{"DefaultReader": {"Next", "Peek", "Skip", "ReadBinary", "ReadLen"}, "DefaultWriter": {"Malloc", "WriteBinary", "WrittenLen"}}
	for typ, names := range ops {
		for _, n := range names {
			fn := P.Method(relBufiox, typ, n)
			if !r.require("bufiox."+typ+"."+n, fn != nil) {
				continue
			}
			bad := ""
			for _, f := range P.reachable([]*ssa.Function{fn}, inBufiox) {
				for _, s := range sites {
					if s.Fn == f {
						bad = "mcache.Free at " + P.pos(instrPos(s.Call)) + " in " + shortName(f)
					}
				}
			}
			r.add("WHO-FREES", shortName(fn), "calls", "no buffer is recycled while slices handed out earlier must stay valid", P.pos(fn.Pos()), bad == "", bad)
		}
	}
	// ---- OWNER-GUARD and FREE-THEN-FORGET on every Free site ----
	for _, s := range sites {
		fn := s.Fn
		r.Funcs[shortName(fn)] = true
		field, _ := freedField(fn, s.Call.Common().Args[0])
		recvT := ""
		if len(fn.Params) > 0 {
			if pt, ok := fn.Params[0].Type().Underlying().(*types.Pointer); ok {
				if n, ok := pt.Elem().(*types.Named); ok {
					recvT = n.Obj().Name()
				}
			}
		}
		switch recvT {
		case "DefaultReader":
			if field == "buf" {
				r.add("OWNER-GUARD", shortName(fn), "free", "freeing the reader's buffer requires !bufReadOnly", P.pos(instrPos(s.Call)), flagGuard(fn, s.Call, "bufReadOnly", false), "")
			}
		case "DefaultWriter":
			r.add("OWNER-GUARD", shortName(fn), "free", "writer buffers are recycled only when the cache is enabled (!disableCache)", P.pos(instrPos(s.Call)), flagGuard(fn, s.Call, "disableCache", false), "")
		}
		if field == "" {
			r.add("FREE-THEN-FORGET", shortName(fn), "free", "the freed value comes from a receiver field", P.pos(instrPos(s.Call)), false, "freed value is not a load of a receiver field: "+fmt.Sprint(rootsOf(s.Call.Common().Args[0])))
			continue
		}
		leak, exit := exitsWithout(s.Call, func(in ssa.Instruction) bool {
			st, ok := in.(*ssa.Store)
			return ok && recvFieldOf(fn, st.Addr) == field && !viewOfField(fn, st.Val, field, 0)
		})
		detail := ""
		if leak {
			detail = "a path reaches " + P.pos(instrPos(exit)) + " with field " + field + " still referring to recycled memory"
		}
		r.add("FREE-THEN-FORGET", shortName(fn), "free", "field "+field+" is overwritten on every path after the Free", P.pos(instrPos(s.Call)), !leak, detail)
	}
	ownerFlagRule(P, r, "OWNER-GUARD")
	// ---- parking in the reader requires ownership ----
	for _, fn := range P.reachable([]*ssa.Function{P.Method(relBufiox, "DefaultReader", "Next"), P.Method(relBufiox, "DefaultReader", "Release")}, inBufiox) {
		if len(fn.Params) == 0 || !typeIsPtrTo(fn.Params[0].Type(), "DefaultReader") {
			continue
		}
		for _, st := range storesTo(fn, "pendingBuf") {
			if ap := builtinCall(st.Val, "append"); ap != nil {
				r.add("OWNER-GUARD", shortName(fn), "park", "only pool-owned buffers are parked for recycling (!bufReadOnly)", P.pos(instrPos(st)), flagGuard(fn, st, "bufReadOnly", false), "")
			}
		}
		// NO-WRITE-CALLER: copies whose destination is the current buffer itself
		for _, c := range callsIn(fn) {
			cp, ok := c.(*ssa.Call)
			if !ok || builtinCall(cp, "copy") == nil {
				continue
			}
			dst := cp.Common().Args[0]
			rooted := false
			for _, rt := range rootsOf(dst) {
				if rt.Kind == "cell" && strings.HasSuffix(rt.Name, ".buf") {
					rooted = true
				}
			}
			if rooted {
				r.add("NO-WRITE-CALLER", shortName(fn), "copy", "the reader writes into its buffer only when it owns it (!bufReadOnly)", P.pos(instrPos(cp)), flagGuard(fn, cp, "bufReadOnly", false), "")
			}
		}
		// ... and the same moved by hand: a store into an element of the current buffer
		for _, b := range fn.Blocks {
			for _, in := range b.Instrs {
				st, ok := in.(*ssa.Store)
				if !ok {
					continue
				}
				ia, ok := st.Addr.(*ssa.IndexAddr)
				if !ok || !isByteSlice(ia.X.Type()) {
					continue
				}
				rooted := false
				for _, rt := range rootsOf(ia.X) {
					if rt.Kind == "cell" && strings.HasSuffix(rt.Name, ".buf") {
						rooted = true
					}
				}
				if rooted {
					r.add("NO-WRITE-CALLER", shortName(fn), "copy", "the reader writes into its buffer only when it owns it (!bufReadOnly)", P.pos(instrPos(st)), flagGuard(fn, st, "bufReadOnly", false), "")
				}
			}
		}
	}
	// caller slice ⇒ bufReadOnly (constructor pairing) and reset call sites
	resetFn := P.Method(relBufiox, "DefaultReader", "reset")
	if resetFn == nil {
		// no reset routine: the constructors fill the fields themselves
		n := 0
		for _, fn := range pkgFuncs(P, relBufiox) {
			for _, b := range fn.Blocks {
				for _, in := range b.Instrs {
					st, ok := in.(*ssa.Store)
					if !ok {
						continue
					}
					fad, ok := st.Addr.(*ssa.FieldAddr)
					if !ok || canonFieldName(fad.X.Type(), fad.Field) != "buf" || !strings.HasSuffix(deref(fad.X.Type()).String(), "DefaultReader") {
						continue
					}
					fromParam := false
					for _, rt := range rootsOf(st.Val) {
						if rt.Kind == "param" {
							fromParam = true
						}
					}
					if !fromParam {
						continue
					}
					n++
					// the ownership flag of the same object is set in the same block
					okFlag := false
					for _, in2 := range b.Instrs {
						s2, ok := in2.(*ssa.Store)
						if !ok {
							continue
						}
						f2, ok := s2.Addr.(*ssa.FieldAddr)
						if !ok || !sameObjAddr(f2.X, fad.X) || canonFieldName(f2.X.Type(), f2.Field) != "bufReadOnly" {
							continue
						}
						if set, isC := flagConst(s2.Val); isC && set {
							okFlag = true
						}
					}
					r.add("OWNER-GUARD", shortName(fn), "store", "a caller-provided slice becomes the buffer only together with bufReadOnly = true", P.pos(instrPos(st)), okFlag, "")
					// ... and such a reader is fed by the inert source only
					inert := false
					for _, b3 := range fn.Blocks {
						for _, in3 := range b3.Instrs {
							s3, ok := in3.(*ssa.Store)
							if !ok {
								continue
							}
							f3, ok := s3.Addr.(*ssa.FieldAddr)
							if !ok || !sameObjAddr(f3.X, fad.X) || canonFieldName(f3.X.Type(), f3.Field) != "rd" {
								continue
							}
							if mi, isMI := s3.Val.(*ssa.MakeInterface); isMI && P.helperTypeOf(relBufiox, "BytesReader", "fakedIOReader") != "" && strings.HasSuffix(mi.X.Type().String(), "."+P.helperTypeOf(relBufiox, "BytesReader", "fakedIOReader")) {
								inert = true
							}
						}
					}
					r.add("OWNER-GUARD", shortName(fn), "call", "a reader over a caller's buffer is fed by the inert source only", P.pos(instrPos(st)), inert, "")
				}
			}
		}
		r.require("bufiox: a place where a caller's slice becomes the reader's buffer (reset, or a constructor)", n > 0)
	}
	if fn := resetFn; fn != nil {
		n := 0
		for _, b := range fn.Blocks {
			for _, in := range b.Instrs {
				al, ok := in.(*ssa.Alloc)
				if !ok || !strings.HasSuffix(deref(al.Type()).String(), "DefaultReader") {
					continue
				}
				var bufParam, ro bool
				for _, ref := range *al.Referrers() {
					fa, ok := ref.(*ssa.FieldAddr)
					if !ok {
						continue
					}
					name := canonFieldName(fa.X.Type(), fa.Field)
					for _, r2 := range *fa.Referrers() {
						st, ok := r2.(*ssa.Store)
						if !ok {
							continue
						}
						if name == "buf" {
							for _, rt := range rootsOf(st.Val) {
								if rt.Kind == "param" {
									bufParam = true
								}
							}
						}
						if name == "bufReadOnly" {
							if set, ok := flagConst(st.Val); ok && set {
								ro = true
							}
						}
					}
				}
				if bufParam {
					n++
					r.add("OWNER-GUARD", shortName(fn), "store", "a caller-provided slice becomes the buffer only together with bufReadOnly = true", P.pos(instrPos(al)), ro, "")
				}
			}
		}
		// direct field stores of a parameter-rooted buffer
		for _, st := range storesTo(fn, "buf") {
			for _, rt := range rootsOf(st.Val) {
				if rt.Kind == "param" {
					n++
					ok := false
					for _, s2 := range storesTo(fn, "bufReadOnly") {
						if s2.Block() != st.Block() {
							continue
						}
						if set, isC := flagConst(s2.Val); isC && set {
							ok = true
						}
						// the flag handed in by the caller: every call that passes a buffer passes a constant "set"
						if par, isPar := s2.Val.(*ssa.Parameter); isPar {
							idx := -1
							for i, fp := range fn.Params {
								if fp == par {
									idx = i
								}
							}
							all, any := true, false
							for caller := range P.AllFuncs {
								if !inRepo(caller) || caller.Blocks == nil || caller.Synthetic != "" {
									continue // (wrappers of promoted methods just pass their own parameters on)
								}
								for _, c := range callsIn(caller) {
									if c.Common().StaticCallee() != fn || idx < 0 || idx >= len(c.Common().Args) {
										continue
									}
									bufNil := false
									for i, fp := range fn.Params {
										if isByteSlice(fp.Type()) && i < len(c.Common().Args) && isNilConst(c.Common().Args[i]) {
											bufNil = true
										}
									}
									if bufNil {
										continue
									}
									any = true
									if set, isC := flagConst(c.Common().Args[idx]); !isC || !set {
										all = false
									}
								}
							}
							if all && any {
								ok = true
							}
						}
					}
					r.add("OWNER-GUARD", shortName(fn), "store", "a caller-provided slice becomes the buffer only together with bufReadOnly = true", P.pos(instrPos(st)), ok, "")
				}
			}
		}
		if n == 0 {
			r.fatal("DefaultReader.reset: no store of a caller-provided buffer found (vacuity guard)")
		}
	}
	ctorOwnerRule(P, r, "OWNER-GUARD")
	// regions handed out by Malloc stay the memory that is flushed: a buffer that is outgrown is parked, not
	// copied, and Flush stitches the parked buffers back at their own offsets (the C05 rules, re-run here)
	{
		tmp := newResult(r.Prop)
		checkC05(P, tmp, tier)
		r.Fatal = append(r.Fatal, tmp.Fatal...)
		n := 0
		for _, o := range tmp.Obls {
			// ... and once flushed, the writer forgets the buffer: what the bytes-backed sink handed to the caller is the
			// caller's from then on (ONCE: buf = pendingBuf = nil after a successful flush; PUBLISH)
			forget := (strings.HasSuffix(o.Rule, "/ONCE") && strings.HasPrefix(o.Construct, "return")) || strings.HasSuffix(o.Rule, "/PUBLISH")
			if strings.HasSuffix(o.Rule, "/GROW") || strings.HasSuffix(o.Rule, "/STITCH") || forget {
				o.Rule = r.Prop + "/REGIONS"
				r.Obls = append(r.Obls, o)
				r.Funcs[o.Func] = true
				n++
			}
		}
		if n < 3 {
			r.fatal("expected the parking and stitching obligations of the writer, found %d", n)
		}
	}
	if fn := P.Method(relBufiox, P.helperTypeOf(relBufiox, "BytesReader", "fakedIOReader"), "Read"); r.require("bufiox: Read of the inert source embedded in BytesReader", fn != nil) {
		effs := globalEffects.of(fn)
		r.add("NO-WRITE-CALLER", shortName(fn), "effects", "the source of a bytes-backed reader writes nothing", P.pos(fn.Pos()), len(effs) == 0, fmt.Sprint(len(effs), " effects"))
	}
	if fn := P.Method(relBufiox, "DefaultWriter", "WriteBinary"); fn != nil {
		bad := ""
		for _, e := range globalEffects.of(fn) {
			if strings.HasPrefix(e.Key, "P:"+fn.Params[1].Name()) {
				bad = "write through the payload parameter at " + P.pos(instrPos(e.In))
			}
		}
		if valueRetained(fn.Params[1], 0) {
			bad = "the payload slice is retained"
		}
		r.add("NO-WRITE-CALLER", shortName(fn), "effects", "the payload is only read (copy source), neither written nor retained", P.pos(fn.Pos()), bad == "", bad)
	}
	r.assume("mcache.Free ignores buffers whose capacity is not a power of two and recycles the others (dependency behaviour); third-party bufiox implementations are out of scope")
}

// ownerGuardRules: only memory the instance obtained from the shared pool may
// be handed (back) to it — frees and parking are guarded by the ownership flags.
func ownerGuardRules(P *Program, r *Result, rule string) {
	inBufiox := func(f *ssa.Function) bool { return fnPkgPath(f) != modPath+"/"+relBufiox }
	// memory handed back to the shared pool is forgotten by the instance (otherwise two instances share it)
	for _, s := range allFreeSites(P) {
		fn := s.Fn
		field, _ := freedField(fn, s.Call.Common().Args[0])
		if field == "" {
			r.add(rule, shortName(fn), "free", "the freed value comes from a receiver field", P.pos(instrPos(s.Call)), false, "freed value is not a load of a receiver field")
			continue
		}
		leak, exit := exitsWithout(s.Call, func(in ssa.Instruction) bool {
			st, ok := in.(*ssa.Store)
			return ok && recvFieldOf(fn, st.Addr) == field && !viewOfField(fn, st.Val, field, 0)
		})
		detail := ""
		if leak {
			detail = "a path reaches " + P.pos(instrPos(exit)) + " with field " + field + " still referring to memory that went back to the shared pool"
		}
		r.add(rule, shortName(fn), "forget", "field "+field+" no longer refers to the buffer once it is back in the shared pool", P.pos(instrPos(s.Call)), !leak, detail)
	}
	ownerFlagRule(P, r, rule)
	if rule != "OWNER-GUARD" {
		ctorOwnerRule(P, r, rule)
	}
	for _, s := range allFreeSites(P) {
		fn := s.Fn
		field, _ := freedField(fn, s.Call.Common().Args[0])
		if len(fn.Params) == 0 {
			continue
		}
		if typeIsPtrTo(fn.Params[0].Type(), "DefaultReader") && field == "buf" {
			r.add(rule, shortName(fn), "free", "freeing the reader's buffer requires !bufReadOnly", P.pos(instrPos(s.Call)), flagGuard(fn, s.Call, "bufReadOnly", false), "")
		}
		if typeIsPtrTo(fn.Params[0].Type(), "DefaultWriter") {
			r.add(rule, shortName(fn), "free", "writer buffers are recycled only when the cache is enabled (!disableCache)", P.pos(instrPos(s.Call)), flagGuard(fn, s.Call, "disableCache", false), "")
		}
	}
	for _, fn := range P.reachable([]*ssa.Function{P.Method(relBufiox, "DefaultReader", "Next"), P.Method(relBufiox, "DefaultReader", "Release")}, inBufiox) {
		if len(fn.Params) == 0 || !typeIsPtrTo(fn.Params[0].Type(), "DefaultReader") {
			continue
		}
		for _, st := range storesTo(fn, "pendingBuf") {
			if ap := builtinCall(st.Val, "append"); ap != nil {
				r.add(rule, shortName(fn), "park", "only pool-owned buffers are parked for recycling (!bufReadOnly)", P.pos(instrPos(st)), flagGuard(fn, st, "bufReadOnly", false), "")
			}
		}
	}
}

func init() { register("C09", "other", checkC09) }

// ownerFlagRule: the reader's ownership flag may only be cleared for a buffer the reader has just allocated itself.
// ctorOwnerRule: whoever installs a caller's buffer marks the instance as not owning it
// (inert source for readers, cache disabled — as a constant — for writers).
func ctorOwnerRule(P *Program, r *Result, rule string) {
	for _, typ := range []string{"DefaultReader", "DefaultWriter"} {
		reset := P.Method(relBufiox, typ, "reset")
		if reset == nil {
			continue
		}
		for fn := range P.AllFuncs {
			if !inRepo(fn) || fn.Blocks == nil || fn.Synthetic != "" {
				continue
			}
			for _, c := range callsIn(fn) {
				if c.Common().StaticCallee() != reset {
					continue
				}
				args := c.Common().Args
				// the buffer this call installs, as the caller passes it (a plain argument, or a field of an options
				// struct built for the call)
				noBuffer := len(args) > 2 && isNilConst(args[2])
				for _, v := range fieldInits(reset, "buf", 0) {
					if bv, zero, ok := valueAtCall(reset, args, v); ok && (zero || isNilConst(bv)) {
						noBuffer = true
					}
				}
				if noBuffer {
					continue
				}
				cc := c.(*ssa.Call)
				if typ == "DefaultReader" {
					// the source must be the inert fake reader
					ok := false
					if mi, isMI := args[1].(*ssa.MakeInterface); isMI && P.helperTypeOf(relBufiox, "BytesReader", "fakedIOReader") != "" && strings.HasSuffix(mi.X.Type().String(), "."+P.helperTypeOf(relBufiox, "BytesReader", "fakedIOReader")) {
						ok = true
					}
					r.add(rule, shortName(fn), "call", "a reader over a caller's buffer is fed by the inert source only", P.pos(instrPos(cc)), ok, "")
				} else {
					// the value reset stores into the ownership flag, as seen from this call
					okFlag, detail := false, "the ownership flag is not set to a constant by this call"
					for _, v := range fieldInits(reset, "disableCache", 0) {
						var fv ssa.Value = v
						if cv, zero, ok := valueAtCall(reset, args, v); ok {
							fv = cv
							if zero {
								fv = nil
							}
						}
						if set, isC := flagConst(fv); fv != nil && isC && set {
							okFlag, detail = true, ""
						} else {
							okFlag = false
							detail = "the flag is computed (" + fmt.Sprint(v) + "): a caller's buffer of capacity 0, or any buffer the sink hands to the caller, would be recycled"
							break
						}
					}
					r.add(rule, shortName(fn), "call", "a writer over a caller's buffer has the cache disabled", P.pos(instrPos(cc)), okFlag, detail)
				}
			}
		}
	}
}

func ownerFlagRule(P *Program, r *Result, rule string) {
	inBufiox := func(f *ssa.Function) bool { return fnPkgPath(f) != modPath+"/"+relBufiox }
	A := newAnalysis(P)
	for _, fn := range P.reachable([]*ssa.Function{P.Method(relBufiox, "DefaultReader", "Next"), P.Method(relBufiox, "DefaultReader", "Release")}, inBufiox) {
		if len(fn.Params) == 0 || !typeIsPtrTo(fn.Params[0].Type(), "DefaultReader") {
			continue
		}
		// the ownership flag may only be cleared for a buffer this reader has just allocated itself
		for _, st := range storesTo(fn, "bufReadOnly") {
			if set, isC := flagConst(st.Val); !isC || set {
				continue
			}
			fa := A.fa(fn)
			ver := fa.mem.versionAt(st, "P:"+fn.Params[0].Name()+".buf")
			ok, detail := false, "the buffer in place when the flag is cleared is not known to be one this reader allocated"
			if ver != nil && ver.Kind == mStore {
				if fresh, why := onlyFresh(rootsOf(ver.Val)); fresh {
					ok, detail = true, ""
				} else {
					detail = "the buffer stored before clearing the flag comes from " + why
				}
			} else if ver != nil && ver.Kind == mPhi {
				detail = "on some path the buffer was not replaced before the ownership flag is cleared (a caller-owned buffer would later be recycled or overwritten)"
			}
			r.add(rule, shortName(fn), "flag", "bufReadOnly is cleared only right after the buffer was replaced by a pool allocation of this reader", P.pos(instrPos(st)), ok, detail)
		}
	}
}

// viewOfField reports whether v is (a sub-slice of) the current value of the
// receiver field: storing it back does not forget the memory the field held.
func viewOfField(fn *ssa.Function, v ssa.Value, field string, depth int) bool {
	if depth > 8 {
		return false
	}
	switch x := v.(type) {
	case *ssa.Slice:
		return viewOfField(fn, x.X, field, depth+1)
	case *ssa.ChangeType:
		return viewOfField(fn, x.X, field, depth+1)
	case *ssa.Phi:
		for _, e := range x.Edges {
			if e != v && viewOfField(fn, e, field, depth+1) {
				return true
			}
		}
	case *ssa.UnOp:
		if x.Op == token.MUL {
			return recvFieldOf(fn, x.X) == field
		}
	}
	return false
}

// valueAtCall: what v — a parameter of callee, or a field of a struct parameter of callee — is at a call with args.
// A field of an options struct the caller built in place resolves to the value stored into that field (zero=true when
// the literal leaves it out). ok=false when v is something else (a constant, a computed value): the caller keeps v.
func valueAtCall(callee *ssa.Function, args []ssa.Value, v ssa.Value) (val ssa.Value, zero bool, ok bool) {
	paramIdx := func(x ssa.Value) int {
		if al, isAl := x.(*ssa.Alloc); isAl {
			if p := spilledParam(al); p != nil {
				x = p
			}
		}
		for i, rp := range callee.Params {
			if ssa.Value(rp) == x {
				return i
			}
		}
		return -1
	}
	if i := paramIdx(v); i >= 0 && i < len(args) {
		return args[i], false, true
	}
	var base ssa.Value
	field := -1
	switch x := v.(type) {
	case *ssa.Field:
		base, field = x.X, x.Field
	case *ssa.UnOp:
		if fa, isFA := x.X.(*ssa.FieldAddr); isFA && x.Op == token.MUL {
			base, field = fa.X, fa.Field
		}
	}
	if field < 0 {
		return nil, false, false
	}
	i := paramIdx(base)
	if i < 0 || i >= len(args) {
		return nil, false, false
	}
	// the argument: a struct value loaded from a local the caller filled field by field
	ld, isLd := args[i].(*ssa.UnOp)
	if !isLd || ld.Op != token.MUL {
		return nil, false, false
	}
	al, isAl := ld.X.(*ssa.Alloc)
	if !isAl || al.Referrers() == nil {
		return nil, false, false
	}
	var stored ssa.Value
	n := 0
	for _, ref := range *al.Referrers() {
		fa, isFA := ref.(*ssa.FieldAddr)
		if !isFA {
			if ref != ssa.Instruction(ld) {
				if _, isDbg := ref.(*ssa.DebugRef); !isDbg {
					return nil, false, false // the local is used in some other way
				}
			}
			continue
		}
		if fa.Field != field || fa.Referrers() == nil {
			continue
		}
		for _, r2 := range *fa.Referrers() {
			if st, isSt := r2.(*ssa.Store); isSt && st.Addr == ssa.Value(fa) {
				stored = st.Val
				n++
			}
		}
	}
	switch n {
	case 0:
		return nil, true, true
	case 1:
		return stored, false, true
	}
	return nil, false, false
}

// sameObjAddr: two address values denote the same object: the same value, or the same field path from the same value
// (go/ssa emits a new &x.f for every use).
func sameObjAddr(a, b ssa.Value) bool {
	if a == b {
		return true
	}
	fa, ok1 := a.(*ssa.FieldAddr)
	fb, ok2 := b.(*ssa.FieldAddr)
	return ok1 && ok2 && fa.Field == fb.Field && sameObjAddr(fa.X, fb.X)
}
