package main

// E1: facts from dominating branch edges, invariants at phi blocks inferred by
// candidate generation + elimination (Houdini), triggers activated by
// entailment, Fourier–Motzkin entailment.

import (
	"fmt"
	"go/token"
	"go/types"
	"math/big"
	"os"
	"sort"
	"strings"

	"golang.org/x/tools/go/ssa"
)

type edgeFacts struct {
	ineq []*Lin // each ≤ 0
	neq  []*Lin // each ≠ 0
}

// pctx carries extra assumptions of one query.
type pctx struct {
	assume []*Lin
	neq    []*Lin
}

func (c *pctx) with(extra []*Lin, neq []*Lin) *pctx {
	n := &pctx{}
	n.assume = append(append([]*Lin{}, c.assume...), extra...)
	n.neq = append(append([]*Lin{}, c.neq...), neq...)
	return n
}

var rootCtx = &pctx{}

var traceFn = os.Getenv("E1_TRACE")

// Inv is a (possibly guarded) invariant attached to a phi block: it holds in
// every block the phi block dominates.
type Inv struct {
	Guard []*Lin
	Fact  *Lin
	Src   string
	dead  bool
	key   string
}

// condFacts translates a boolean SSA value, assumed to have the given truth
// value, into inequalities and disequalities.
func (fa *FA) condFacts(cond ssa.Value, truth bool, out *edgeFacts) {
	switch c := cond.(type) {
	case *ssa.Phi:
		// the value go/ssa builds for "a && b" / "a || b" outside an if condition (a switch case, an
		// assignment): with the given truth value all but one incoming constant are excluded, and the
		// tests on the way to the remaining edge held
		for _, dc := range condImplies(c, truth, 0) {
			if dc.Cond == ssa.Value(c) {
				continue
			}
			if _, again := dc.Cond.(*ssa.Phi); again {
				continue
			}
			fa.condFacts(dc.Cond, dc.Truth, out)
		}
	case *ssa.UnOp:
		if c.Op == token.NOT {
			fa.condFacts(c.X, !truth, out)
		}
	case *ssa.BinOp:
		op := c.Op
		if !truth {
			switch op {
			case token.EQL:
				op = token.NEQ
			case token.NEQ:
				op = token.EQL
			case token.LSS:
				op = token.GEQ
			case token.LEQ:
				op = token.GTR
			case token.GTR:
				op = token.LEQ
			case token.GEQ:
				op = token.LSS
			default:
				return
			}
		}
		var x, y *Lin
		switch {
		case isInteger(c.X.Type()) && isInteger(c.Y.Type()):
			x, y = fa.expand(c.X), fa.expand(c.Y)
		case isNilConst(c.X) || isNilConst(c.Y):
			if op != token.EQL && op != token.NEQ {
				return
			}
			x, y = fa.nilExpand(c.X), fa.nilExpand(c.Y)
		default:
			return
		}
		// the single-compare range check uint(a) < uint(b) with b ≥ 0: a negative a wraps above every such b,
		// so on this side 0 ≤ a < b holds for the signed operands themselves
		if op == token.LSS || op == token.GTR || op == token.LEQ || op == token.GEQ {
			lo, hi := c.X, c.Y // lo (<|≤) hi
			if op == token.GTR || op == token.GEQ {
				lo, hi = c.Y, c.X
			}
			if a, b, ok := unsignedRangeIdiom(lo, hi); ok {
				la, lb := fa.expand(a), fa.expand(b)
				out.ineq = append(out.ineq, ineqGE(la, linConst(0)))
				if op == token.LSS || op == token.GTR {
					out.ineq = append(out.ineq, ineqLT(la, lb))
				} else {
					out.ineq = append(out.ineq, ineqLE(la, lb))
				}
			}
		}
		switch op {
		case token.EQL:
			out.ineq = append(out.ineq, ineqLE(x, y), ineqLE(y, x))
		case token.NEQ:
			out.neq = append(out.neq, x.sub(y))
		case token.LSS:
			out.ineq = append(out.ineq, ineqLT(x, y))
		case token.LEQ:
			out.ineq = append(out.ineq, ineqLE(x, y))
		case token.GTR:
			out.ineq = append(out.ineq, ineqGT(x, y))
		case token.GEQ:
			out.ineq = append(out.ineq, ineqGE(x, y))
		}
	}
}

// edgeOf returns the facts established on the unique edge into b.
func (fa *FA) edgeOf(b *ssa.BasicBlock) *edgeFacts {
	if e, ok := fa.edge[b]; ok {
		return e
	}
	e := &edgeFacts{}
	fa.edge[b] = e
	if len(b.Preds) != 1 {
		return e
	}
	fa.edgeCond(b.Preds[0], b, e)
	return e
}

// edgeCond adds the condition under which control goes from p to s.
func (fa *FA) edgeCond(p, s *ssa.BasicBlock, e *edgeFacts) {
	iff, ok := p.Instrs[len(p.Instrs)-1].(*ssa.If)
	if !ok || p.Succs[0] == p.Succs[1] {
		return
	}
	fa.condFacts(iff.Cond, p.Succs[0] == s, e)
}

// gamma returns all edge facts on the dominator chain of b plus the entry facts.
func (fa *FA) gamma(b *ssa.BasicBlock) *edgeFacts {
	if g, ok := fa.gam[b]; ok {
		return g
	}
	g := &edgeFacts{}
	for x := b; x != nil; x = x.Idom() {
		e := fa.edgeOf(x)
		g.ineq = append(g.ineq, e.ineq...)
		g.neq = append(g.neq, e.neq...)
	}
	g.ineq = append(g.ineq, fa.pre...)
	fa.gam[b] = g
	return g
}

// factsBetween returns the edge facts on the dominator chain from b up to, but
// excluding, m (m dominates b).
func (fa *FA) factsBetween(b, m *ssa.BasicBlock) *edgeFacts {
	g := &edgeFacts{}
	for x := b; x != nil && x != m; x = x.Idom() {
		e := fa.edgeOf(x)
		g.ineq = append(g.ineq, e.ineq...)
		g.neq = append(g.neq, e.neq...)
	}
	return g
}

// invsAt returns the live invariants of all phi blocks dominating b.
func (fa *FA) invsAt(b *ssa.BasicBlock) []*Inv {
	var out []*Inv
	for x := b; x != nil; x = x.Idom() {
		for _, iv := range fa.inv[x] {
			if !iv.dead {
				out = append(out, iv)
			}
		}
	}
	return out
}

// closeFacts computes the facts relevant for goal: the given ones, intrinsic
// bounds and attached facts of the atoms connected with the goal, guarded
// invariants and triggers whose conditions are entailed.
func (fa *FA) closeFacts(facts []*Lin, neq []*Lin, invs []*Inv, goal *Lin) []*Lin {
	A := fa.A
	seen := map[AtomID]bool{}
	var order []AtomID
	out := append([]*Lin{}, facts...)
	var add func(id AtomID)
	add = func(id AtomID) {
		if seen[id] {
			return
		}
		seen[id] = true
		order = append(order, id)
		at := A.at(id)
		if at.Lo != nil {
			out = append(out, ineqGE(linAtom(id), linBig(at.Lo)))
		}
		if at.Hi != nil {
			out = append(out, ineqLE(linAtom(id), linBig(at.Hi)))
		}
		if at.Kind == aMul {
			add(at.MulA)
			add(at.MulB)
		}
		out = append(out, at.Facts...)
	}
	for _, id := range goal.atoms() {
		add(id)
	}
	triedT := map[int]bool{}
	triedI := map[*Inv]bool{}
	doneNeq := map[int]bool{}
	// quick entailment: the condition itself (or a tighter single-atom bound) is among the facts
	nKnown := 0
	known := map[string]bool{}
	type bd struct{ lo, hi *big.Int }
	bds := map[AtomID]*bd{}
	holds := func(cond *Lin) bool {
		for ; nKnown < len(out); nKnown++ {
			f := normIneq(out[nKnown])
			known[f.key()] = true
			if a, up, v, ok := bound1(f); ok {
				b := bds[a]
				if b == nil {
					b = &bd{}
					bds[a] = b
				}
				if up && (b.hi == nil || v.Cmp(b.hi) < 0) {
					b.hi = v
				}
				if !up && (b.lo == nil || v.Cmp(b.lo) > 0) {
					b.lo = v
				}
			}
		}
		c := normIneq(cond)
		if c.isConst() {
			return c.C.Sign() <= 0
		}
		if known[c.key()] {
			return true
		}
		if a, up, v, ok := bound1(c); ok {
			if b := bds[a]; b != nil {
				if up && b.hi != nil && b.hi.Cmp(v) <= 0 {
					return true
				}
				if !up && b.lo != nil && b.lo.Cmp(v) >= 0 {
					return true
				}
			}
		}
		return entails(out, cond)
	}
	for round := 0; round < 8; round++ {
		// connect: atoms of facts that touch the component
		for changed := true; changed; {
			changed = false
			for _, f := range out {
				hit := false
				for a := range f.T {
					if seen[a] {
						hit = true
						break
					}
				}
				if hit {
					for _, a := range f.atoms() {
						if !seen[a] {
							add(a)
							changed = true
						}
					}
				}
			}
		}
		progress := false
		// invariants touching the component; guarded ones when their guard is entailed
		for _, iv := range invs {
			if triedI[iv] {
				continue
			}
			touch := false
			for a := range iv.Fact.T {
				if seen[a] {
					touch = true
				}
			}
			for _, g := range iv.Guard {
				for a := range g.T {
					if seen[a] {
						touch = true
					}
				}
			}
			if !touch {
				continue
			}
			ok := true
			for _, g := range iv.Guard {
				if !holds(g) {
					ok = false
					break
				}
			}
			if ok {
				triedI[iv] = true
				out = append(out, iv.Fact)
				progress = true
			}
		}
		// disequalities at a boundary
		for i, d := range neq {
			if doneNeq[i] {
				continue
			}
			rel := false
			for a := range d.T {
				if seen[a] {
					rel = true
				}
			}
			if !rel {
				continue
			}
			if entails(out, ineqGE(d, linConst(0))) {
				out = append(out, ineqGE(d, linConst(1)))
				doneNeq[i] = true
				progress = true
			} else if entails(out, ineqLE(d, linConst(0))) {
				out = append(out, ineqLE(d, linConst(-1)))
				doneNeq[i] = true
				progress = true
			}
		}
		// triggers
		nAtoms := len(order)
		ids := append([]AtomID{}, order...)
		for _, id := range ids {
			for _, t := range A.trigByAtom[id] {
				if triedT[t.ID] {
					continue
				}
				if t.Dyn != nil {
					triedT[t.ID] = true
					fs := t.Dyn(fa, out)
					if len(fs) > 0 {
						out = append(out, fs...)
						progress = true
					}
					continue
				}
				// the atoms of the conditions bring their own bounds and facts
				for _, cond := range t.Conds {
					for _, a := range cond.atoms() {
						add(a)
					}
				}
				ok := true
				for _, cond := range t.Conds {
					if !holds(cond) {
						ok = false
						break
					}
				}
				if ok {
					triedT[t.ID] = true
					out = append(out, t.Facts...)
					progress = true
				}
			}
		}
		if len(order) > nAtoms {
			progress = true // new atoms may be covered by invariants or facts
		}
		if !progress {
			break
		}
	}
	return out
}

// entailsAt reports whether goal (≤ 0) holds whenever control is in block b,
// under the extra assumptions of c.
func (fa *FA) entailsAt(goal *Lin, b *ssa.BasicBlock, c *pctx) bool {
	goal = normIneq(goal)
	// an assumption that is a false constant makes the query vacuous (e.g. "err == nil" at a return
	// of a value known to be non-nil)
	for _, a := range c.assume {
		if na := normIneq(a); na.isConst() && na.C.Sign() > 0 {
			return true
		}
	}
	if goal.isConst() {
		return goal.C.Sign() <= 0
	}
	fa.A.stats.proves++
	g := fa.gamma(b)
	facts := append(append([]*Lin{}, g.ineq...), c.assume...)
	neq := append(append([]*Lin{}, g.neq...), c.neq...)
	cl := fa.closeFacts(facts, neq, fa.invsAt(b), goal)
	r := entails(cl, goal)
	if traceFn != "" && strings.Contains(fa.fn.String(), traceFn) {
		fmt.Printf("QUERY %s @b%d assume=%d facts=%d => %v\n", fa.A.ineqString(goal), b.Index, len(c.assume), len(cl), r)
		if (!r && os.Getenv("E1_TRACE_FACTS") != "") || (os.Getenv("E1_TRACE_GOAL") != "" && strings.Contains(fa.A.ineqString(goal), os.Getenv("E1_TRACE_GOAL"))) {
			for _, f := range relevant(cl, goal) {
				fmt.Printf("     . %s\n", fa.A.ineqString(f))
			}
		}
	}
	return r
}

// prove is entailsAt plus goal generalisation: when the goal fails and
// mentions phi atoms, it is offered as an invariant candidate of their block.
func (fa *FA) prove(goal *Lin, b *ssa.BasicBlock, c *pctx) bool {
	fa.ensureInvariants()
	if fa.entailsAt(goal, b, c) {
		return true
	}
	if fa.noGeneralize {
		return false
	}
	if fa.generalize(goal, b, c) {
		return fa.entailsAt(goal, b, c)
	}
	return false
}

// stable reports whether atom a keeps its value across the incoming edges of m.
func (fa *FA) stable(a *Atom, m *ssa.BasicBlock) bool {
	if a.Kind == aMul {
		return fa.stable(fa.A.at(a.MulA), m) && fa.stable(fa.A.at(a.MulB), m)
	}
	if a.Kind == aFresh {
		return false
	}
	if a.Block == nil {
		return true
	}
	return a.Block != m && a.Block.Dominates(m)
}

// ---- invariant inference ----

// preExpand creates the atoms (and attaches the callee facts) of every value
// of the function, so that the set of phi atoms is complete.
func (fa *FA) preExpand() {
	for _, b := range fa.fn.Blocks {
		for _, in := range b.Instrs {
			if c, ok := in.(*ssa.Call); ok {
				fa.attachCallFacts(c)
			}
			v, ok := in.(ssa.Value)
			if !ok {
				continue
			}
			t := v.Type()
			switch {
			case isInteger(t):
				fa.expand(v)
			case isSliceOrString(t):
				fa.sliceDesc(v)
			case isUnsafePointer(t):
				fa.ptrExpand(v)
			default:
				switch t.Underlying().(type) {
				case *types.Interface, *types.Pointer, *types.Map:
					if _, isPhi := v.(*ssa.Phi); isPhi {
						fa.nilExpand(v)
					}
					if _, isEx := v.(*ssa.Extract); isEx && isErrorType(t) {
						fa.nilExpand(v)
					}
				}
			}
		}
		fa.edgeOf(b)
	}
	// memory phis
	for _, ph := range fa.mem.phis {
		t := fa.mem.keyType[ph.Key]
		if t == nil {
			continue
		}
		switch {
		case isInteger(t):
			fa.cellValue(ph, t)
		case isSliceOrString(t):
			// described on demand
		default:
			switch t.Underlying().(type) {
			case *types.Interface, *types.Pointer, *types.Map:
				fa.cellNil(ph)
			}
		}
	}
}

// phiAtomsOf lists the phi-like atoms of block m (index built after preExpand).
func (fa *FA) phiAtomsOf(m *ssa.BasicBlock) []*Atom {
	if fa.phiAtoms == nil {
		fa.phiAtoms = map[*ssa.BasicBlock][]*Atom{}
		for _, a := range fa.A.atoms[fa.atomStart:] {
			if a.Fn == fa.fn && a.Phi != nil && a.owner == fa {
				fa.phiAtoms[a.Phi.Block] = append(fa.phiAtoms[a.Phi.Block], a)
			}
		}
	}
	return fa.phiAtoms[m]
}

func (fa *FA) addCand(m *ssa.BasicBlock, guard []*Lin, fact *Lin, src string) bool {
	fact = normIneq(fact)
	if fact.isConst() {
		return false
	}
	ks := []string{}
	for _, g := range guard {
		ks = append(ks, normIneq(g).key())
	}
	sort.Strings(ks)
	key := strings.Join(ks, "&") + "=>" + fact.key()
	if fa.invKeys[m] == nil {
		fa.invKeys[m] = map[string]bool{}
	}
	if fa.invKeys[m][key] {
		return false
	}
	fa.invKeys[m][key] = true
	fa.inv[m] = append(fa.inv[m], &Inv{Guard: guard, Fact: fact, Src: src, key: key})
	return true
}

// okForInv: every atom is a phi atom of m or stable across m's incoming edges.
func (fa *FA) okForInv(m *ssa.BasicBlock, ls ...*Lin) bool {
	A := fa.A
	for _, l := range ls {
		for id := range l.T {
			a := A.at(id)
			if a.Phi != nil && a.Phi.Block == m {
				continue
			}
			if a.Kind == aMul {
				x, y := A.at(a.MulA), A.at(a.MulB)
				okx := (x.Phi != nil && x.Phi.Block == m) || fa.stable(x, m)
				oky := (y.Phi != nil && y.Phi.Block == m) || fa.stable(y, m)
				if okx && oky {
					continue
				}
				return false
			}
			if !fa.stable(a, m) {
				return false
			}
		}
	}
	return true
}

func singleAtom(l *Lin) (AtomID, bool) {
	if len(l.T) != 1 || l.C.Sign() != 0 {
		return 0, false
	}
	for id, c := range l.T {
		if c.Cmp(bi(1)) == 0 {
			return id, true
		}
	}
	return 0, false
}

func (fa *FA) genCandidates() {
	A := fa.A
	fn := fa.fn
	for _, m := range fn.Blocks {
		phis := fa.phiAtomsOf(m)
		if len(phis) == 0 {
			continue
		}
		isLoop := false
		for _, p := range m.Preds {
			if m.Dominates(p) {
				isLoop = true
			}
		}
		for _, a := range phis {
			x := linAtom(a.ID)
			switch a.Kind {
			case aVal, aCell:
				fa.addCand(m, nil, ineqGE(x, linConst(0)), "sign")
				fa.addCand(m, nil, ineqLE(x, linBig(pow2(62))), "bound62")
				for _, p := range fn.Params {
					if isSliceOrString(p.Type()) {
						if d := fa.sliceDesc(p); d != nil {
							fa.addCand(m, nil, ineqLE(x, d.Len), "≤len("+p.Name()+")")
						}
					}
				}
				if fa.spanP != nil {
					fa.addCand(m, nil, ineqLE(fa.ptrExpand(fa.spanP).add(x), fa.expand(fa.spanE)), "span")
				}
				if isLoop {
					// two quantities that move together or against each other (a count-down of what is missing and the
					// length that grows): their difference / sum keeps its entry value
					if ea := fa.entryLin(a); ea != nil {
						for _, b := range phis {
							if b == a || !(b.Kind == aVal || b.Kind == aCell || b.Kind == aLen) {
								continue
							}
							if b.Kind != aLen && b.ID <= a.ID {
								continue // each unordered pair once (lengths never stand on the left)
							}
							eb := fa.entryLin(b)
							if eb == nil {
								continue
							}
							y := linAtom(b.ID)
							for _, pair := range [][2]*Lin{{x.sub(y), ea.sub(eb)}, {x.add(y), ea.add(eb)}} {
								if fa.okForInv(m, pair[0], pair[1]) {
									fa.addCand(m, nil, ineqLE(pair[0], pair[1]), "moves together")
									fa.addCand(m, nil, ineqGE(pair[0], pair[1]), "moves together")
								}
							}
						}
					}
					if x0, ok := fa.entryConst(a); ok {
						for _, b := range phis {
							if b.ID <= a.ID || !(b.Kind == aVal || b.Kind == aCell) {
								continue
							}
							if y0, ok := fa.entryConst(b); ok {
								d := new(big.Int).Sub(x0, y0)
								diff := x.sub(linAtom(b.ID))
								fa.addCand(m, nil, ineqLE(diff, linBig(d)), "lockstep")
								fa.addCand(m, nil, ineqGE(diff, linBig(d)), "lockstep")
							}
						}
					}
				}
			case aNil:
				fa.addCand(m, nil, ineqGE(x, linConst(1)), "nonnil")
				// relation with the values arriving on the edges (e.g. an error that is wrapped when non-nil)
				for k := range m.Preds {
					if src, ok := singleAtom(fa.phiIn(a, k)); ok && fa.stable(A.at(src), m) {
						fa.addCand(m, nil, ineqLE(linAtom(src), x), "nil-ness ≥ incoming")
						fa.addCand(m, nil, ineqLE(x, linAtom(src)), "nil-ness ≤ incoming")
					}
				}
			case aLen, aCap:
				for _, p := range fn.Params {
					if isSliceOrString(p.Type()) {
						if d := fa.sliceDesc(p); d != nil {
							fa.addCand(m, nil, ineqLE(x, d.Len), "len≤len("+p.Name()+")")
						}
					}
				}
			}
			// facts carried by the incoming values
			for k := range m.Preds {
				in := fa.phiIn(a, k)
				src, ok := singleAtom(in)
				if !ok {
					continue
				}
				ren := map[AtomID]*Lin{src: x}
				for _, o := range phis {
					if o == a {
						continue
					}
					if os, ok := singleAtom(fa.phiIn(o, k)); ok && os != src {
						if _, dup := ren[os]; !dup {
							ren[os] = linAtom(o.ID)
						}
					}
				}
				sa := A.at(src)
				for _, f := range sa.Facts {
					nf := f.substAll(ren)
					if fa.okForInv(m, nf) {
						fa.addCand(m, nil, nf, "fact of incoming "+sa.Name)
					}
				}
				for _, t := range A.trigByAtom[src] {
					if t.Dyn != nil {
						continue
					}
					var gs []*Lin
					for _, cnd := range t.Conds {
						gs = append(gs, cnd.substAll(ren))
					}
					for _, f := range t.Facts {
						nf := f.substAll(ren)
						if !nf.has(a.ID) {
							continue
						}
						all := append(append([]*Lin{}, gs...), nf)
						if fa.okForInv(m, all...) {
							fa.addCand(m, gs, nf, "guarded fact of incoming "+sa.Name)
						}
					}
				}
			}
		}
	}
}

// phiIn evaluates the incoming value of a phi-like atom on edge i.
func (fa *FA) phiIn(a *Atom, i int) *Lin {
	return a.Phi.In(i)
}

// substFor builds the substitution of m's phi atoms (and products involving
// them) by their values on edge k, for the atoms occurring in ls.
func (fa *FA) substFor(m *ssa.BasicBlock, k int, ls ...*Lin) map[AtomID]*Lin {
	A := fa.A
	sub := map[AtomID]*Lin{}
	for _, l := range ls {
		for id := range l.T {
			if _, ok := sub[id]; ok {
				continue
			}
			a := A.at(id)
			if a.Phi != nil && a.Phi.Block == m {
				sub[id] = fa.phiIn(a, k)
			} else if a.Kind == aMul {
				x, y := A.at(a.MulA), A.at(a.MulB)
				px := x.Phi != nil && x.Phi.Block == m
				py := y.Phi != nil && y.Phi.Block == m
				if px || py {
					lx, ly := linAtom(x.ID), linAtom(y.ID)
					if px {
						lx = fa.phiIn(x, k)
					}
					if py {
						ly = fa.phiIn(y, k)
					}
					if cx, ok := lx.constVal(); ok {
						sub[id] = ly.scale(cx)
					} else if cy, ok := ly.constVal(); ok {
						sub[id] = lx.scale(cy)
					} else {
						sub[id] = fa.product(lx, ly)
					}
				}
			}
		}
	}
	return sub
}

// checkInvEdge checks invariant iv of block m on the edge from m.Preds[k].
func (fa *FA) checkInvEdge(iv *Inv, m *ssa.BasicBlock, k int) bool {
	p := m.Preds[k]
	all := append(append([]*Lin{}, iv.Guard...), iv.Fact)
	sub := fa.substFor(m, k, all...)
	ef := &edgeFacts{}
	fa.edgeCond(p, m, ef)
	assume := append([]*Lin{}, ef.ineq...)
	for _, g := range iv.Guard {
		assume = append(assume, g.substAll(sub))
	}
	return fa.entailsAt(iv.Fact.substAll(sub), p, &pctx{assume: assume, neq: ef.neq})
}

// runHoudini eliminates the invariant candidates that are not inductive.
func (fa *FA) runHoudini() {
	blocks := fa.fn.DomPreorder()
	for rounds := 0; rounds < 60; rounds++ {
		changed := false
		for _, m := range blocks {
			for _, iv := range fa.inv[m] {
				if iv.dead {
					continue
				}
				for k := range m.Preds {
					if !fa.checkInvEdge(iv, m, k) {
						iv.dead = true
						changed = true
						break
					}
				}
			}
		}
		if !changed {
			return
		}
	}
	// no fixpoint within the bound: nothing may be assumed
	for _, l := range fa.inv {
		for _, iv := range l {
			iv.dead = true
		}
	}
}

func (fa *FA) ensureInvariants() {
	if fa.invDone {
		return
	}
	fa.invDone = true
	fa.preExpand()
	fa.genCandidates()
	fa.runHoudini()
}

// generalize offers a failed goal as an invariant of the deepest phi block
// whose atoms it mentions: once as it stands, once guarded by the conditions
// tested between that block and b.
func (fa *FA) generalize(goal *Lin, b *ssa.BasicBlock, c *pctx) bool {
	if fa.generalized > 400 {
		return false
	}
	if !fa.addGoalCands(goal, b, c, 0) {
		return false
	}
	fa.generalized++
	fa.runHoudini()
	return true
}

// addGoalCands adds goal as a candidate at the deepest phi block it mentions
// and, transitively, the goal as it reads on that block's entry edges at the
// phi blocks further up (chains of joins).
func (fa *FA) addGoalCands(goal *Lin, b *ssa.BasicBlock, c *pctx, depth int) bool {
	A := fa.A
	if depth > 5 {
		return false
	}
	var cands []*ssa.BasicBlock
	seen := map[*ssa.BasicBlock]bool{}
	var collect func(a *Atom)
	collect = func(a *Atom) {
		if a.Kind == aMul {
			collect(A.at(a.MulA))
			collect(A.at(a.MulB))
			return
		}
		if a.Phi != nil && !seen[a.Phi.Block] && (a.Phi.Block == b || a.Phi.Block.Dominates(b)) {
			seen[a.Phi.Block] = true
			cands = append(cands, a.Phi.Block)
		}
	}
	for _, id := range goal.atoms() {
		collect(A.at(id))
	}
	if len(cands) == 0 {
		return false
	}
	sort.Slice(cands, func(i, j int) bool {
		if cands[i].Dominates(cands[j]) {
			return false
		}
		if cands[j].Dominates(cands[i]) {
			return true
		}
		return cands[i].Index > cands[j].Index
	})
	added := false
	for _, m := range cands {
		if !fa.okForInv(m, goal) {
			continue
		}
		if fa.addCand(m, nil, goal, "goal") {
			added = true
		}
		fb := fa.factsBetween(b, m)
		var guard []*Lin
		for _, f := range append(fb.ineq, c.assume...) {
			if fa.okForInv(m, f) {
				guard = append(guard, f)
			}
		}
		if len(guard) > 0 && len(guard) <= 10 {
			if fa.addCand(m, guard, goal, "guarded goal") {
				added = true
			}
		}
		// what the goal says on the entry edges, offered to the phi blocks above
		// (on a back edge the value may be a join inside the loop: the goal is offered there too;
		// assumptions of the query that are stable everywhere, e.g. a candidate precondition on a
		// parameter, stay available as guards)
		var stableAssume []*Lin
		for _, f := range c.assume {
			if fa.okForInv(fa.fn.Blocks[0], f) {
				stableAssume = append(stableAssume, f)
			}
		}
		for k, p := range m.Preds {
			gk := normIneq(goal.substAll(fa.substFor(m, k, goal)))
			if gk.isConst() {
				continue
			}
			if m.Dominates(p) && gk.key() == normIneq(goal).key() {
				continue
			}
			if fa.addGoalCands(gk, p, &pctx{assume: stableAssume}, depth+1) {
				added = true
			}
		}
		break // deepest block only
	}
	return added
}

// entryLin returns the value a loop phi starts from (on its single non-back edge), if it is not a constant
// handled by entryConst and is expressed over atoms that do not change in the loop.
func (fa *FA) entryLin(a *Atom) *Lin {
	if a.Phi == nil {
		return nil
	}
	m := a.Phi.Block
	var v *Lin
	loop := false
	for i, p := range m.Preds {
		if m.Dominates(p) {
			loop = true
			continue
		}
		in := a.Phi.In(i)
		if v != nil && !v.equal(in) {
			return nil
		}
		v = in
	}
	if !loop || v == nil {
		return nil
	}
	return v
}

// entryConst returns the constant a loop phi starts from (its value on the
// edges that are not back edges), if unique.
func (fa *FA) entryConst(a *Atom) (*big.Int, bool) {
	if a.Phi == nil {
		return nil, false
	}
	m := a.Phi.Block
	var v *big.Int
	loop := false
	for i, p := range m.Preds {
		if m.Dominates(p) {
			loop = true
			continue
		}
		cv, ok := a.Phi.In(i).constVal()
		if !ok {
			return nil, false
		}
		if v != nil && v.Cmp(cv) != 0 {
			return nil, false
		}
		v = cv
	}
	return v, loop && v != nil
}

// ---- helpers for rules ----

func (fa *FA) proveAt(goal *Lin, in ssa.Instruction) bool {
	return fa.prove(goal, in.Block(), rootCtx)
}

func (fa *FA) proveAtWith(goal *Lin, in ssa.Instruction, assume []*Lin) bool {
	return fa.prove(goal, in.Block(), rootCtx.with(assume, nil))
}

// explain renders the facts available at a block (for reports).
func (fa *FA) explain(b *ssa.BasicBlock) string {
	g := fa.gamma(b)
	var ss []string
	for _, f := range g.ineq {
		ss = append(ss, fa.A.ineqString(f))
	}
	n := 0
	for _, iv := range fa.invsAt(b) {
		if len(iv.Guard) == 0 && n < 6 {
			ss = append(ss, "inv: "+fa.A.ineqString(iv.Fact))
			n++
		}
	}
	return strings.Join(ss, "; ")
}

func typeIsPtrTo(t types.Type, name string) bool {
	p, ok := t.Underlying().(*types.Pointer)
	if !ok {
		return false
	}
	n, ok := p.Elem().(*types.Named)
	return ok && n.Obj().Name() == name
}

// unsignedRangeIdiom recognises uintN(a) compared below uintN(b) where a and b
// are signed integers of the same width N and b is a length, a capacity or a
// non-negative constant.
func unsignedRangeIdiom(lo, hi ssa.Value) (a, b ssa.Value, ok bool) {
	ca, okA := lo.(*ssa.Convert)
	if !okA {
		return nil, nil, false
	}
	ba, sa := intBits(ca.X.Type())
	br, sr := intBits(ca.Type())
	if !isInteger(ca.X.Type()) || !isInteger(ca.Type()) || !sa || sr || ba != br {
		return nil, nil, false
	}
	nonNeg := func(v ssa.Value) bool {
		if c, isCall := v.(*ssa.Call); isCall {
			if bi, isB := c.Call.Value.(*ssa.Builtin); isB && (bi.Name() == "len" || bi.Name() == "cap") {
				return true
			}
		}
		if k, isK := constInt(v); isK && k >= 0 {
			return true
		}
		return false
	}
	switch h := hi.(type) {
	case *ssa.Convert:
		bb, sb := intBits(h.X.Type())
		bh, sh := intBits(h.Type())
		if isInteger(h.X.Type()) && sb && !sh && bb == bh && bh == br && nonNeg(h.X) {
			return ca.X, h.X, true
		}
	case *ssa.Const:
		if k, isK := constInt(h); isK && k >= 0 {
			return ca.X, h, true
		}
	}
	return nil, nil, false
}
