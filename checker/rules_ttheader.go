package main

// C10 (TTHeader decode validation and framing arithmetic) and C06 (encode/decode
// conformance with the frame layout).

import (
	"fmt"
	"go/constant"
	"go/token"
	"go/types"
	"sort"
	"strings"

	"golang.org/x/tools/go/ssa"
)

const relTT = "protocol/ttheader"

func ttDecodeScope(P *Program, r *Result) (decode *ssa.Function, scope []*ssa.Function) {
	decode = P.Func(relTT, "Decode")
	roots := []*ssa.Function{}
	for _, n := range []string{"Decode", "DecodeFromBytes", "IsStreaming", "IsTTHeader", "Bytes2Uint8", "Bytes2Uint16", "ReadString2BLen"} {
		if f := P.Func(relTT, n); r.require("ttheader."+n, f != nil) {
			roots = append(roots, f)
		}
	}
	scope = P.reachable(roots, stopAtBufiox)
	return
}

// invokesOn lists the interface method calls on parameter p in fn.
func invokesOn(fn *ssa.Function, p *ssa.Parameter) []*ssa.Call {
	var out []*ssa.Call
	for _, c := range callsIn(fn) {
		if cc, ok := c.(*ssa.Call); ok && cc.Common().IsInvoke() && cc.Common().Value == ssa.Value(p) {
			out = append(out, cc)
		}
	}
	return out
}

func constInt(v ssa.Value) (int64, bool) {
	c, ok := v.(*ssa.Const)
	if !ok || c.Value == nil || c.Value.Kind() != constant.Int {
		return 0, false
	}
	return c.Int64(), true
}

// declaredConsts returns the values of the constants of the named type typ
// declared in package rel.
func declaredConsts(P *Program, rel, typ string) map[int64]string {
	out := map[int64]string{}
	tp := P.tpkg(rel)
	if tp == nil {
		return out
	}
	sc := tp.Types.Scope()
	for _, n := range sc.Names() {
		if c, ok := sc.Lookup(n).(*types.Const); ok {
			if nt, ok := c.Type().(*types.Named); ok && nt.Obj().Name() == typ {
				if v, ok := constant.Int64Val(constant.ToInt(c.Val())); ok {
					out[v] = n
				}
			}
		}
	}
	return out
}

// be32Arg: v is a big-endian 32-bit load of a byte slice — binary.BigEndian.Uint32(x) or a repository
// helper whose only return is that load of its own parameter — and returns x.
func be32Arg(v ssa.Value) ssa.Value {
	c := asCall(v)
	if c == nil {
		return nil
	}
	cal := c.Common().StaticCallee()
	if cal == nil {
		return nil
	}
	if fnPkgPath(cal) == "encoding/binary" && cal.Name() == "Uint32" && len(c.Common().Args) == 2 {
		return c.Common().Args[1]
	}
	if inRepo(cal) && cal.Blocks != nil && len(cal.Params) == 1 && len(c.Common().Args) == 1 {
		if ret := singleReturn(cal); ret != nil && len(ret.Results) == 1 {
			if inner := be32Arg(ret.Results[0]); inner == ssa.Value(cal.Params[0]) {
				return c.Common().Args[0]
			}
		}
	}
	return nil
}

func checkC10(P *Program, r *Result, tier string) {
	r.Explanation = "On the TTHeader decode call tree: NO-PANIC (E1: every slice/index in range, no wrapping narrow arithmetic, no panicking operation), " +
		"VALIDATE (every success return of Decode is dominated by the magic test, has the declared size proved within [2, 65536] and equal to 4× the size field, and follows a nil result of the protocol allow-list whose cases are declared ProtocolID constants and whose default is an error), " +
		"LENGTHS (HeaderLen = size + 14, PayloadLen = total + 4 − HeaderLen; the reader is consumed only by Next(14) and Next(size)), " +
		"SECTION-COMPLETE (a failed primitive read inside a section always yields an error; only the info-id read's EOF ends the header successfully), MAP-KEEP (result maps are created only when still nil), " +
		"COPIES (decoded strings do not alias the input)."
	decode, scope := ttDecodeScope(P, r)
	if len(r.Fatal) > 0 {
		return
	}
	for _, f := range scope {
		r.Funcs[shortName(f)] = true
	}
	run := newE1(P, scope, e1Config{IfaceLenEq: []string{"Next", "Peek"}, StrictLen: true, Wrap: true})
	run.run()
	reportE1(P, r, run, func(o *e1Obl) (string, bool) { return "NO-PANIC", true })
	// a complete, well-formed frame is not refused: every length check asks for no more than is then read
	ntight := 0
	for _, f := range scope {
		if f.Blocks == nil {
			continue
		}
		for _, p := range f.Params {
			if isByteSlice(p.Type()) {
				ntight += sliceNeeded(P, r, "TIGHT", run.A.fa(f), f, p)
			}
		}
	}
	if ntight < 3 {
		r.fatal("expected at least 3 length checks in the header-info readers, found %d", ntight)
	}
	fa := run.A.fa(decode)
	in := decode.Params[1]
	// the two consuming calls
	var next14, nextS *ssa.Call
	okCalls := true
	for _, c := range invokesOn(decode, in) {
		if c.Common().Method.Name() != "Next" {
			okCalls = false
			continue
		}
		if k, ok := constInt(c.Common().Args[0]); ok && k == 14 {
			next14 = c
		} else {
			nextS = c
		}
	}
	if len(invokesOn(decode, in)) != 2 {
		okCalls = false
	}
	r.add("LENGTHS", shortName(decode), "calls", "the reader is consumed by exactly Next(14) and Next(declared size)", P.pos(decode.Pos()), okCalls && next14 != nil && nextS != nil, "")
	if next14 == nil || nextS == nil {
		return
	}
	S := fa.expand(nextS.Common().Args[0])
	meta := resultValue(next14, 0)
	// the size field: a 16-bit read of meta[12:14]
	var sizeField, totalField *ssa.Call
	for _, c := range callsIn(decode) {
		cc, ok := c.(*ssa.Call)
		if !ok || cc.Common().StaticCallee() == nil || len(cc.Common().Args) != 1 {
			continue
		}
		d := fa.sliceDesc(cc.Common().Args[0])
		if d == nil || d.Root != meta {
			continue
		}
		off, okc := d.Off.constVal()
		if !okc {
			continue
		}
		switch {
		case off.Int64() == 12 && cc.Common().StaticCallee().Name() == "Bytes2Uint16NoCheck":
			sizeField = cc
		case off.Int64() == 0 && cc.Common().StaticCallee().Name() == "Bytes2Uint32NoCheck":
			totalField = cc
		}
	}
	r.require("Decode: read of the size field at offset 12 and of the total length at offset 0", sizeField != nil && totalField != nil)
	if sizeField == nil || totalField == nil {
		return
	}
	f16 := fa.expand(sizeField)
	total := fa.expand(totalField)
	for _, ret := range returnsOf(decode) {
		if c, ok := fa.nilExpand(ret.Results[1]).constVal(); !ok || c.Sign() != 0 {
			// error may be non-nil unless proved nil on this path
			if !fa.prove(ineqLE(fa.nilExpand(ret.Results[1]), linConst(0)), ret.Block(), rootCtx) {
				continue
			}
		}
		pos := P.pos(instrPos(ret))
		// magic
		magic := false
		for _, c := range callsIn(decode) {
			if cal := c.Common().StaticCallee(); cal != nil && cal.Name() == "IsTTHeader" && c.Common().Args[0] == meta {
				if guardedBy(ret, c.(*ssa.Call), true) {
					magic = true
				}
			}
		}
		// … or the same test spelled out: (big-endian word at 4) & 0xFFFF0000 == 0x10000000
		for _, b := range decode.Blocks {
			for _, in := range b.Instrs {
				eq, ok := in.(*ssa.BinOp)
				if !ok || (eq.Op != token.EQL && eq.Op != token.NEQ) {
					continue
				}
				for _, pr := range [][2]ssa.Value{{eq.X, eq.Y}, {eq.Y, eq.X}} {
					k, isK := constInt(pr[1])
					and, isAnd := pr[0].(*ssa.BinOp)
					if !isK || k != 0x10000000 || !isAnd || and.Op != token.AND {
						continue
					}
					for _, ap := range [][2]ssa.Value{{and.X, and.Y}, {and.Y, and.X}} {
						mk, isMK := constInt(ap[1])
						ld, isCall := ap[0].(*ssa.Call)
						if !isMK || mk != 0xffff0000 || !isCall || ld.Common().StaticCallee() == nil || ld.Common().StaticCallee().Name() != "Bytes2Uint32NoCheck" || len(ld.Common().Args) != 1 {
							continue
						}
						d := fa.sliceDesc(ld.Common().Args[0])
						if d == nil || d.Root != meta {
							continue
						}
						if o, isC := d.Off.constVal(); isC && o.Int64() == 4 && guardedBy(ret, eq, eq.Op == token.EQL) {
							magic = true
						}
					}
				}
			}
		}
		r.add("VALIDATE", shortName(decode), "return", "success requires the TTHeader magic", pos, magic, "")
		r.add("VALIDATE", shortName(decode), "return", "success requires 2 ≤ declared size ≤ 65536", pos,
			fa.prove(ineqGE(S, linConst(2)), ret.Block(), rootCtx) && fa.prove(ineqLE(S, linConst(65536)), ret.Block(), rootCtx), "")
		r.add("VALIDATE", shortName(decode), "return", "declared size = 4 × the 16-bit size field (no wrap)", pos, fa.proveEq(S, f16.scale(bi(4)), ret.Block()), "size expands to "+run.A.linString(S))
		proto := false
		for _, c := range callsIn(decode) {
			if cal := c.Common().StaticCallee(); cal != nil && cal == ttProtoCheck(P) {
				if guardedNil(ret, c.(*ssa.Call)) {
					proto = true
				}
			}
		}
		r.add("VALIDATE", shortName(decode), "return", "success requires the protocol allow-list to accept the protocol id", pos, proto, "")
		// LENGTHS
		hl := cellFieldAt(fa, ret, "A:t0", "HeaderLen")
		pl := cellFieldAt(fa, ret, "A:t0", "PayloadLen")
		r.add("LENGTHS", shortName(decode), "return", "HeaderLen = declared size + 14", pos, hl != nil && fa.proveEq(hl, S.addConst(14), ret.Block()), "")
		r.add("LENGTHS", shortName(decode), "return", "PayloadLen = total length + 4 − HeaderLen", pos, pl != nil && hl != nil && fa.proveEq(pl, total.addConst(4).sub(hl), ret.Block()), "")
	}
	// the allow-list
	if fn := ttProtoCheck(P); r.require("ttheader: the protocol-id allow-list behind Decode", fn != nil) {
		decl := declaredConsts(P, relTT, "ProtocolID")
		okCases := true
		detail := ""
		n := 0
		for _, b := range fn.Blocks {
			for _, ins := range b.Instrs {
				if bo, ok := ins.(*ssa.BinOp); ok && bo.Op == token.EQL && sameWidthSource(bo.X) == ssa.Value(fn.Params[0]) {
					if k, ok := constInt(bo.Y); ok {
						n++
						if _, isDecl := decl[k]; !isDecl {
							okCases = false
							detail = fmt.Sprintf("case %#x is not a declared ProtocolID", k)
						}
					}
				}
			}
		}
		// or a lookup in an immutable package-level table indexed by the id
		var tabLoad *ssa.UnOp
		if n == 0 {
			for _, b := range fn.Blocks {
				for _, ins := range b.Instrs {
					ld, ok := ins.(*ssa.UnOp)
					if !ok || ld.Op != token.MUL {
						continue
					}
					ia, ok := ld.X.(*ssa.IndexAddr)
					if !ok || sameWidthSource(ia.Index) != ssa.Value(fn.Params[0]) {
						continue
					}
					g, ok := ia.X.(*ssa.Global)
					if !ok {
						continue
					}
					set, okT := boolTableTrue(P, g)
					if !okT {
						okCases, detail = false, "lookup table "+g.Name()+" is not an immutable table of constants"
						n++
						continue
					}
					tabLoad = ld
					for k := range set {
						n++
						if _, isDecl := decl[k]; !isDecl {
							okCases = false
							detail = fmt.Sprintf("table entry %#x is not a declared ProtocolID", k)
						}
					}
				}
			}
		}
		r.add("VALIDATE", shortName(fn), "switch", "every accepted value is a declared ProtocolID constant", P.pos(fn.Pos()), okCases && n > 0, detail)
		// the supported set itself (specification held by the checker: binary, compact v2 for compatibility,
		// kitex protobuf, and the two streaming struct encodings; 0x02 "thrift compact" is declared but not supported)
		{
			want := map[int64]bool{0x00: true, 0x03: true, 0x04: true, 0x10: true, 0x11: true}
			got := map[int64]bool{}
			for _, b := range fn.Blocks {
				for _, ins := range b.Instrs {
					if bo, ok := ins.(*ssa.BinOp); ok && bo.Op == token.EQL && sameWidthSource(bo.X) == ssa.Value(fn.Params[0]) {
						if k, ok := constInt(bo.Y); ok {
							// the comparison leads to acceptance if its true side can reach a nil return without passing an error return
							got[k] = true
						}
					}
				}
			}
			if tabLoad != nil {
				if ia, ok := tabLoad.X.(*ssa.IndexAddr); ok {
					if g, ok := ia.X.(*ssa.Global); ok {
						if set, okT := boolTableTrue(P, g); okT {
							for k := range set {
								got[k] = true
							}
						}
					}
				}
			}
			d := ""
			for k := range got {
				if !want[k] {
					d = fmt.Sprintf("%#x is accepted but is not a supported protocol id", k)
				}
			}
			for k := range want {
				if !got[k] {
					d = fmt.Sprintf("supported protocol id %#x is not accepted", k)
				}
			}
			r.add("VALIDATE", shortName(fn), "set", "the accepted protocol ids are exactly the supported ones {0x00, 0x03, 0x04, 0x10, 0x11}", P.pos(fn.Pos()), d == "", d)
		}
		def := false
		for _, ret := range returnsOf(fn) {
			ne := newAnalysis(P).fa(fn).nilExpand(ret.Results[0])
			if c, ok := ne.constVal(); ok && c.Sign() > 0 {
				// reached only when every comparison failed
				all := true
				for _, b := range fn.Blocks {
					for _, ins := range b.Instrs {
						if bo, ok := ins.(*ssa.BinOp); ok && bo.Op == token.EQL && sameWidthSource(bo.X) == ssa.Value(fn.Params[0]) {
							if !guardedBy(ret, bo, false) {
								all = false
							}
						}
					}
				}
				if all && tabLoad == nil {
					def = true
				}
				if tabLoad != nil && guardedBy(ret, tabLoad, false) {
					def = true
				}
			}
		}
		r.add("VALIDATE", shortName(fn), "default", "any other protocol id yields a non-nil error", P.pos(fn.Pos()), def, "")
	}
	if fn := P.Func(relTT, "IsTTHeader"); fn != nil {
		ok := false
		if ret := singleReturn(fn); ret != nil {
			if bo, isB := ret.Results[0].(*ssa.BinOp); isB && bo.Op == token.EQL {
				if and, isA := bo.X.(*ssa.BinOp); isA && and.Op == token.AND {
					m, okm := constInt(and.Y)
					v, okv := constInt(bo.Y)
					if arg := be32Arg(and.X); arg != nil && okm && okv && uint32(m) == 0xffff0000 && uint32(v) == 0x10000000 {
						if d := newAnalysis(P).fa(fn).sliceDesc(arg); d != nil && d.Root == ssa.Value(fn.Params[0]) {
							if o, isC := d.Off.constVal(); isC && o.Int64() == 4 {
								ok = true
							}
						}
					}
				}
			}
		}
		r.add("VALIDATE", shortName(fn), "return", "magic test: BE32 at offset 4, masked with 0xffff0000, equals 0x10000000", P.pos(fn.Pos()), ok, "")
	}
	sectionRules(P, r, "SECTION-COMPLETE", "MAP-KEEP")
	copyRules(P, r, "COPIES", []*ssa.Function{P.Func(relTT, "ReadString2BLen")})
	primCountRule(P, r, "SECTIONS")
	r.Extra["contracts"] = run.contractSummary()
	r.assume("bufiox.Reader.Next returns exactly n bytes when err == nil; int is 64 bits")
}

// cellFieldAt returns the integer value of field `field` of the local struct
// with key base as seen at instruction in.
func cellFieldAt(fa *FA, in ssa.Instruction, base, field string) *Lin {
	key := base + "." + field
	ver := fa.mem.versionAt(in, key)
	if ver == nil {
		// the struct local may have another name: search keys ending with the field
		for _, k := range fa.mem.keys {
			if strings.HasPrefix(k, "A:") && strings.HasSuffix(k, "."+field) {
				if v := fa.mem.versionAt(in, k); v != nil {
					ver, key = v, k
				}
			}
		}
	}
	if ver == nil {
		return nil
	}
	return fa.cellValue(ver, fa.mem.keyType[key])
}

// sectionRules: error discipline of the info-section readers and map creation.
func sectionRules(P *Program, r *Result, ruleErr, ruleMap string) {
	rk := ttReadKV(P)
	if !r.require("ttheader.readKVInfo", rk != nil) {
		return
	}
	// section readers: repository functions called from readKVInfo that take the buffer
	var readers []*ssa.Function
	seen := map[*ssa.Function]bool{}
	for _, c := range callsIn(rk) {
		if cal := c.Common().StaticCallee(); cal != nil && inRepo(cal) && !seen[cal] && isSectionReader(cal) {
			seen[cal] = true
			readers = append(readers, cal)
		}
	}
	if len(readers) < 3 {
		r.fatal("expected 3 section readers called from readKVInfo, found %d", len(readers))
	}
	prim := map[string]bool{"Bytes2Uint8": true, "Bytes2Uint16": true, "ReadString2BLen": true}
	check := func(fn *ssa.Function) {
		A := newAnalysis(P)
		fa := A.fa(fn)
		fa.noGeneralize = true
		for _, c := range callsIn(fn) {
			cc, ok := c.(*ssa.Call)
			cal := c.Common().StaticCallee()
			if !ok || cal == nil || (!prim[cal.Name()] && !seen[cal]) {
				continue
			}
			ei := errIndex(cal)
			if ei < 0 {
				continue
			}
			ev := resultValue(cc, ei)
			if ev == nil {
				r.add(ruleErr, shortName(fn), "call", "the error of "+cal.Name()+" is examined", P.pos(instrPos(cc)), false, "error result dropped")
				continue
			}
			_, neq := nilTests(ev)
			// the arms of the dispatch may share one test after the switch: the error then reaches it through a join,
			// which on the edge coming from this call carries exactly this error, and is tested where the join is
			if len(neq) == 0 {
				if refs := ev.Referrers(); refs != nil {
					for _, ref := range *refs {
						ph, isPhi := ref.(*ssa.Phi)
						if !isPhi {
							continue
						}
						carries := false
						for i, p := range ph.Block().Preds {
							if ph.Edges[i] == ev && (p == cc.Block() || cc.Block().Dominates(p)) {
								carries = true
							}
						}
						if !carries {
							continue
						}
						_, pneq := nilTests(ph)
						for _, t := range pneq {
							for _, ce := range testsOf(t) {
								if ce.If.Block() == ph.Block() {
									neq = append(neq, t)
								}
							}
						}
					}
				}
			}
			tested := len(neq) > 0
			okAll := tested
			detail := ""
			for _, t := range neq {
				for _, ce := range testsOf(t) {
					succ := ce.If.Block().Succs[0]
					if !ce.Truth {
						succ = ce.If.Block().Succs[1]
					}
					// every return reachable in the error branch returns a non-nil error
					for _, ret := range returnsOf(fn) {
						if !(ret.Block() == succ || succ.Dominates(ret.Block())) {
							continue
						}
						rv := ret.Results[len(ret.Results)-1]
						nonnil := fa.prove(ineqGE(fa.nilExpand(rv), linConst(1)), ret.Block(), rootCtx)
						if !nonnil {
							// allowed only: the read of the dispatched info id in readKVInfo, where end-of-data is the regular end of the header
							if fn == rk && isDispatchedTag(resultValue(cc, 0)) {
								continue
							}
							okAll = false
							detail = "a failed read can end in success at " + P.pos(instrPos(ret))
						}
					}
				}
			}
			r.add(ruleErr, shortName(fn), "call", "a failed "+cal.Name()+" makes the section fail", P.pos(instrPos(cc)), okAll, detail)
		}
	}
	for _, fn := range readers {
		check(fn)
	}
	check(rk)
	// success is only possible at an info-id boundary: no return that may carry a nil error is reachable from a
	// section-reader call without going round the loop first
	var header *ssa.BasicBlock
	for _, b := range rk.Blocks {
		for _, p := range b.Preds {
			if b.Dominates(p) && (header == nil || b.Dominates(header)) {
				header = b
			}
		}
	}
	okLoop, detailLoop := header != nil, "no section loop found"
	if header != nil {
		detailLoop = ""
		A := newAnalysis(P)
		fa := A.fa(rk)
		fa.noGeneralize = true
		for _, ret := range returnsOf(rk) {
			rv := ret.Results[len(ret.Results)-1]
			if fa.prove(ineqGE(fa.nilExpand(rv), linConst(1)), ret.Block(), rootCtx) {
				continue
			}
			// … nor after an info id has been read and dispatched on (padding or any section must go round the loop)
			for _, dc := range blockConds(ret.Block(), header, 0) {
				if bo, isBo := dc.Cond.(*ssa.BinOp); isBo && bo.Op == token.EQL {
					if _, isC := bo.Y.(*ssa.Const); isC && isDispatchedTag(bo.X) && !isErrorType(bo.X.Type()) {
						okLoop = false
						detailLoop = "the return at " + P.pos(instrPos(ret)) + " may report success right after an info id was read, without looking at the rest of the header"
					}
				}
			}
			for _, c := range callsIn(rk) {
				cc, ok := c.(*ssa.Call)
				if !ok || !seen[c.Common().StaticCallee()] {
					continue
				}
				if reachesWithout(cc, ret, func(in ssa.Instruction) bool { return in.Block() == header }) {
					okLoop = false
					detailLoop = "the return at " + P.pos(instrPos(ret)) + " may report success in the middle of a section (after " + c.Common().StaticCallee().Name() + ")"
				}
			}
		}
	}
	r.add(ruleErr, shortName(rk), "loop", "the header can only end with success at an info-id boundary", P.pos(rk.Pos()), okLoop, detailLoop)
	// an info id that is none of the known ones fails the decode: where every equality test of the dispatch has
	// failed, control reaches an error return, never the next round of the loop
	if header != nil {
		isDispatchIf := func(b *ssa.BasicBlock) *ssa.BinOp {
			iff, ok := b.Instrs[len(b.Instrs)-1].(*ssa.If)
			if !ok {
				return nil
			}
			bo, ok := iff.Cond.(*ssa.BinOp)
			if !ok || bo.Op != token.EQL {
				return nil
			}
			if _, isC := bo.Y.(*ssa.Const); !isC {
				return nil
			}
			if isErrorType(bo.X.Type()) || !isInteger(bo.X.Type()) {
				return nil
			}
			// the value compared is the info id (or a conversion of it): it is compared with several constants
			return bo
		}
		var chain []*ssa.BasicBlock
		byVal := map[ssa.Value][]*ssa.BasicBlock{}
		for _, b := range rk.Blocks {
			if bo := isDispatchIf(b); bo != nil {
				byVal[bo.X] = append(byVal[bo.X], b)
			}
		}
		for _, bs := range byVal {
			if len(bs) > len(chain) {
				chain = bs
			}
		}
		okDefault, dDefault := len(chain) >= 3, "no dispatch over the info id found"
		if okDefault {
			inChain := map[*ssa.BasicBlock]bool{}
			for _, b := range chain {
				inChain[b] = true
			}
			// the block reached when the last test fails too
			var def *ssa.BasicBlock
			for _, b := range chain {
				if f := b.Succs[1]; !inChain[f] {
					// skip empty forwarding blocks
					for len(f.Instrs) == 1 && len(f.Succs) == 1 && !inChain[f.Succs[0]] && f != header {
						f = f.Succs[0]
					}
					if !inChain[f] {
						def = f
					}
				}
			}
			dDefault = ""
			switch {
			case def == nil:
				okDefault, dDefault = false, "the dispatch has no way out for an id that matches no case"
			case def == header:
				okDefault, dDefault = false, "an id that matches no case is skipped like padding (the loop goes round)"
			default:
				A := newAnalysis(P)
				fa := A.fa(rk)
				seenB := map[[2]*ssa.BasicBlock]bool{}
				var walk func(b, from *ssa.BasicBlock)
				walk = func(b, from *ssa.BasicBlock) {
					if seenB[[2]*ssa.BasicBlock{b, from}] || !okDefault {
						return
					}
					seenB[[2]*ssa.BasicBlock{b, from}] = true
					if b == header {
						okDefault, dDefault = false, "an id that matches no case is skipped like padding (the loop goes round)"
						return
					}
					if ret, isRet := b.Instrs[len(b.Instrs)-1].(*ssa.Return); isRet {
						rv := ret.Results[len(ret.Results)-1]
						okRet := fa.prove(ineqGE(fa.nilExpand(rv), linConst(1)), b, rootCtx)
						// the error as it is on the edge we came by (a tail shared with other arms)
						if ph, isPhi := rv.(*ssa.Phi); !okRet && isPhi && ph.Block() == b && from != nil {
							for i, p := range b.Preds {
								if p == from && isKnownError(ph.Edges[i]) {
									okRet = true
								}
							}
						}
						if !okRet {
							okDefault, dDefault = false, "an id that matches no case can end in success at "+P.pos(instrPos(ret))
						}
						return
					}
					// a test of the error shared by the arms of the dispatch: on the way from the default arm the error is
					// the one just made, so only its non-nil side is taken
					if iff, isIf := b.Instrs[len(b.Instrs)-1].(*ssa.If); isIf && from != nil {
						if bo, isBo := iff.Cond.(*ssa.BinOp); isBo && (bo.Op == token.NEQ || bo.Op == token.EQL) && (isNilConst(bo.X) || isNilConst(bo.Y)) {
							v := bo.X
							if isNilConst(v) {
								v = bo.Y
							}
							if ph, isPhi := v.(*ssa.Phi); isPhi && ph.Block() == b {
								for i, p := range b.Preds {
									if p == from && isKnownError(ph.Edges[i]) {
										if bo.Op == token.NEQ {
											walk(b.Succs[0], b)
										} else {
											walk(b.Succs[1], b)
										}
										return
									}
								}
							}
						}
					}
					for _, s2 := range b.Succs {
						walk(s2, b)
					}
				}
				walk(def, nil)
			}
		}
		r.add(ruleErr, shortName(rk), "default", "an info id that is none of the known ones makes the decode fail", P.pos(rk.Pos()), okDefault, dDefault)
	}
	// ... and only where nothing is left unread: the success return sits on the failing side of the one-byte read of
	// the next info id, or behind a test that says the position about to be read is at or past the end
	if header != nil {
		var buf *ssa.Parameter
		for _, p := range rk.Params {
			if isByteSlice(p.Type()) {
				buf = p
			}
		}
		A := newAnalysis(P)
		fa := A.fa(rk)
		for _, ret := range returnsOf(rk) {
			rv := ret.Results[len(ret.Results)-1]
			if fa.prove(ineqGE(fa.nilExpand(rv), linConst(1)), ret.Block(), rootCtx) {
				continue
			}
			okEnd := false
			// (a) the failing side of the one-byte primitive
			for _, c := range callsIn(rk) {
				cc, isCall := c.(*ssa.Call)
				cal := c.Common().StaticCallee()
				if !isCall || cal == nil || cal.Name() != "Bytes2Uint8" || !inRepo(cal) || len(c.Common().Args) < 1 {
					continue
				}
				// the buffer itself, or the not yet consumed rest of it (a cursor kept as an advancing sub-slice)
				if a0 := c.Common().Args[0]; a0 != ssa.Value(buf) {
					isRest := false
					if d := fa.sliceDesc(a0); d != nil && d.Root == ssa.Value(buf) {
						isRest = true
					}
					// the rest as the loop carries it round (the section readers hand back what they left)
					if ph, isPhi := a0.(*ssa.Phi); isPhi && ph.Block() == header && isByteSlice(ph.Type()) {
						for _, e := range ph.Edges {
							if e == ssa.Value(buf) {
								isRest = true
							}
						}
					}
					if !isRest {
						continue
					}
				}
				ev := resultValue(cc, errIndex(cal))
				if ev == nil {
					continue
				}
				_, neq := nilTests(ev)
				for _, t := range neq {
					for _, ce := range testsOf(t) {
						succ := ce.If.Block().Succs[0]
						if !ce.Truth {
							succ = ce.If.Block().Succs[1]
						}
						if succ == ret.Block() || succ.Dominates(ret.Block()) {
							okEnd = true
						}
					}
				}
			}
			// (b) a test "len(buf) ≤ e" where e is a position the loop reads next
			if !okEnd && buf != nil {
				bd := fa.sliceDesc(buf)
				lenID, isAtom := singleAtom(bd.Len)
				var reads []ssa.Value
				for _, b := range rk.Blocks {
					for _, in := range b.Instrs {
						switch x := in.(type) {
						case *ssa.IndexAddr:
							if x.X == ssa.Value(buf) {
								reads = append(reads, x.Index)
							}
						case *ssa.Call:
							if cal := x.Common().StaticCallee(); cal != nil && prim[cal.Name()] && len(x.Common().Args) == 2 && x.Common().Args[0] == ssa.Value(buf) {
								reads = append(reads, x.Common().Args[1])
							}
						}
					}
				}
				for x := ret.Block(); isAtom && x != nil && !okEnd; x = x.Idom() {
					if len(x.Preds) != 1 {
						continue
					}
					p := x.Preds[0]
					iff, isIf := p.Instrs[len(p.Instrs)-1].(*ssa.If)
					if !isIf || p.Succs[0] == p.Succs[1] {
						continue
					}
					ef := &edgeFacts{}
					fa.condFacts(iff.Cond, p.Succs[0] == x, ef)
					for _, f := range ef.ineq {
						f = normIneq(f)
						if c, has := f.T[lenID]; !has || c.Cmp(bi(1)) != 0 {
							continue
						}
						e := bd.Len.sub(f) // f: len − e ≤ 0
						for _, rd := range reads {
							if fa.proveEq(e, fa.expand(rd), p) {
								okEnd = true
							}
						}
					}
				}
			}
			r.add(ruleErr, shortName(rk), "end", "the header ends with success only where no unread byte is left", P.pos(instrPos(ret)), okEnd, "")
		}
	}
	// MAP-KEEP (in the dispatch loop, or in a section reader that creates the map it is handed on demand)
	var mkBlocks []*ssa.BasicBlock
	mkBlocks = append(mkBlocks, rk.Blocks...)
	for _, rd := range readers {
		mkBlocks = append(mkBlocks, rd.Blocks...)
	}
	for _, b := range mkBlocks {
		for _, in := range b.Instrs {
			mm, ok := in.(*ssa.MakeMap)
			if !ok {
				continue
			}
			// the block is entered only when the map it replaces was nil
			kept := false
			if len(b.Preds) == 1 {
				if iff, ok := b.Preds[0].Instrs[len(b.Preds[0].Instrs)-1].(*ssa.If); ok && b.Preds[0].Succs[0] == b {
					if bo, ok := iff.Cond.(*ssa.BinOp); ok && bo.Op == token.EQL && isNilConst(bo.Y) && types.Identical(bo.X.Type(), mm.Type()) {
						kept = true
					}
				}
			}
			r.add(ruleMap, shortName(b.Parent()), "make", "a result map is created only while it is still nil (earlier sections are kept)", P.pos(instrPos(mm)), kept, "")
		}
	}
}

// copyRules: the string results of fns are fresh copies.
func copyRules(P *Program, r *Result, rule string, fns []*ssa.Function) {
	for _, fn := range fns {
		if fn == nil {
			continue
		}
		for _, ret := range returnsOf(fn) {
			for k, v := range ret.Results {
				if !isSliceOrString(v.Type()) {
					continue
				}
				rs := rootsOf(v)
				ok, bad := onlyFresh(rs)
				r.add(rule, shortName(fn), "return", fmt.Sprintf("result %d shares no memory with the input", k), P.pos(instrPos(ret)), ok, bad)
			}
		}
	}
}

// ---------------- C06 ----------------

// evalInt evaluates an integer SSA expression with the given leaf assignment.
func evalInt(v ssa.Value, env map[ssa.Value]int64) (int64, bool) {
	if x, ok := env[v]; ok {
		return x, true
	}
	switch e := v.(type) {
	case *ssa.Const:
		return constInt(e)
	case *ssa.BinOp:
		a, ok1 := evalInt(e.X, env)
		b, ok2 := evalInt(e.Y, env)
		if !ok1 || !ok2 {
			return 0, false
		}
		switch e.Op {
		case token.ADD:
			return a + b, true
		case token.SUB:
			return a - b, true
		case token.MUL:
			return a * b, true
		case token.QUO:
			if b == 0 {
				return 0, false
			}
			return a / b, true
		case token.REM:
			if b == 0 {
				return 0, false
			}
			return a % b, true
		case token.AND:
			return a & b, true
		}
	case *ssa.Convert:
		return evalInt(e.X, env)
	}
	return 0, false
}

func checkC06(P *Program, r *Result, tier string) {
	r.Explanation = "Encoder/decoder conformance with the TTHeader frame layout: META (Encode stores BE32(magic+flags)@4, BE32(seq)@8, BE16(size/4)@12 of the 14-byte block and returns bytes 0..4 for the total length; Decode reads the same lanes), " +
		"LIMIT (E1: the value written to the 16-bit size field is size/4 with 0 ≤ size ≤ 65536 proved at that point; no truncation), PAD (the padding expression makes written size + padding ≡ 0 mod 4 for every residue, and every padding byte is stored as 0), " +
		"COUNT (on every success path of writeKVInfo the returned size grows by exactly the bytes emitted through WriteByte/WriteUint16/WriteString2BLen/Malloc), " +
		"NUM-HEADERS (the pair count written before a key/value loop equals the number of pairs the loop emits), SECTIONS (the info ids the encoder emits are cases of the decoder; per section the primitive write sequence pairs with the read sequence; the ACL token uses the same key constant on both sides), " +
		"plus the decode-side rules of C10 that the round trip relies on (size arithmetic without wrap, HeaderLen/PayloadLen formulas, complete sections, copied strings)."
	enc := P.Func(relTT, "Encode")
	wkv := ttWriteKV(P)
	if !r.require("ttheader.Encode", enc != nil) || !r.require("ttheader.writeKVInfo", wkv != nil) {
		return
	}
	roots := []*ssa.Function{enc, P.Func(relTT, "EncodeToBytes")}
	scope := P.reachable(roots, stopAtBufiox)
	for _, f := range scope {
		r.Funcs[shortName(f)] = true
	}
	run := newE1(P, scope, e1Config{IfaceLenEq: []string{"Malloc"}, StrictLen: true, Wrap: true})
	run.run()
	reportE1(P, r, run, func(o *e1Obl) (string, bool) {
		if o.Kind == "WRAP" && !o.Narrow {
			return "", false
		}
		return "ENC-SAFE", true
	})
	fa := run.A.fa(enc)
	out := enc.Params[2]
	// META: the 14-byte block
	var metaCall *ssa.Call
	for _, c := range invokesOn(enc, out) {
		if c.Common().Method.Name() == "Malloc" {
			if k, ok := constInt(c.Common().Args[0]); ok && k == 14 {
				metaCall = c
			}
		}
	}
	if !r.require("Encode: out.Malloc(14)", metaCall != nil) {
		return
	}
	meta := resultValue(metaCall, 0)
	type lane struct {
		off, width int64
		val        ssa.Value
		call       *ssa.Call
	}
	var lanes []lane
	for _, c := range callsIn(enc) {
		cc, ok := c.(*ssa.Call)
		cal := c.Common().StaticCallee()
		if !ok || cal == nil || cal.Pkg == nil || cal.Pkg.Pkg.Path() != "encoding/binary" {
			continue
		}
		w := map[string]int64{"PutUint16": 2, "PutUint32": 4, "PutUint64": 8}[cal.Name()]
		if w == 0 {
			continue
		}
		d := fa.sliceDesc(cc.Common().Args[1])
		if d == nil || d.Root != meta {
			continue
		}
		if o, isC := d.Off.constVal(); isC {
			lanes = append(lanes, lane{o.Int64(), w, cc.Common().Args[2], cc})
		}
	}
	sort.Slice(lanes, func(i, j int) bool { return lanes[i].off < lanes[j].off })
	want := []struct {
		off, w int64
		what   string
	}{{4, 4, "magic + flags"}, {8, 4, "sequence id"}, {12, 2, "header size / 4"}}
	okLanes := len(lanes) == 3
	for i := range want {
		if okLanes && (lanes[i].off != want[i].off || lanes[i].width != want[i].w) {
			okLanes = false
		}
	}
	r.add("META", shortName(enc), "stores", "bytes 4..13 of the meta block are written as BE32@4, BE32@8, BE16@12", P.pos(instrPos(metaCall)), okLanes, fmt.Sprint(lanes))
	if okLanes {
		// values
		v4 := false
		if bo, ok := lanes[0].val.(*ssa.BinOp); ok && bo.Op == token.ADD {
			for _, pair := range [][2]ssa.Value{{bo.X, bo.Y}, {bo.Y, bo.X}} {
				if k, okk := constInt(pair[0]); okk && uint32(k) == 0x10000000 {
					if cv, okc := pair[1].(*ssa.Convert); okc && strings.HasSuffix(pathOf(cv.X), ".Flags*") {
						v4 = true
					}
				}
			}
		}
		r.add("META", shortName(enc), "store", "@4 = TTHeaderMagic + uint32(Flags)", P.pos(instrPos(lanes[0].call)), v4, "")
		v8 := false
		if cv, ok := lanes[1].val.(*ssa.Convert); ok && strings.HasSuffix(pathOf(cv.X), ".SeqID*") {
			v8 = true
		}
		r.add("META", shortName(enc), "store", "@8 = uint32(SeqID)", P.pos(instrPos(lanes[1].call)), v8, "")
		// LIMIT at the size-field store
		sc := lanes[2].call
		v12 := false
		var sizeV ssa.Value
		if cv, ok := lanes[2].val.(*ssa.Convert); ok {
			if q, ok := cv.X.(*ssa.BinOp); ok && q.Op == token.QUO {
				if k, okk := constInt(q.Y); okk && k == 4 {
					v12 = true
					sizeV = q.X
				}
			}
		}
		r.add("META", shortName(enc), "store", "@12 = uint16(header size / 4)", P.pos(instrPos(sc)), v12, "")
		if sizeV != nil {
			sz := fa.expand(sizeV)
			r.add("LIMIT", shortName(enc), "store", "0 ≤ header size ≤ 65536 where the size field is written (the 16-bit field cannot truncate)", P.pos(instrPos(sc)),
				fa.prove(ineqGE(sz, linConst(0)), sc.Block(), rootCtx) && fa.prove(ineqLE(sz, linConst(65536)), sc.Block(), rootCtx), "")
			// the size is what writeKVInfo returned
			isRet := false
			if ex, ok := sizeV.(*ssa.Extract); ok {
				if c, ok := ex.Tuple.(*ssa.Call); ok && c.Common().StaticCallee() == wkv && ex.Index == 0 {
					isRet = true
				}
			}
			r.add("COUNT", shortName(enc), "value", "the size written is the count returned by writeKVInfo", P.pos(instrPos(sc)), isRet, "")
		}
		// returned total-length field = meta[0:4]
		retOK := false
		for _, ret := range returnsOf(enc) {
			if c, ok := fa.nilExpand(ret.Results[1]).constVal(); ok && c.Sign() == 0 {
				d := fa.sliceDesc(ret.Results[0])
				if d != nil && d.Root == meta {
					o, ok1 := d.Off.constVal()
					l, ok2 := d.Len.constVal()
					retOK = ok1 && ok2 && o.Sign() == 0 && l.Int64() == 4
				}
			}
		}
		r.add("META", shortName(enc), "return", "the caller receives bytes 0..4 for the total length", P.pos(enc.Pos()), retOK, "")
	}
	// the bytes written before writeKVInfo: protocol id and transform count = the initial count passed in
	{
		nb := 0
		for _, c := range callsIn(enc) {
			if cal := c.Common().StaticCallee(); cal != nil && cal.Name() == "WriteByte" && !inLoop(c.(*ssa.Call).Block()) {
				nb++
			}
		}
		start := int64(-1)
		for _, c := range callsIn(enc) {
			if c.Common().StaticCallee() == wkv {
				if l := fa.expand(c.Common().Args[0]); true {
					// 1 + 1 + len(transformIDs): constant part
					start = l.C.Int64()
				}
			}
		}
		r.add("COUNT", shortName(enc), "call", "the count starts at the bytes already emitted (protocol id + transform count)", P.pos(enc.Pos()), int64(nb) == start, fmt.Sprintf("%d single-byte writes, initial count %d", nb, start))
	}
	// ---- writeKVInfo: PAD, COUNT, SECTIONS ----
	// the header-info writer may be cut into functions that thread the running size: (size, …, writer) → (size, error)
	cluster := sizeThreadingCluster(wkv)
	origWkv := wkv
	var padCall *ssa.Call
	for _, f := range cluster {
		for _, c := range invokesOn(f, f.Params[len(f.Params)-1]) {
			if c.Common().Method.Name() == "Malloc" {
				padCall = c
				wkv = f // the PAD rules speak about the function that pads
			}
		}
	}
	fw := run.A.fa(wkv)
	if r.require("writeKVInfo: out.Malloc(padding)", padCall != nil) {
		padV := padCall.Common().Args[0]
		// the size variable the padding is computed from: the unique non-constant leaf
		var leaf ssa.Value
		var findLeaf func(v ssa.Value)
		findLeaf = func(v ssa.Value) {
			switch e := v.(type) {
			case *ssa.BinOp:
				findLeaf(e.X)
				findLeaf(e.Y)
			case *ssa.Convert:
				findLeaf(e.X)
			case *ssa.Const:
			default:
				leaf = v
			}
		}
		findLeaf(padV)
		okPad := leaf != nil
		detail := ""
		for x := int64(0); okPad && x < 64; x++ {
			p, ok := evalInt(padV, map[ssa.Value]int64{leaf: x})
			if !ok || p < 0 || p > 3 || (x+p)%4 != 0 {
				okPad = false
				detail = fmt.Sprintf("size %d gives padding %d", x, p)
			}
		}
		r.add("PAD", shortName(wkv), "expr", "size + padding ≡ 0 (mod 4) with 0 ≤ padding ≤ 3, for every residue", P.pos(instrPos(padCall)), okPad, detail)
		// zero fill: a loop storing 0 at paddingBuf[i] for i from 0 while i < len(paddingBuf)
		buf := resultValue(padCall, 0)
		zero := false
		if buf != nil {
			for _, b := range wkv.Blocks {
				for _, in := range b.Instrs {
					st, ok := in.(*ssa.Store)
					if !ok {
						continue
					}
					ia, ok := st.Addr.(*ssa.IndexAddr)
					if !ok || ia.X != buf {
						continue
					}
					if k, okk := constInt(st.Val); !okk || k != 0 {
						continue
					}
					// index: phi from 0 step 1, guarded by i < len(buf)
					if rangeIndexFromZero(ia.Index) && fw.prove(ineqLT(fw.expand(ia.Index), fw.sliceDesc(buf).Len), b, rootCtx) {
						// the loop runs until the index reaches len(buf): the negation of a dominating loop test is exactly index ≥ len(buf)
						goal := ineqGE(fw.expand(ia.Index), fw.sliceDesc(buf).Len)
						for _, dc := range blockConds(b, nil, 0) {
							if !dc.Truth {
								continue
							}
							ef := &edgeFacts{}
							fw.condFacts(dc.Cond, false, ef)
							if entails(fw.closeFacts(ef.ineq, nil, nil, goal), goal) {
								zero = true
							}
						}
					}
				}
			}
		}
		r.add("PAD", shortName(wkv), "loop", "every padding byte is stored as 0 (the pool hands out dirty memory)", P.pos(instrPos(padCall)), zero, "")
		// the returned size includes the padding
		padCounted := false
		for _, ret := range returnsOf(wkv) {
			if isSuccessReturn(fw, ret) {
				rv := fw.expand(ret.Results[0])
				lf := fw.expand(leaf)
				pv := fw.expand(padV)
				padCounted = rv.equal(lf.add(pv))
			}
		}
		r.add("COUNT", shortName(wkv), "return", "returned size = size before padding + padding", P.pos(wkv.Pos()), padCounted, "")
	}
	wkv = origWkv
	for _, f := range cluster {
		r.Funcs[shortName(f)] = true
		countRule(P, r, run, f, cluster)
	}
	// the leaf writers whose reported count the cluster adds up
	leafSeen := map[*ssa.Function]bool{}
	work := append([]*ssa.Function{}, cluster...)
	for wi := 0; wi < len(work); wi++ {
		f := work[wi]
		for _, c := range callsIn(f) {
			cal := c.Common().StaticCallee()
			if cal == nil || !inRepo(cal) || cal.Blocks == nil || leafSeen[cal] {
				continue
			}
			inCluster := false
			for _, h := range cluster {
				if h == cal {
					inCluster = true
				}
			}
			res := cal.Signature.Results()
			if inCluster || res.Len() != 2 || !isInteger(res.At(0).Type()) || !isErrorType(res.At(1).Type()) {
				continue
			}
			leafSeen[cal] = true
			work = append(work, cal)
			r.Funcs[shortName(cal)] = true
			countRule(P, r, run, cal, cluster)
		}
	}
	sectionsRule(P, r, wkv)
	numHeadersRule(P, r, cluster)
	// the frame travels through the buffered writer and reader: their rules (C05, C04) are re-run here
	for _, sub := range []struct {
		name string
		f    ruleFunc
	}{{"STREAM-W", checkC05}, {"STREAM-R", checkC04}} {
		tmp := newResult(r.Prop)
		sub.f(P, tmp, tier)
		r.Fatal = append(r.Fatal, tmp.Fatal...)
		for _, o := range tmp.Obls {
			o.Rule = r.Prop + "/" + sub.name
			r.Obls = append(r.Obls, o)
			r.Funcs[o.Func] = true
		}
	}
	// decode side
	decode, dscope := ttDecodeScope(P, r)
	if decode != nil {
		drun := newE1(P, dscope, e1Config{IfaceLenEq: []string{"Next", "Peek"}, StrictLen: true, Wrap: true})
		drun.run()
		reportE1(P, r, drun, func(o *e1Obl) (string, bool) {
			if o.Kind == "WRAP" && o.Narrow {
				return "DEC-NOWRAP", true
			}
			return "", false
		})
		// what the encoder produced is not refused: the readers' length checks ask for no more than they read
		for _, f := range dscope {
			if f.Blocks == nil {
				continue
			}
			for _, p := range f.Params {
				if isByteSlice(p.Type()) {
					sliceNeeded(P, r, "DEC-TIGHT", drun.A.fa(f), f, p)
				}
			}
		}
		// lanes read by Decode
		dfa := drun.A.fa(decode)
		var n14 *ssa.Call
		for _, c := range invokesOn(decode, decode.Params[1]) {
			if k, ok := constInt(c.Common().Args[0]); ok && k == 14 {
				n14 = c
			}
		}
		if n14 != nil {
			m := resultValue(n14, 0)
			got := map[string]bool{}
			for _, c := range callsIn(decode) {
				cc, ok := c.(*ssa.Call)
				if !ok || cc.Common().StaticCallee() == nil || len(cc.Common().Args) != 1 {
					continue
				}
				d := dfa.sliceDesc(cc.Common().Args[0])
				if d == nil || d.Root != m {
					continue
				}
				if o, isC := d.Off.constVal(); isC {
					got[fmt.Sprintf("%s@%d", cc.Common().StaticCallee().Name(), o.Int64())] = true
				}
			}
			// the flags are the low half of the big-endian word at 4: a 16-bit read at 6, or that word masked with 0xFFFF / narrowed to 16 bits
			for _, c := range callsIn(decode) {
				cc, ok := c.(*ssa.Call)
				if !ok || cc.Common().StaticCallee() == nil || cc.Common().StaticCallee().Name() != "Bytes2Uint32NoCheck" || len(cc.Common().Args) != 1 || cc.Referrers() == nil {
					continue
				}
				d := dfa.sliceDesc(cc.Common().Args[0])
				if d == nil || d.Root != m {
					continue
				}
				if o, isC := d.Off.constVal(); !isC || o.Int64() != 4 {
					continue
				}
				for _, ref := range *cc.Referrers() {
					switch x := ref.(type) {
					case *ssa.BinOp:
						if x.Op == token.AND {
							if k, ok := constInt(x.Y); ok && k == 0xffff && x.X == ssa.Value(cc) {
								got["Bytes2Uint16NoCheck@6"] = true
							}
							if k, ok := constInt(x.X); ok && k == 0xffff && x.Y == ssa.Value(cc) {
								got["Bytes2Uint16NoCheck@6"] = true
							}
						}
					case *ssa.Convert:
						if b, isB := x.Type().Underlying().(*types.Basic); isB && b.Kind() == types.Uint16 {
							got["Bytes2Uint16NoCheck@6"] = true
						}
					}
				}
			}
			wantR := []string{"Bytes2Uint32NoCheck@0", "Bytes2Uint16NoCheck@6", "Bytes2Uint32NoCheck@8", "Bytes2Uint16NoCheck@12"}
			okR := true
			for _, w := range wantR {
				if !got[w] {
					okR = false
				}
			}
			r.add("META", shortName(decode), "loads", "Decode reads total@0 (BE32), flags@6 (BE16 = low half of the word at 4), seq@8 (BE32), size@12 (BE16)", P.pos(decode.Pos()), okR, fmt.Sprint(got))
		}
	}
	copyRules(P, r, "COPIES", []*ssa.Function{P.Func(relTT, "ReadString2BLen")})
	sectionRules(P, r, "SECTION-COMPLETE", "MAP-KEEP")
	errDisciplineRule(P, r, "ERR-USED", pkgFuncs(P, relTT))
	r.assume("bufiox.Writer.Malloc(n) returns exactly n bytes when err == nil; WriteBinary writes all of its argument or fails (interface contracts)")
	r.assume("map contents after the round trip follow from the per-primitive pairing (argued in DESIGN.md), not decided here")
}

// isSuccessReturn: the error result of ret is provably nil.
func isSuccessReturn(fa *FA, ret *ssa.Return) bool {
	ne := fa.nilExpand(ret.Results[len(ret.Results)-1])
	if c, ok := ne.constVal(); ok {
		return c.Sign() == 0
	}
	return fa.prove(ineqLE(ne, linConst(0)), ret.Block(), rootCtx)
}

// countRule: on every success path, the size variable of writeKVInfo grows by
// exactly the bytes emitted on that path.
func countRule(P *Program, r *Result, run *e1Run, fn *ssa.Function, cluster []*ssa.Function) {
	fa := run.A.fa(fn)
	// bytes emitted by a call (nil if it emits nothing)
	emitted := func(c *ssa.Call) *Lin {
		com := c.Common()
		if com.IsInvoke() {
			switch com.Method.Name() {
			case "Malloc":
				return fa.expand(com.Args[0])
			case "WriteBinary":
				// all of the payload, or an error (bufiox.Writer contract)
				if d := fa.sliceDesc(com.Args[0]); d != nil {
					return d.Len
				}
			}
			return nil
		}
		cal := com.StaticCallee()
		if cal == nil {
			return nil
		}
		switch cal.Name() {
		case "WriteByte":
			return linConst(1)
		case "WriteUint16":
			return linConst(2)
		case "WriteUint32":
			return linConst(4)
		case "WriteString2BLen", "WriteString":
			if v := resultValue(c, 0); v != nil {
				return fa.expand(v)
			}
		}
		// a size-threading part of the writer (itself checked by this rule): it emits what it adds to the size
		for _, h := range cluster {
			if h == cal && h != fn {
				if v := resultValue(c, 0); v != nil {
					return fa.expand(v).sub(fa.expand(com.Args[0]))
				}
			}
		}
		// a leaf writer (checked by this rule in its own right): it emits what it reports
		if res := cal.Signature.Results(); inRepo(cal) && cal.Blocks != nil && res.Len() == 2 && isInteger(res.At(0).Type()) && isErrorType(res.At(1).Type()) &&
			len(cal.Params) > 0 && types.IsInterface(cal.Params[len(cal.Params)-1].Type()) {
			if v := resultValue(c, 0); v != nil {
				return fa.expand(v)
			}
		}
		// a repository helper that only reports an error: the constant number of bytes all its success paths emit
		if k, ok := constEmission(cal, 0); ok && k > 0 {
			return linConst(k)
		}
		return nil
	}
	// the size variable at a point = value returned if the function returned now; we follow the
	// SSA value that reaches the success return backwards through phis: at every block, the
	// "current size" is the value the return expression would take, expressed via edge substitution.
	var succRet *ssa.Return
	for _, ret := range returnsOf(fn) {
		if isSuccessReturn(fa, ret) {
			succRet = ret
		}
	}
	if succRet == nil {
		// the function ends by handing on the (size, error) of its last part: that part's success is its own
		for _, ret := range returnsOf(fn) {
			if ex, ok := ret.Results[len(ret.Results)-1].(*ssa.Extract); ok {
				if c, ok := ex.Tuple.(*ssa.Call); ok && c.Block() == ret.Block() {
					for _, h := range cluster {
						if c.Common().StaticCallee() == h && h != fn {
							succRet = ret
						}
					}
				}
			}
		}
	}
	if succRet == nil {
		r.add("COUNT", shortName(fn), "paths", "success return found", P.pos(fn.Pos()), false, "")
		return
	}
	isErrBlock := func(b *ssa.BasicBlock) bool {
		// a block that only leads to error returns
		if ret, ok := b.Instrs[len(b.Instrs)-1].(*ssa.Return); ok {
			return ret != succRet && !isSuccessReturn(fa, ret)
		}
		return false
	}
	// enumerate acyclic success paths entry→return, visiting each loop body at most once;
	// along the path, accumulate emitted bytes and substitute phis by the edge taken.
	type state struct {
		b    *ssa.BasicBlock
		sub  map[AtomID]*Lin // phi atoms → value along this path
		emit *Lin
		seen map[*ssa.BasicBlock]int
	}
	final := fa.expand(succRet.Results[0])
	entrySize := linConst(0) // a leaf writer reports the bytes it emitted itself
	if len(fn.Params) > 0 && isInteger(fn.Params[0].Type()) && types.Identical(fn.Params[0].Type(), succRet.Results[0].Type()) {
		entrySize = fa.expand(fn.Params[0])
	}
	paths, bad := 0, ""
	var walk func(st state)
	walk = func(st state) {
		if paths > 4000 || bad != "" {
			return
		}
		b := st.b
		em := st.emit
		for _, in := range b.Instrs {
			if c, ok := in.(*ssa.Call); ok {
				if e := emitted(c); e != nil {
					em = em.add(e.substAll(st.sub))
				}
			}
		}
		if ret, ok := b.Instrs[len(b.Instrs)-1].(*ssa.Return); ok {
			if ret != succRet {
				return
			}
			paths++
			got := final.substAll(st.sub).sub(entrySize)
			// resolve remaining phi atoms iteratively
			for i := 0; i < 8; i++ {
				got = got.substAll(st.sub)
			}
			if !got.equal(em) && !(len(st.sub) == 0 && fa.proveEq(got, em, succRet.Block())) {
				bad = fmt.Sprintf("a success path returns size−initial = %s but emitted %s", run.A.linString(got), run.A.linString(em))
			}
			return
		}
		for _, s := range b.Succs {
			if isErrBlock(s) {
				continue
			}
			if st.seen[s] >= 2 {
				continue
			}
			ns := state{b: s, emit: em, sub: map[AtomID]*Lin{}, seen: map[*ssa.BasicBlock]int{}}
			for k, v := range st.sub {
				ns.sub[k] = v
			}
			for k, v := range st.seen {
				ns.seen[k] = v
			}
			ns.seen[s]++
			// phis of s take the value of the edge b→s, evaluated in the current substitution
			idx := -1
			for i, p := range s.Preds {
				if p == b {
					idx = i
				}
			}
			for _, a := range fa.phiAtomsOf(s) {
				if a.Kind == aVal {
					ns.sub[a.ID] = a.Phi.In(idx).substAll(st.sub)
				}
			}
			walk(ns)
		}
	}
	fa.ensureInvariants()
	walk(state{b: fn.Blocks[0], sub: map[AtomID]*Lin{}, emit: linConst(0), seen: map[*ssa.BasicBlock]int{fn.Blocks[0]: 1}})
	if paths == 0 && bad == "" {
		bad = "no success path enumerated"
	}
	r.add("COUNT", shortName(fn), "paths", fmt.Sprintf("returned size − initial size = bytes emitted, on each of the %d enumerated success paths (every loop body taken 0, 1 and 2 times)", paths), P.pos(fn.Pos()), bad == "", bad)
}

// constEmission: fn (a repository function whose only result is an error) emits
// the same constant number of bytes on each of its success paths, counted from
// Malloc(n) with constant n and from the fixed-width primitive writers.
func constEmission(fn *ssa.Function, depth int) (int64, bool) {
	if fn == nil || fn.Blocks == nil || !inRepo(fn) || depth > 3 {
		return 0, false
	}
	res := fn.Signature.Results()
	if res.Len() != 1 || !isErrorType(res.At(0).Type()) {
		return 0, false
	}
	emit := func(c *ssa.Call) (int64, bool, bool) { // amount, emits, understood
		com := c.Common()
		if com.IsInvoke() {
			switch com.Method.Name() {
			case "Malloc":
				k, ok := constInt(com.Args[0])
				return k, true, ok
			case "WriteBinary", "Flush":
				return 0, true, false
			}
			return 0, false, true
		}
		cal := com.StaticCallee()
		if cal == nil || !inRepo(cal) {
			return 0, false, true
		}
		k, ok := constEmission(cal, depth+1)
		if ok {
			return k, k > 0, true
		}
		// a repository callee that takes a writer but is not understood
		for _, p := range cal.Params {
			if types.IsInterface(p.Type()) {
				return 0, true, false
			}
		}
		return 0, false, true
	}
	total := int64(-1)
	ok := true
	var walk func(b *ssa.BasicBlock, acc int64, seen map[*ssa.BasicBlock]bool)
	walk = func(b *ssa.BasicBlock, acc int64, seen map[*ssa.BasicBlock]bool) {
		if !ok || seen[b] {
			if seen[b] {
				ok = false // loops: not a constant emitter
			}
			return
		}
		seen[b] = true
		defer delete(seen, b)
		for _, in := range b.Instrs {
			if c, isC := in.(*ssa.Call); isC {
				k, emits, understood := emit(c)
				if !understood {
					ok = false
					return
				}
				if emits {
					acc += k
				}
			}
		}
		if ret, isRet := b.Instrs[len(b.Instrs)-1].(*ssa.Return); isRet {
			ev := ret.Results[0]
			if isKnownError(ev) {
				return
			}
			// error branches of `if err != nil { return err }`
			if in := ret; guardedNonNil(in, ev) {
				return
			}
			if total >= 0 && total != acc {
				ok = false
			}
			total = acc
			return
		}
		for _, s := range b.Succs {
			walk(s, acc, seen)
		}
	}
	walk(fn.Blocks[0], 0, map[*ssa.BasicBlock]bool{})
	if !ok || total < 0 {
		return 0, false
	}
	return total, true
}

// sectionsRule: ids and primitive sequences of encoder sections pair with the decoder.
func sectionsRule(P *Program, r *Result, wkv *ssa.Function) {
	rk := ttReadKV(P)
	if rk == nil {
		return
	}
	// the encoder as one token stream (helpers inlined, constant arguments followed through them)
	encTok := flatSeq(wkv, nil, 0, func(c *ssa.Call, constArg func(int) (int64, bool)) string {
		if cal := c.Common().StaticCallee(); cal != nil {
			switch cal.Name() {
			case "WriteByte":
				if k, ok := constArg(0); ok {
					return fmt.Sprintf("ID:%d", k)
				}
				return "Bytes2Uint8"
			case "WriteUint16":
				return "Bytes2Uint16"
			case "WriteString2BLen":
				return "ReadString2BLen"
			}
		}
		if c.Common().IsInvoke() && c.Common().Method.Name() == "Malloc" {
			return "STOP"
		}
		return ""
	})
	encSections := map[int64]string{}
	encPos := map[int64]token.Pos{}
	for i, t := range encTok {
		if !strings.HasPrefix(t.Tok, "ID:") {
			continue
		}
		var id int64
		fmt.Sscanf(t.Tok, "ID:%d", &id)
		var seq []string
		for _, u := range encTok[i+1:] {
			if strings.HasPrefix(u.Tok, "ID:") || u.Tok == "STOP" {
				break
			}
			seq = append(seq, u.Tok)
		}
		// drop an unmatched trailing "[" / leading "]" produced by the cut
		encSections[id] = balance(seq)
		encPos[id] = t.Pos
	}
	// decoder cases: constant → section reader
	decCases := map[int64]*ssa.Function{}
	for _, b := range rk.Blocks {
		for _, in := range b.Instrs {
			bo, ok := in.(*ssa.BinOp)
			if !ok || bo.Op != token.EQL {
				continue
			}
			k, okk := constInt(bo.Y)
			if !okk {
				continue
			}
			if _, seenCase := decCases[k]; !seenCase {
				decCases[k] = nil
			}
			for _, c := range callsIn(rk) {
				cal := c.Common().StaticCallee()
				if cal != nil && inRepo(cal) && hasBufferParams(cal) && inTrueRegion(c.(*ssa.Call).Block(), bo) {
					decCases[k] = cal
				}
			}
		}
	}
	if len(encSections) < 3 {
		r.fatal("expected 3 info ids emitted by writeKVInfo, found %d", len(encSections))
	}
	ids := make([]int64, 0, len(encSections))
	for k := range encSections {
		ids = append(ids, k)
	}
	sort.Slice(ids, func(i, j int) bool { return ids[i] < ids[j] })
	for _, id := range ids {
		reader, has := decCases[id]
		r.add("SECTIONS", shortName(wkv), "id", fmt.Sprintf("info id %#x emitted by the encoder is a case of the decoder", id), P.pos(encPos[id]), has && reader != nil, "")
		if reader == nil {
			continue
		}
		decTok := flatSeq(reader, nil, 0, func(c *ssa.Call, _ func(int) (int64, bool)) string {
			if cal := c.Common().StaticCallee(); cal != nil {
				switch cal.Name() {
				case "Bytes2Uint16", "ReadString2BLen", "Bytes2Uint8":
					return cal.Name()
				}
			}
			return ""
		})
		var ds []string
		for _, t := range decTok {
			ds = append(ds, t.Tok)
		}
		encSeq, decSeq := encSections[id], strings.Join(ds, " ")
		r.add("SECTIONS", shortName(reader), "sequence", fmt.Sprintf("section %#x: reads pair with the encoder's writes", id), P.pos(reader.Pos()), encSeq == decSeq && encSeq != "", "encoder "+encSeq+" / decoder "+decSeq)
	}
	// padding id 0 is accepted by the decoder
	_, pad := decCases[0]
	r.add("SECTIONS", shortName(rk), "id", "the padding id 0 is accepted between sections", P.pos(rk.Pos()), pad, "")
}

func hasBufferParams(fn *ssa.Function) bool {
	for _, p := range fn.Params {
		if isByteSlice(p.Type()) {
			return true
		}
	}
	return false
}

func balance(seq []string) string {
	var out []string
	depth := 0
	for _, t := range seq {
		switch t {
		case "[":
			depth++
		case "]":
			if depth == 0 {
				continue
			}
			depth--
		}
		out = append(out, t)
	}
	for depth > 0 {
		// remove the last unmatched "["
		for i := len(out) - 1; i >= 0; i-- {
			if out[i] == "[" {
				out = append(out[:i], out[i+1:]...)
				break
			}
		}
		depth--
	}
	return strings.Join(out, " ")
}

type seqTok struct {
	Tok string
	Pos token.Pos
}

// flatSeq renders the labelled calls of fn in reverse post-order with "[" "]"
// around loop bodies. Calls to repository helpers that themselves contain
// labelled calls are expanded in place; consts carries the constant values of fn's
// parameters so that a constant handed through a helper is still seen as one.
func flatSeq(fn *ssa.Function, consts map[*ssa.Parameter]int64, depth int, label func(c *ssa.Call, constArg func(int) (int64, bool)) string) []seqTok {
	if fn == nil || fn.Blocks == nil || depth > 3 {
		return nil
	}
	var order []*ssa.BasicBlock
	seen := map[*ssa.BasicBlock]bool{}
	var dfs func(b *ssa.BasicBlock)
	dfs = func(b *ssa.BasicBlock) {
		seen[b] = true
		for i := len(b.Succs) - 1; i >= 0; i-- {
			if !seen[b.Succs[i]] {
				dfs(b.Succs[i])
			}
		}
		order = append(order, b)
	}
	dfs(fn.Blocks[0])
	for i, j := 0, len(order)-1; i < j; i, j = i+1, j-1 {
		order[i], order[j] = order[j], order[i]
	}
	constOf := func(v ssa.Value) (int64, bool) {
		for {
			if k, ok := constInt(v); ok {
				return k, true
			}
			switch x := v.(type) {
			case *ssa.Convert:
				v = x.X
				continue
			case *ssa.ChangeType:
				v = x.X
				continue
			case *ssa.Parameter:
				k, ok := consts[x]
				return k, ok
			}
			return 0, false
		}
	}
	var out []seqTok
	inL := false
	for _, b := range order {
		for _, in := range b.Instrs {
			c, ok := in.(*ssa.Call)
			if !ok {
				continue
			}
			args := c.Common().Args
			l := label(c, func(i int) (int64, bool) {
				if i >= len(args) {
					return 0, false
				}
				return constOf(args[i])
			})
			var toks []seqTok
			if l != "" {
				toks = []seqTok{{l, c.Pos()}}
			} else if cal := c.Common().StaticCallee(); cal != nil && inRepo(cal) && cal != fn && !c.Common().IsInvoke() {
				sub := map[*ssa.Parameter]int64{}
				for i, p := range cal.Params {
					if i < len(args) {
						if k, ok := constOf(args[i]); ok {
							sub[p] = k
						}
					}
				}
				toks = flatSeq(cal, sub, depth+1, label)
			}
			if len(toks) == 0 {
				continue
			}
			loop := inLoop(b)
			if loop && !inL {
				out = append(out, seqTok{"[", c.Pos()})
				inL = true
			}
			if !loop && inL {
				out = append(out, seqTok{"]", c.Pos()})
				inL = false
			}
			out = append(out, toks...)
		}
	}
	if inL {
		out = append(out, seqTok{"]", token.NoPos})
	}
	return out
}

func init() {
	register("C10", "other", checkC10)
	register("C06", "other", checkC06)
}

// sameWidthSource strips conversions that keep every bit (named ↔ underlying
// type, signedness changes of equal width).
func sameWidthSource(v ssa.Value) ssa.Value {
	for {
		switch x := v.(type) {
		case *ssa.ChangeType:
			v = x.X
		case *ssa.Convert:
			w1, _ := intBits(x.Type())
			w2, _ := intBits(x.X.Type())
			if w1 == 0 || w1 != w2 {
				return v
			}
			v = x.X
		default:
			return v
		}
	}
}

// isDispatchedTag: v (through conversions) is compared with constants, i.e. it is the tag a switch dispatches on.
func isDispatchedTag(v ssa.Value) bool {
	if v == nil {
		return false
	}
	seen := map[ssa.Value]bool{}
	var walk func(x ssa.Value) bool
	walk = func(x ssa.Value) bool {
		if seen[x] {
			return false
		}
		seen[x] = true
		refs := x.Referrers()
		if refs == nil {
			return false
		}
		for _, r := range *refs {
			switch y := r.(type) {
			case *ssa.Convert:
				if walk(y) {
					return true
				}
			case *ssa.ChangeType:
				if walk(y) {
					return true
				}
			case *ssa.Phi:
				if walk(y) {
					return true
				}
			case *ssa.BinOp:
				if y.Op == token.EQL {
					if _, isC := y.Y.(*ssa.Const); isC {
						return true
					}
				}
			}
		}
		return false
	}
	return walk(v)
}

// internal anchors of the ttheader package, located from the exported entry points by signature
func ttProtoCheck(P *Program) *ssa.Function {
	return P.findReachable([]*ssa.Function{P.Func(relTT, "Decode")}, func(f *ssa.Function) bool {
		return sigIs(f, "(uint8)", "(error)")
	})
}

func ttReadKV(P *Program) *ssa.Function {
	return P.findReachable([]*ssa.Function{P.Func(relTT, "Decode")}, func(f *ssa.Function) bool {
		// by its results: the two maps and an error (the cursor may be an index into the buffer or an advancing sub-slice)
		res := f.Signature.Results()
		if res.Len() < 3 || !isErrorType(res.At(res.Len()-1).Type()) {
			return false
		}
		nm := 0
		for i := 0; i < res.Len(); i++ {
			if _, isMap := res.At(i).Type().Underlying().(*types.Map); isMap {
				nm++
			}
		}
		hasBuf := false
		for _, p := range f.Params {
			if isByteSlice(p.Type()) {
				hasBuf = true
			}
		}
		return nm == 2 && hasBuf
	})
}

func ttWriteKV(P *Program) *ssa.Function {
	return P.findReachable([]*ssa.Function{P.Func(relTT, "Encode")}, func(f *ssa.Function) bool {
		res := f.Signature.Results()
		if res.Len() != 2 || !isInteger(res.At(0).Type()) || !isErrorType(res.At(1).Type()) || len(f.Params) < 3 {
			return false
		}
		// (size so far, the two info maps, the writer) → (size, error)
		maps := 0
		for _, p := range f.Params {
			if _, ok := p.Type().Underlying().(*types.Map); ok {
				maps++
			}
		}
		return isInteger(f.Params[0].Type()) && maps == 2 && types.IsInterface(f.Params[len(f.Params)-1].Type())
	})
}

// isSectionReader: an unexported ttheader function that parses one info section:
// takes the cursor (*int), the buffer and the destination map.
func isSectionReader(f *ssa.Function) bool {
	if f == nil || f.Blocks == nil {
		return false
	}
	// the cursor as an advancing sub-slice: (buf, map) → (rest, error)
	if len(f.Params) == 2 && isByteSlice(f.Params[0].Type()) && f.Signature.Results().Len() == 2 && isByteSlice(f.Signature.Results().At(0).Type()) {
		_, isMap := f.Params[1].Type().Underlying().(*types.Map)
		return isMap
	}
	if len(f.Params) != 3 {
		return false
	}
	_, isPtr := f.Params[0].Type().Underlying().(*types.Pointer)
	_, isMap := f.Params[2].Type().Underlying().(*types.Map)
	// the cursor by reference, or by value with the next position handed back
	byValue := isPlainInt(f.Params[0].Type()) && f.Signature.Results().Len() >= 2 && isPlainInt(f.Signature.Results().At(0).Type())
	return (isPtr || byValue) && isByteSlice(f.Params[1].Type()) && isMap
}

// numHeadersRule: the pair count written in front of a key/value section equals
// the number of pairs the following loop emits: len(map), minus one exactly
// when the one key the loop leaves out is present in the map.
func numHeadersRule(P *Program, r *Result, cluster []*ssa.Function) {
	n := 0
	for _, wkv := range cluster {
		for _, b := range wkv.Blocks {
			for _, in := range b.Instrs {
				rg, ok := in.(*ssa.Range)
				if !ok {
					continue
				}
				if _, isMap := rg.X.Type().Underlying().(*types.Map); !isMap {
					continue
				}
				n++
				// the count: last 16-bit write that dominates the loop
				var cntCall *ssa.Call
				var cntVal ssa.Value
				for _, c := range callsIn(wkv) {
					cc, isCall := c.(*ssa.Call)
					if !isCall || !instrDominates(cc, rg) {
						continue
					}
					if v := uint16Written(cc, 0); v != nil {
						if cntCall == nil || instrDominates(cntCall, cc) {
							cntCall, cntVal = cc, v
						}
					}
				}
				if cntCall == nil {
					r.add("NUM-HEADERS", shortName(wkv), "loop", "a pair count is written before the pairs", P.pos(instrPos(rg)), false, "no 16-bit count write dominates the loop")
					continue
				}
				// keys the loop leaves out: `if key == K { continue }`
				var skipped []string
				var next *ssa.Next
				for _, ref := range *rg.Referrers() {
					if nx, ok := ref.(*ssa.Next); ok {
						next = nx
					}
				}
				if next != nil {
					for _, ref := range *next.Referrers() {
						ex, ok := ref.(*ssa.Extract)
						if !ok || ex.Index != 1 || ex.Referrers() == nil {
							continue
						}
						for _, r2 := range *ex.Referrers() {
							// `if key == K { continue }` or the body wrapped in `if key != K { … }`
							if bo, ok := r2.(*ssa.BinOp); ok && (bo.Op == token.EQL || bo.Op == token.NEQ) {
								if k, ok := bo.Y.(*ssa.Const); ok && k.Value != nil && k.Value.Kind() == constant.String {
									skipped = append(skipped, constant.StringVal(k.Value))
								}
							}
						}
					}
				}
				isLenOf := func(v ssa.Value) bool {
					l := builtinCall(stripConv(v), "len")
					return l != nil && l.Common().Args[0] == rg.X
				}
				cnt := stripConv(cntVal)
				ok2, detail := false, ""
				switch {
				case len(skipped) == 0:
					ok2 = isLenOf(cnt)
					if !ok2 {
						detail = "the count is not len(map) although every pair is written"
					}
				case len(skipped) == 1:
					// cnt = φ(len(m) − 1 on the path where K is present, len(m) otherwise)
					detail = "the count is not len(map) reduced by one exactly when the left-out key is present"
					if ph, isPhi := cnt.(*ssa.Phi); isPhi && len(ph.Edges) == 2 {
						okMinus, okPlain := false, false
						for i, e := range ph.Edges {
							pred := ph.Block().Preds[i]
							present, absent := false, false
							conds := blockConds(pred, nil, 0)
							if iff, isIf := pred.Instrs[len(pred.Instrs)-1].(*ssa.If); isIf && pred.Succs[0] != pred.Succs[1] {
								conds = append(conds, condImplies(iff.Cond, pred.Succs[0] == ph.Block(), 0)...)
							}
							for _, dc := range conds {
								ex, isEx := dc.Cond.(*ssa.Extract)
								if !isEx || ex.Index != 1 {
									continue
								}
								lk, isLk := ex.Tuple.(*ssa.Lookup)
								if !isLk || !lk.CommaOk || lk.X != rg.X {
									continue
								}
								if k, isC := lk.Index.(*ssa.Const); !isC || k.Value == nil || k.Value.Kind() != constant.String || constant.StringVal(k.Value) != skipped[0] {
									continue
								}
								if dc.Truth {
									present = true
								} else {
									absent = true
								}
							}
							if bo, isBo := e.(*ssa.BinOp); isBo && present {
								k, isC := constInt(bo.Y)
								if (bo.Op == token.SUB && isC && k == 1 || bo.Op == token.ADD && isC && k == -1) && isLenOf(bo.X) {
									okMinus = true
								}
							}
							if isLenOf(e) && absent {
								okPlain = true
							}
						}
						if okMinus && okPlain {
							ok2, detail = true, ""
						}
					}
				default:
					detail = "the loop leaves out more than one key"
				}
				r.add("NUM-HEADERS", shortName(wkv), "loop", "the pair count written before the loop equals the number of pairs the loop emits", P.pos(instrPos(cntCall)), ok2, detail)
			}
		}
	}
	if n < 2 {
		r.fatal("expected two key/value loops in the header writer, found %d", n)
	}
}

// uint16Written: the value call c hands to the 16-bit writer, directly or
// through a helper that passes one of its own parameters on.
func uint16Written(c *ssa.Call, depth int) ssa.Value {
	cal := c.Common().StaticCallee()
	if cal == nil || depth > 2 {
		return nil
	}
	if cal.Name() == "WriteUint16" && inRepo(cal) {
		return c.Common().Args[0]
	}
	if !inRepo(cal) || cal.Blocks == nil {
		return nil
	}
	for _, c2 := range callsIn(cal) {
		cc2, ok := c2.(*ssa.Call)
		if !ok {
			continue
		}
		if v := uint16Written(cc2, depth+1); v != nil {
			if p, ok := stripConv(v).(*ssa.Parameter); ok {
				for i, cp := range cal.Params {
					if cp == p && i < len(c.Common().Args) {
						return c.Common().Args[i]
					}
				}
			}
		}
	}
	return nil
}

// boolTableTrue: the indices at which an immutable package-level bool array
// (written only by the package initialiser, with constant indices) holds true.
func boolTableTrue(P *Program, g *ssa.Global) (map[int64]bool, bool) {
	arr, ok := deref(g.Type()).Underlying().(*types.Array)
	if !ok {
		return nil, false
	}
	if b, ok := arr.Elem().Underlying().(*types.Basic); !ok || b.Kind() != types.Bool {
		return nil, false
	}
	out := map[int64]bool{}
	for fn := range P.AllFuncs {
		if !inRepo(fn) || fn.Blocks == nil {
			continue
		}
		for _, b := range fn.Blocks {
			for _, in := range b.Instrs {
				var ops []*ssa.Value
				uses := false
				for _, op := range in.Operands(ops) {
					if *op == ssa.Value(g) {
						uses = true
					}
				}
				if !uses {
					continue
				}
				switch x := in.(type) {
				case *ssa.IndexAddr:
					// reads anywhere; writes only in init with constant index and value
					for _, ref := range *x.Referrers() {
						if st, isSt := ref.(*ssa.Store); isSt && st.Addr == ssa.Value(x) {
							if !isInitFunc(fn) {
								return nil, false
							}
							ic, ok1 := constInt(x.Index)
							vc, ok2 := st.Val.(*ssa.Const)
							if !ok1 || !ok2 || vc.Value == nil || vc.Value.Kind() != constant.Bool {
								return nil, false
							}
							if constant.BoolVal(vc.Value) {
								out[ic] = true
							}
						}
					}
				case *ssa.Store:
					if x.Addr != ssa.Value(g) || !isInitFunc(fn) {
						return nil, false
					}
					// whole-array initialisation from a literal built in a local
					ld, ok := x.Val.(*ssa.UnOp)
					if !ok {
						return nil, false
					}
					al, ok := ld.X.(*ssa.Alloc)
					if !ok {
						return nil, false
					}
					for _, ref := range *al.Referrers() {
						ia, isIA := ref.(*ssa.IndexAddr)
						if !isIA {
							continue
						}
						ic, ok1 := constInt(ia.Index)
						if !ok1 {
							return nil, false
						}
						for _, r2 := range *ia.Referrers() {
							if st, isSt := r2.(*ssa.Store); isSt {
								vc, ok2 := st.Val.(*ssa.Const)
								if !ok2 || vc.Value == nil || vc.Value.Kind() != constant.Bool {
									return nil, false
								}
								if constant.BoolVal(vc.Value) {
									out[ic] = true
								}
							}
						}
					}
				case *ssa.UnOp:
				default:
					return nil, false
				}
			}
		}
	}
	return out, len(out) > 0
}

// sizeThreadingCluster: root plus the repository functions it (transitively)
// calls that have the same shape — first parameter the running size, last
// parameter the writer, results (size, error).
func sizeThreadingCluster(root *ssa.Function) []*ssa.Function {
	shape := func(f *ssa.Function) bool {
		if f == nil || f.Blocks == nil || !inRepo(f) || len(f.Params) < 2 {
			return false
		}
		res := f.Signature.Results()
		return res.Len() == 2 && isInteger(res.At(0).Type()) && isErrorType(res.At(1).Type()) &&
			isInteger(f.Params[0].Type()) && types.Identical(f.Params[0].Type(), res.At(0).Type()) && types.IsInterface(f.Params[len(f.Params)-1].Type())
	}
	out := []*ssa.Function{root}
	seen := map[*ssa.Function]bool{root: true}
	for i := 0; i < len(out); i++ {
		for _, c := range callsIn(out[i]) {
			if cal := c.Common().StaticCallee(); shape(cal) && !seen[cal] {
				seen[cal] = true
				out = append(out, cal)
			}
		}
	}
	return out
}

// primCountRule: the callers of ReadString2BLen advance their cursor by its
// second result, so on every successful return that result is the two
// prefix bytes plus the length of the string handed back, and the string is
// the bytes right behind the prefix.
func primCountRule(P *Program, r *Result, rule string) {
	fn := P.Func(relTT, "ReadString2BLen")
	if !r.require("ttheader.ReadString2BLen", fn != nil) {
		return
	}
	if len(fn.Params) != 2 || fn.Signature.Results().Len() != 3 {
		r.fatal("ReadString2BLen: unexpected signature %s", fn.Signature)
	}
	r.Funcs[shortName(fn)] = true
	fa := newAnalysis(P).fa(fn)
	off := fa.expand(fn.Params[1])
	n := 0
	// a returned value seen through the merge of a single exit
	type path struct {
		vals []ssa.Value
		at   *ssa.BasicBlock
	}
	for _, ret := range returnsOf(fn) {
		var paths []path
		var phis []*ssa.Phi
		for _, v := range ret.Results {
			if ph, ok := v.(*ssa.Phi); ok && ph.Block() == ret.Block() {
				phis = append(phis, ph)
			}
		}
		if len(phis) == 0 {
			paths = []path{{ret.Results, ret.Block()}}
		} else {
			for i, pb := range ret.Block().Preds {
				var vs []ssa.Value
				for _, v := range ret.Results {
					if ph, ok := v.(*ssa.Phi); ok && ph.Block() == ret.Block() {
						v = ph.Edges[i]
					}
					vs = append(vs, v)
				}
				paths = append(paths, path{vs, pb})
			}
		}
		for _, p := range paths {
			if fa.prove(ineqGE(fa.nilExpand(p.vals[2]), linConst(1)), p.at, rootCtx) {
				continue
			}
			n++
			sv := p.vals[0]
			var d *SliceDesc
			if c, ok := sv.(*ssa.Const); ok && c.Value != nil && c.Value.Kind() == constant.String {
				d = &SliceDesc{Len: linConst(int64(len(constant.StringVal(c.Value))))}
			} else {
				if cv, ok := sv.(*ssa.Convert); ok {
					sv = cv.X
				}
				d = fa.sliceDesc(sv)
			}
			cnt := fa.expand(p.vals[1])
			ok := d != nil && d.Len != nil && fa.proveEq(cnt, d.Len.addConst(2), p.at)
			r.add(rule, shortName(fn), "count", "on success the count handed back is 2 + the length of the string (the callers advance their cursor by it)", P.pos(instrPos(ret)), ok, "")
			if d != nil && d.Root != nil {
				// the length is the big-endian 16-bit prefix at off
				okLen := false
				for _, c := range callsIn(fn) {
					cc, isCall := c.(*ssa.Call)
					cal := c.Common().StaticCallee()
					if !isCall || cal == nil {
						continue
					}
					args := c.Common().Args
					var lv ssa.Value
					switch {
					case inRepo(cal) && cal.Name() == "Bytes2Uint16" && len(args) == 2 && args[0] == ssa.Value(fn.Params[0]) && fa.proveEq(fa.expand(args[1]), off, p.at):
						lv = resultValue(cc, 0)
					case fnPkgPath(cal) == "encoding/binary" && cal.Name() == "Uint16" && len(args) == 2:
						if ad := fa.sliceDesc(args[1]); ad != nil && ad.Root == ssa.Value(fn.Params[0]) && ad.Off != nil && fa.proveEq(ad.Off, off, p.at) {
							lv = cc
						}
					}
					if lv != nil && (cc.Block() == p.at || cc.Block().Dominates(p.at)) && fa.proveEq(d.Len, fa.expand(lv), p.at) {
						okLen = true
					}
				}
				r.add(rule, shortName(fn), "length", "the string's length is the 16-bit prefix read at the offset given", P.pos(instrPos(ret)), okLen, "")
				okAt := d.Root == ssa.Value(fn.Params[0]) && d.Off != nil && fa.proveEq(d.Off, off.addConst(2), p.at)
				r.add(rule, shortName(fn), "bytes", "the string is the bytes right behind the two prefix bytes", P.pos(instrPos(ret)), okAt, "")
			}
		}
	}
	r.require("ReadString2BLen: a return that can succeed", n > 0)
}
