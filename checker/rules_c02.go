package main

// C02: every skipper consumes exactly one well-formed value.
//
// GRAMMAR: each of the three skip implementations (pointer-based skipType,
// BufferReader.skipType, the instances of SkipDecoderTpl.Skip) is enumerated
// path by path (loops 0/1/2 times); the sequence of consumption events on every
// successful path must be a sentence of the Thrift Binary value grammar for the
// type class the path is in, with every element skipped according to *its own*
// type tag (key ↔ first header byte, value ↔ second, …).

import (
	"fmt"
	"go/ast"
	"go/token"
	"go/types"
	"sort"
	"strings"

	"golang.org/x/tools/go/ssa"
)

// ---------- symbolic sums ----------

type gsum struct {
	c int64
	t map[string]int64
}

func gconst(c int64) gsum { return gsum{c: c} }
func gsym(s string) gsum  { return gsum{t: map[string]int64{s: 1}} }
func (a gsum) add(b gsum) gsum {
	r := gsum{c: a.c + b.c, t: map[string]int64{}}
	for k, v := range a.t {
		r.t[k] += v
	}
	for k, v := range b.t {
		r.t[k] += v
	}
	for k, v := range r.t {
		if v == 0 {
			delete(r.t, k)
		}
	}
	return r
}
func (a gsum) scale(n int64) gsum {
	r := gsum{c: a.c * n, t: map[string]int64{}}
	for k, v := range a.t {
		if v*n != 0 {
			r.t[k] = v * n
		}
	}
	return r
}
func (a gsum) sub(b gsum) gsum { return a.add(b.scale(-1)) }
func (a gsum) mul(b gsum) gsum {
	if len(a.t) == 0 {
		return b.scale(a.c)
	}
	if len(b.t) == 0 {
		return a.scale(b.c)
	}
	r := gconst(0)
	one := func(s string, k int64) gsum { return gsum{t: map[string]int64{s: k}} }
	for ka, va := range a.t {
		for kb, vb := range b.t {
			x, y := ka, kb
			if x > y {
				x, y = y, x
			}
			r = r.add(one("MUL("+x+","+y+")", va*vb))
		}
		if b.c != 0 {
			r = r.add(one(ka, va*b.c))
		}
	}
	if a.c != 0 {
		r = r.add(b.scale(a.c)).sub(gconst(a.c * b.c))
	}
	return r
}
func (a gsum) String() string {
	var ks []string
	for k := range a.t {
		ks = append(ks, k)
	}
	sort.Strings(ks)
	var parts []string
	if a.c != 0 || len(ks) == 0 {
		parts = append(parts, fmt.Sprint(a.c))
	}
	for _, k := range ks {
		if a.t[k] == 1 {
			parts = append(parts, k)
		} else {
			parts = append(parts, fmt.Sprintf("%d·%s", a.t[k], k))
		}
	}
	return strings.Join(parts, "+")
}
func (a gsum) isSym() (string, bool) {
	if a.c == 0 && len(a.t) == 1 {
		for k, v := range a.t {
			if v == 1 {
				return k, true
			}
		}
	}
	return "", false
}

// ---------- events ----------

type gEvent struct {
	Kind string // H (fixed header bytes), HF (field header via ReadFieldBegin), E (one element), N (raw amount)
	Form string // E: FIX STR REC
	X    string // E: type variable the element is skipped as
	Amt  gsum   // H, N
	Pos  token.Pos
	Lits []string // literals established when the event happened
}

func (e gEvent) has(l string) bool {
	for _, x := range e.Lits {
		if x == l {
			return true
		}
	}
	return false
}

func (e gEvent) String() string {
	switch e.Kind {
	case "H":
		return "H" + e.Amt.String()
	case "HF":
		return "HF"
	case "E":
		return e.Form + "(" + e.X + ")"
	}
	return "N[" + e.Amt.String() + "]"
}

type gPath struct {
	Events []gEvent
	Lits   []string
	Ret    gsum // stylePtr: the count returned on this path
}

func (p gPath) has(l string) bool {
	for _, x := range p.Lits {
		if x == l {
			return true
		}
	}
	return false
}

// ---------- the per-style interpreter ----------

type skipStyle int

const (
	stylePtr    skipStyle = iota // func(p unsafe.Pointer, e uintptr, t TType, depth int) (int, error)
	styleStream                  // func (r *BufferReader) skipType(t TType, depth int) error
	styleTpl                     // func (p SkipDecoderTpl[T]) Skip(t TType, depth int) error
)

// skipInterp enumerates the successful paths of one skipper. Calls to other
// functions of the repository that take part in the walk (string helpers,
// extracted element helpers, …) are expanded in place, so the result does not
// depend on how the skipper is cut into functions.
type skipInterp struct {
	P      *Program
	root   *ssa.Function
	style  skipStyle
	npaths int
	nsym   int
	bad    string
}

// frame is one activation: the function, what its parameters stand for.
type frame struct {
	fn     *ssa.Function
	tbind  map[*ssa.Parameter]string // parameters that are type tags
	ibind  map[*ssa.Parameter]gsum   // integer parameters
	pparam *ssa.Parameter            // stylePtr: the cursor
	depth  int
}

type gEnv struct {
	phi map[*ssa.Phi]gsum
	res map[*ssa.Call]gsum // length result of a call already accounted for
}

func (e *gEnv) clone() *gEnv {
	c := &gEnv{phi: map[*ssa.Phi]gsum{}, res: map[*ssa.Call]gsum{}}
	for k, v := range e.phi {
		c.phi[k] = v
	}
	for k, v := range e.res {
		c.res[k] = v
	}
	return c
}

func stripConv(v ssa.Value) ssa.Value {
	for {
		switch x := v.(type) {
		case *ssa.Convert:
			v = x.X
		case *ssa.ChangeType:
			v = x.X
		default:
			return v
		}
	}
}

func isUnsafeAdd(v ssa.Value) *ssa.Call {
	c, ok := v.(*ssa.Call)
	if !ok {
		return nil
	}
	if b, ok := c.Common().Value.(*ssa.Builtin); ok && b.Name() == "Add" {
		return c
	}
	return nil
}

func isTagType(t types.Type) bool {
	b, ok := t.Underlying().(*types.Basic)
	return ok && (b.Kind() == types.Int8 || b.Kind() == types.Uint8)
}

// ptrOff: offset of a pointer expression relative to the frame's cursor parameter.
func (I *skipInterp) ptrOff(v ssa.Value, fr *frame, env *gEnv) (gsum, bool) {
	v = stripConv(v)
	if fr.pparam != nil && v == ssa.Value(fr.pparam) {
		return gconst(0), true
	}
	if a := isUnsafeAdd(v); a != nil {
		base, ok := I.ptrOff(a.Common().Args[0], fr, env)
		if !ok {
			return gsum{}, false
		}
		return base.add(I.eval(a.Common().Args[1], fr, env)), true
	}
	return gsum{}, false
}

func (I *skipInterp) isSkipN(c *ssa.Call) bool {
	com := c.Common()
	if com.IsInvoke() {
		return com.Method.Name() == "SkipN"
	}
	cal := com.StaticCallee()
	return cal != nil && baseName(cal) == "SkipN" && cal.Signature.Recv() != nil
}

// regionOf: v is the byte slice returned by SkipN(n) with constant n.
func (I *skipInterp) regionOf(v ssa.Value) (int64, bool) {
	ex, ok := v.(*ssa.Extract)
	if !ok || ex.Index != 0 {
		return 0, false
	}
	c, ok := ex.Tuple.(*ssa.Call)
	if !ok || !I.isSkipN(c) {
		return 0, false
	}
	return constInt(c.Common().Args[len(c.Common().Args)-1])
}

// wrapsInvoke: fn's body contains exactly one call of the interface method
// `method`, whose first argument is fn's own parameter k.
func wrapsInvoke(fn *ssa.Function, method string) (int, bool) {
	if fn == nil || fn.Blocks == nil {
		return 0, false
	}
	k, n := -1, 0
	for _, c := range callsIn(fn) {
		if !isInvokeOf(c, method) {
			if cal := c.Common().StaticCallee(); cal != nil && inRepo(cal) && cal.Blocks != nil && cal != fn {
				// a repository call inside: not a thin wrapper unless it is pure error construction
				if len(cal.Params) > 0 && cal.Signature.Recv() != nil {
					return 0, false
				}
			}
			continue
		}
		n++
		if len(c.Common().Args) == 0 {
			return 0, false
		}
		for i, p := range fn.Params {
			if ssa.Value(p) == c.Common().Args[0] {
				k = i
			}
		}
	}
	return k, n == 1 && k >= 0
}

// tvar names a type-tag value canonically: t (the skipper's type argument),
// h0/h1 (bytes 0/1 of a container header), f (type byte of a struct field header).
func (I *skipInterp) tvar(v ssa.Value, fr *frame, env *gEnv) string {
	v = stripConv(v)
	if p, ok := v.(*ssa.Parameter); ok {
		if n, ok := fr.tbind[p]; ok {
			return n
		}
	}
	switch x := v.(type) {
	case *ssa.UnOp:
		if x.Op != token.MUL {
			break
		}
		if I.style == stylePtr {
			// constness is judged on the expression, not on the value it happens to have on this path
			if off, ok := I.ptrOff(x.X, fr, &gEnv{phi: map[*ssa.Phi]gsum{}, res: map[*ssa.Call]gsum{}}); ok {
				if len(off.t) == 0 {
					return fmt.Sprintf("h%d", off.c)
				}
				return "f"
			}
		}
		if ia, ok := x.X.(*ssa.IndexAddr); ok {
			if n, ok := I.regionOf(ia.X); ok {
				k, isC := constInt(ia.Index)
				if isC && n == 1 && k == 0 {
					return "f"
				}
				if isC {
					return fmt.Sprintf("h%d", k)
				}
			}
		}
	case *ssa.Extract:
		if c, ok := x.Tuple.(*ssa.Call); ok {
			if cal := c.Common().StaticCallee(); cal != nil {
				switch cal.Name() {
				case "ReadMapBegin":
					if x.Index <= 1 {
						return fmt.Sprintf("h%d", x.Index)
					}
				case "ReadListBegin", "ReadSetBegin":
					if x.Index == 0 {
						return "h0"
					}
				case "ReadFieldBegin":
					if x.Index == 0 {
						return "f"
					}
				}
			}
		}
	case *ssa.Phi:
		names := map[string]bool{}
		for _, e := range x.Edges {
			if e != ssa.Value(x) {
				names[I.tvar(e, fr, env)] = true
			}
		}
		if len(names) == 1 {
			for n := range names {
				return n
			}
		}
	}
	return "?" + v.Name()
}

// eval renders an integer value as a symbolic sum.
func (I *skipInterp) eval(v ssa.Value, fr *frame, env *gEnv) gsum {
	switch x := v.(type) {
	case *ssa.Const:
		if k, ok := constInt(x); ok {
			return gconst(k)
		}
	case *ssa.Parameter:
		if s, ok := fr.ibind[x]; ok {
			return s
		}
	case *ssa.Convert:
		return I.eval(x.X, fr, env)
	case *ssa.ChangeType:
		return I.eval(x.X, fr, env)
	case *ssa.Phi:
		if s, ok := env.phi[x]; ok {
			return s
		}
	case *ssa.BinOp:
		switch x.Op {
		case token.ADD:
			return I.eval(x.X, fr, env).add(I.eval(x.Y, fr, env))
		case token.SUB:
			return I.eval(x.X, fr, env).sub(I.eval(x.Y, fr, env))
		case token.MUL:
			return I.eval(x.X, fr, env).mul(I.eval(x.Y, fr, env))
		}
	case *ssa.UnOp:
		if x.Op == token.MUL {
			// typeToSize[uint8(tag)]
			if ia, ok := x.X.(*ssa.IndexAddr); ok {
				if g, ok := ia.X.(*ssa.Global); ok && isSizeTable(I.P, g) {
					return gsym("FIX(" + I.tvar(ia.Index, fr, env) + ")")
				}
			}
		}
	case *ssa.Extract:
		if c, ok := x.Tuple.(*ssa.Call); ok {
			if s, ok := env.res[c]; ok && x.Index == 0 {
				return s
			}
			if cal := c.Common().StaticCallee(); cal != nil {
				switch {
				case cal.Name() == "ReadMapBegin" && x.Index == 2:
					return gsym("W@2")
				case (cal.Name() == "ReadListBegin" || cal.Name() == "ReadSetBegin") && x.Index == 1:
					return gsym("W@1")
				case cal.Name() == "ReadI32" && x.Index == 0:
					return gsym("W@0")
				}
			}
		}
	case *ssa.Call:
		com := x.Common()
		if s, ok := env.res[x]; ok {
			return s
		}
		if cal := com.StaticCallee(); cal != nil {
			// the fixed-size table written as a function: one tag parameter, every return a constant
			if isSizeFunc(cal) && len(com.Args) == 1 {
				return gsym("FIX(" + I.tvar(com.Args[0], fr, env) + ")")
			}
			// a 32-bit big-endian load through a raw pointer (signature func(unsafe.Pointer) int32)
			if inRepo(cal) && len(com.Args) == 1 && isUnsafePointer(com.Args[0].Type()) && isInteger(x.Type()) {
				if off, ok := I.ptrOff(com.Args[0], fr, env); ok && len(off.t) == 0 {
					return gsym(fmt.Sprintf("W@%d", off.c))
				}
			}
			if n := isBigEndianGet(cal); n == 4 || (isWordReader(cal) && isByteSlice(com.Args[0].Type())) {
				arg := com.Args[len(com.Args)-1]
				off := int64(0)
				if sl, ok := arg.(*ssa.Slice); ok {
					if sl.Low != nil {
						off, _ = constInt(sl.Low)
					}
					arg = sl.X
				}
				if _, ok := I.regionOf(arg); ok {
					return gsym(fmt.Sprintf("W@%d", off))
				}
			}
		}
	}
	return gsym("?" + v.Name())
}

// isSizeTable: a package-level [256]int8-like array of the thrift package indexed by a tag.
func isSizeTable(P *Program, g *ssa.Global) bool {
	arr, ok := deref(g.Type()).Underlying().(*types.Array)
	return ok && arr.Len() == 256 && g.Pkg != nil && g.Pkg.Pkg.Path() == modPath+"/"+relThrift
}

// literals renders a branch decision canonically.
func (I *skipInterp) literals(cond ssa.Value, taken bool, fr *frame, env *gEnv) []string {
	var out []string
	for _, dc := range condImplies(cond, taken, 0) {
		bo, ok := dc.Cond.(*ssa.BinOp)
		if !ok {
			continue
		}
		switch bo.Op {
		case token.EQL, token.NEQ:
			k, isC := constInt(bo.Y)
			if !isC || !isTagType(stripConv(bo.X).Type()) {
				continue
			}
			tv := I.tvar(bo.X, fr, env)
			if strings.HasPrefix(tv, "?") {
				continue
			}
			if (bo.Op == token.EQL) == dc.Truth {
				out = append(out, fmt.Sprintf("%s=%d", tv, k))
			} else {
				out = append(out, fmt.Sprintf("%s!=%d", tv, k))
			}
		case token.GTR, token.LSS, token.LEQ, token.GEQ:
			x, y, op := bo.X, bo.Y, bo.Op
			// normalise  0 < x  /  x > 0  /  x >= 1 ...
			if k, isC := constInt(x); isC && k == 0 && (op == token.LSS || op == token.GEQ) {
				x, y = y, x
				if op == token.LSS {
					op = token.GTR
				} else {
					op = token.LEQ
				}
			}
			if k, isC := constInt(y); isC && k == 0 && (op == token.GTR || op == token.LEQ) {
				if s, ok := I.eval(x, fr, env).isSym(); ok && strings.HasPrefix(s, "FIX(") {
					if (op == token.GTR) == dc.Truth {
						out = append(out, s+">0")
					} else {
						out = append(out, s+"<=0")
					}
					continue
				}
			}
			// the same loop counting down: left := bound; left > 0; left--
			if k, isC := constInt(y); isC && k == 0 && (op == token.GTR || op == token.LEQ) {
				if ph, ok := stripConv(x).(*ssa.Phi); ok {
					if init := countdownInit(ph); init != nil {
						bound := I.eval(init, fr, env)
						if (op == token.GTR) == dc.Truth {
							out = append(out, "iter:"+bound.String())
						} else {
							out = append(out, "done:"+bound.String())
						}
						continue
					}
				}
			}
			// loop continuation j < bound (or bound > j), with j a counter starting at 0 and stepping by 1
			cnt, bnd := bo.X, bo.Y
			cont := bo.Op == token.LSS
			if bo.Op == token.GTR {
				cnt, bnd, cont = bo.Y, bo.X, true
			}
			if cont {
				if ph, ok := stripConv(cnt).(*ssa.Phi); ok && isCounter(ph) {
					bound := I.eval(bnd, fr, env)
					if dc.Truth {
						out = append(out, "iter:"+bound.String())
					} else {
						out = append(out, "done:"+bound.String())
					}
				}
			}
		}
	}
	return out
}

// countdownInit: phi [init, phi−1] → init.
func countdownInit(ph *ssa.Phi) ssa.Value {
	if len(ph.Edges) != 2 {
		return nil
	}
	for i := 0; i < 2; i++ {
		bo, ok := ph.Edges[i].(*ssa.BinOp)
		if !ok || bo.X != ssa.Value(ph) {
			continue
		}
		k, isC := constInt(bo.Y)
		if isC && ((bo.Op == token.SUB && k == 1) || (bo.Op == token.ADD && k == -1)) {
			return ph.Edges[1-i]
		}
	}
	return nil
}

// isCounter: phi [0, phi+1].
func isCounter(ph *ssa.Phi) bool {
	if len(ph.Edges) != 2 {
		return false
	}
	zero, step := false, false
	for _, e := range ph.Edges {
		if k, ok := constInt(e); ok && k == 0 {
			zero = true
		}
		if bo, ok := e.(*ssa.BinOp); ok && bo.Op == token.ADD && bo.X == ssa.Value(ph) {
			if k, ok := constInt(bo.Y); ok && k == 1 {
				step = true
			}
		}
	}
	return zero && step
}

func negLit(l string) string {
	switch {
	case strings.HasSuffix(l, ">0"):
		return strings.TrimSuffix(l, ">0") + "<=0"
	case strings.HasSuffix(l, "<=0"):
		return strings.TrimSuffix(l, "<=0") + ">0"
	case strings.Contains(l, "!="):
		return strings.Replace(l, "!=", "=", 1)
	case strings.Contains(l, "=") && !strings.HasPrefix(l, "iter") && !strings.HasPrefix(l, "done"):
		return strings.Replace(l, "=", "!=", 1)
	}
	return ""
}

// isKnownError: v certainly denotes a non-nil error (so the path is not a success path).
func isKnownError(v ssa.Value) bool {
	switch x := v.(type) {
	case *ssa.UnOp:
		if x.Op == token.MUL {
			_, isG := x.X.(*ssa.Global)
			return isG
		}
	case *ssa.Call:
		if cal := x.Common().StaticCallee(); cal != nil && strings.HasPrefix(cal.Name(), "NewProtocolException") {
			return true
		}
		if cal := x.Common().StaticCallee(); cal != nil && neverNilResult(cal) {
			return true // errors.New, fmt.Errorf, repository constructors that always allocate
		}
	case *ssa.MakeInterface:
		return true
	case *ssa.ChangeInterface:
		return isKnownError(x.X)
	}
	return false
}

type walkState struct {
	b      *ssa.BasicBlock
	idx    int
	env    *gEnv
	events []gEvent
	lits   []string
	seen   map[*ssa.BasicBlock]int
	cur    gsum // stylePtr: bytes accounted for so far
	errs   map[ssa.Value]bool
}

func (st walkState) fork() walkState {
	ns := st
	ns.env = st.env.clone()
	ns.events = append([]gEvent{}, st.events...)
	ns.lits = append([]string{}, st.lits...)
	ns.seen = map[*ssa.BasicBlock]int{}
	for k, v := range st.seen {
		ns.seen[k] = v
	}
	ns.errs = map[ssa.Value]bool{}
	for k, v := range st.errs {
		ns.errs[k] = v
	}
	return ns
}

func lastEq11(lits []string) string {
	for i := len(lits) - 1; i >= 0; i-- {
		if strings.HasSuffix(lits[i], "=11") && !strings.Contains(lits[i], "!=") {
			return strings.TrimSuffix(lits[i], "=11")
		}
	}
	return "?"
}

func (st *walkState) emit(e gEvent) {
	e.Lits = append([]string{}, st.lits...)
	st.events = append(st.events, e)
}

// emitGap accounts for the bytes between what has been accounted for and upto.
func (st *walkState) emitGap(upto gsum, pos token.Pos) {
	gap := upto.sub(st.cur)
	if gap.c != 0 {
		st.emit(gEvent{Kind: "H", Amt: gconst(gap.c), Pos: pos})
	}
	rest := gsum{t: map[string]int64{}}
	var fix []string
	for k, v := range gap.t {
		if strings.HasPrefix(k, "FIX(") && v == 1 {
			fix = append(fix, k)
		} else {
			rest.t[k] = v
		}
	}
	sort.Strings(fix)
	for _, k := range fix {
		st.emit(gEvent{Kind: "E", Form: "FIX", X: strings.TrimSuffix(strings.TrimPrefix(k, "FIX("), ")"), Pos: pos})
	}
	if len(rest.t) > 0 {
		st.emit(gEvent{Kind: "N", Amt: rest, Pos: pos})
	}
	st.cur = upto
}

// run enumerates the successful paths of the root skipper.
func (I *skipInterp) run(tparam *ssa.Parameter) []gPath {
	fr := &frame{fn: I.root, tbind: map[*ssa.Parameter]string{}, ibind: map[*ssa.Parameter]gsum{}}
	if tparam != nil {
		fr.tbind[tparam] = "t"
	}
	if I.style == stylePtr {
		for _, p := range I.root.Params {
			if isUnsafePointer(p.Type()) {
				fr.pparam = p
				break
			}
		}
	}
	return I.paths(fr)
}

// paths enumerates the successful paths of one activation.
func (I *skipInterp) paths(fr *frame) []gPath {
	var out []gPath
	fn := fr.fn
	if fn.Blocks == nil || fr.depth > 4 {
		I.bad = "cannot expand " + fn.Name()
		return nil
	}
	var walk func(st walkState)
	walk = func(st walkState) {
		if I.npaths > 300000 {
			I.bad = "too many paths"
			return
		}
		for st.idx < len(st.b.Instrs) {
			in := st.b.Instrs[st.idx]
			st.idx++
			if bo, isBo := in.(*ssa.BinOp); isBo && I.style == stylePtr && bo.Op == token.ADD && isPlainInt(bo.Type()) {
				// an addition onto the running cursor: account for the addend in program order
				for _, pair := range [][2]ssa.Value{{bo.X, bo.Y}, {bo.Y, bo.X}} {
					d := I.eval(pair[0], fr, st.env).sub(st.cur)
					if len(d.t) == 0 && d.c >= 0 {
						if _, isConst := pair[0].(*ssa.Const); isConst && d.c > 0 {
							continue
						}
						st.emitGap(I.eval(bo, fr, st.env), bo.Pos())
						break
					}
				}
				continue
			}
			c, ok := in.(*ssa.Call)
			if !ok {
				continue
			}
			forks, handled := I.onCall(&st, fr, c)
			if handled && forks != nil {
				for _, ns := range forks {
					walk(ns)
				}
				return
			}
		}
		last := st.b.Instrs[len(st.b.Instrs)-1]
		if ret, ok := last.(*ssa.Return); ok {
			ev := ret.Results[len(ret.Results)-1]
			if isErrorType(ev.Type()) && (isKnownError(ev) || st.errs[ev]) {
				return
			}
			p := gPath{Lits: st.lits}
			if I.style == stylePtr && len(ret.Results) == 2 {
				tot := I.eval(ret.Results[0], fr, st.env)
				st.emitGap(tot, ret.Pos())
				p.Ret = tot
			}
			I.npaths++
			p.Events = normEvents(st.events)
			out = append(out, p)
			return
		}
		if _, ok := last.(*ssa.Panic); ok {
			return
		}
		iff, isIf := last.(*ssa.If)
		for si, s := range st.b.Succs {
			if st.seen[s] >= 3 {
				continue
			}
			ns := st.fork()
			ns.b, ns.idx = s, 0
			ns.seen[s]++
			if s.Dominates(st.b) {
				// a loop comes round: the per-iteration field tag is read afresh
				var keep []string
				for _, l := range ns.lits {
					if strings.HasPrefix(l, "f=") || strings.HasPrefix(l, "f!=") || strings.HasPrefix(l, "FIX(f)") {
						continue
					}
					keep = append(keep, l)
				}
				ns.lits = keep
			}
			if isIf && st.b.Succs[0] != st.b.Succs[1] {
				// error tests: the non-nil side is not a success path
				skip := false
				for _, dc := range condImplies(iff.Cond, si == 0, 0) {
					if bo, ok := dc.Cond.(*ssa.BinOp); ok && (isNilConst(bo.X) || isNilConst(bo.Y)) {
						v := bo.X
						if isNilConst(v) {
							v = bo.Y
						}
						if isErrorType(v.Type()) && (bo.Op == token.NEQ) == dc.Truth {
							skip = true
						}
					}
				}
				if skip {
					continue
				}
				contradiction := false
				for _, l := range I.literals(iff.Cond, si == 0, fr, st.env) {
					if n := negLit(l); n != "" {
						for _, old := range ns.lits {
							if old == n {
								contradiction = true
							}
						}
					}
					ns.lits = append(ns.lits, l)
				}
				if contradiction {
					continue
				}
			}
			idx := -1
			for i, p := range s.Preds {
				if p == st.b {
					idx = i
				}
			}
			for _, in := range s.Instrs {
				ph, ok := in.(*ssa.Phi)
				if !ok {
					break
				}
				if isInteger(ph.Type()) {
					ns.env.phi[ph] = I.eval(ph.Edges[idx], fr, st.env)
				}
				if isErrorType(ph.Type()) {
					if isKnownError(ph.Edges[idx]) || st.errs[ph.Edges[idx]] {
						ns.errs[ph] = true
					}
				}
			}
			walk(ns)
		}
	}
	walk(walkState{b: fn.Blocks[0], env: &gEnv{phi: map[*ssa.Phi]gsum{}, res: map[*ssa.Call]gsum{}}, seen: map[*ssa.BasicBlock]int{fn.Blocks[0]: 1}, cur: gconst(0), errs: map[ssa.Value]bool{}})
	return out
}

// subFrame binds the parameters of callee to the caller's argument values.
func (I *skipInterp) subFrame(fr *frame, env *gEnv, callee *ssa.Function, args []ssa.Value) *frame {
	sub := &frame{fn: callee, tbind: map[*ssa.Parameter]string{}, ibind: map[*ssa.Parameter]gsum{}, depth: fr.depth + 1}
	for i, p := range callee.Params {
		if i >= len(args) {
			break
		}
		switch {
		case isUnsafePointer(p.Type()) && sub.pparam == nil && I.style == stylePtr:
			sub.pparam = p
		case isTagType(p.Type()):
			sub.tbind[p] = I.tvar(args[i], fr, env)
		case isInteger(p.Type()):
			sub.ibind[p] = I.eval(args[i], fr, env)
		}
	}
	return sub
}

// splice continues st once per successful path of an expanded callee.
func (I *skipInterp) splice(st *walkState, c *ssa.Call, subs []gPath, self bool, selfTag string) []walkState {
	var forks []walkState
	for _, sp := range subs {
		ns := st.fork()
		// literals first (they guard the events of the callee)
		contradiction := false
		for _, l := range sp.Lits {
			if n := negLit(l); n != "" {
				for _, old := range ns.lits {
					if old == n {
						contradiction = true
					}
				}
			}
			ns.lits = append(ns.lits, l)
		}
		if contradiction {
			continue
		}
		evs := sp.Events
		if len(evs) == 2 && evs[0].String() == "H4" && evs[1].String() == "N[W@0]" {
			// 4-byte length followed by that many bytes: one string
			ns.emit(gEvent{Kind: "E", Form: "STR", X: lastEq11(ns.lits), Pos: c.Pos()})
		} else {
			for _, e := range evs {
				ns.events = append(ns.events, e)
			}
		}
		forks = append(forks, ns)
	}
	return forks
}

// onCall interprets one call. It returns handled=true with the continuation
// states when the call forks the walk (expanded helper); handled=false or nil
// forks mean the walk simply goes on in st.
func (I *skipInterp) onCall(st *walkState, fr *frame, c *ssa.Call) ([]walkState, bool) {
	com := c.Common()
	cal := com.StaticCallee()
	args := com.Args
	newSym := func() gsum {
		I.nsym++
		return gsym(fmt.Sprintf("R#%d", I.nsym))
	}
	switch I.style {
	case stylePtr:
		// the cursor is the callee's pointer argument (the first one; a receiver carrying the end address may precede it)
		pi := -1
		for i, a := range args {
			if isUnsafePointer(a.Type()) {
				pi = i
				break
			}
		}
		if cal == nil || !inRepo(cal) || cal.Blocks == nil || pi < 0 || pi > 1 {
			return nil, false
		}
		res := cal.Signature.Results()
		if res.Len() != 2 || !isErrorType(res.At(1).Type()) {
			return nil, false // e.g. the raw 32-bit load helper
		}
		off, ok := I.ptrOff(args[pi], fr, st.env)
		if !ok {
			I.bad = "cursor argument of " + cal.Name() + " is not an offset from the cursor"
			return nil, false
		}
		if d := off.sub(st.cur); len(d.t) != 0 || d.c < 0 {
			I.bad = fmt.Sprintf("%s is called at offset %s while %s bytes have been accounted for", cal.Name(), off.String(), st.cur.String())
		}
		st.emitGap(off, c.Pos())
		sym := newSym()
		if cal == I.root {
			tag := "?"
			for i, p := range cal.Params {
				if isTagType(p.Type()) && i < len(args) {
					tag = I.tvar(args[i], fr, st.env)
				}
			}
			st.emit(gEvent{Kind: "E", Form: "REC", X: tag, Pos: c.Pos()})
			st.env.res[c] = sym
			st.cur = off.add(sym)
			return nil, true
		}
		subs := I.paths(I.subFrame(fr, st.env, cal, args))
		forks := I.splice(st, c, subs, false, "")
		for i := range forks {
			forks[i].env.res[c] = sym
			forks[i].cur = off.add(sym)
		}
		return forks, true
	case styleStream:
		if cal == nil || cal.Signature.Recv() == nil || len(args) == 0 || args[0] != ssa.Value(fr.fn.Params[0]) {
			if com.IsInvoke() {
				switch com.Method.Name() {
				case "Next", "Skip", "ReadBinary", "Peek":
					I.bad = "direct reader call " + com.Method.Name() + " in the skipper"
				}
			}
			return nil, false
		}
		switch {
		case cal == I.root:
			st.emit(gEvent{Kind: "E", Form: "REC", X: I.tvar(args[1], fr, st.env), Pos: c.Pos()})
		case cal.Name() == "ReadMapBegin":
			st.emit(gEvent{Kind: "H", Amt: gconst(6), Pos: c.Pos()})
		case cal.Name() == "ReadListBegin" || cal.Name() == "ReadSetBegin":
			st.emit(gEvent{Kind: "H", Amt: gconst(5), Pos: c.Pos()})
		case cal.Name() == "ReadFieldBegin":
			st.emit(gEvent{Kind: "HF", Pos: c.Pos()})
		case cal.Name() == "ReadI32":
			st.emit(gEvent{Kind: "H", Amt: gconst(4), Pos: c.Pos()})
		default:
			if k, ok := wrapsInvoke(cal, "Skip"); ok {
				st.emit(gEvent{Kind: "N", Amt: I.eval(args[k], fr, st.env), Pos: c.Pos()})
				return nil, true
			}
			if cal.Blocks != nil && inRepo(cal) && !ast.IsExported(cal.Name()) {
				subs := I.paths(I.subFrame(fr, st.env, cal, args))
				return I.splice(st, c, subs, false, ""), true
			}
			if strings.HasPrefix(cal.Name(), "Read") || strings.HasPrefix(cal.Name(), "Skip") {
				I.bad = "unexpected consuming call " + cal.Name()
			}
		}
		return nil, true
	case styleTpl:
		switch {
		case I.isSkipN(c):
			st.emit(gEvent{Kind: "N", Amt: I.eval(args[len(args)-1], fr, st.env), Pos: c.Pos()})
		case cal != nil && cal == I.root:
			st.emit(gEvent{Kind: "E", Form: "REC", X: I.tvar(args[1], fr, st.env), Pos: c.Pos()})
		case cal != nil && inRepo(cal) && cal.Blocks != nil && cal.Signature.Recv() != nil && len(args) > 0 && args[0] == ssa.Value(fr.fn.Params[0]) && !ast.IsExported(baseName(cal)):
			subs := I.paths(I.subFrame(fr, st.env, cal, args))
			return I.splice(st, c, subs, false, ""), true
		}
		return nil, true
	}
	return nil, false
}

// normEvents merges adjacent constant amounts and turns single-FIX amounts into element events.
func normEvents(ev []gEvent) []gEvent {
	var out []gEvent
	for _, e := range ev {
		if e.Kind == "N" {
			if len(e.Amt.t) == 0 {
				e.Kind = "H"
			} else if s, ok := e.Amt.isSym(); ok && strings.HasPrefix(s, "FIX(") {
				e = gEvent{Kind: "E", Form: "FIX", X: strings.TrimSuffix(strings.TrimPrefix(s, "FIX("), ")"), Pos: e.Pos, Lits: e.Lits}
			}
		}
		if e.Kind == "H" && len(out) > 0 && out[len(out)-1].Kind == "H" {
			out[len(out)-1].Amt = out[len(out)-1].Amt.add(e.Amt)
			continue
		}
		out = append(out, e)
	}
	return out
}

// ---------- the grammar ----------

// validatePath checks one successful path against the value grammar. It
// returns "" or a description of the first deviation.
func validatePath(p gPath, style skipStyle) string {
	class := ""
	for _, l := range p.Lits {
		switch l {
		case "t=11", "t=12", "t=13", "t=14", "t=15":
			class = l[2:]
		case "FIX(t)>0":
			if class == "" {
				class = "fixed"
			}
		}
	}
	ev := p.Events
	elemOK := func(e gEvent, role string) string {
		if e.Kind != "E" {
			return "expected one element of type " + role + ", found " + e.String()
		}
		if e.X != role {
			return fmt.Sprintf("an element whose type tag is %s is skipped as %s", role, e.String())
		}
		switch e.Form {
		case "FIX":
			if !e.has("FIX(" + role + ")>0") {
				return "fixed-size skip of " + role + " without establishing that its size is positive"
			}
		case "STR":
			if !e.has(role + "=11") {
				return "string skip of " + role + " without establishing that it is STRING"
			}
		}
		return ""
	}
	iters := 0
	bound := ""
	done := false
	for _, l := range p.Lits {
		if strings.HasPrefix(l, "iter:") {
			iters++
			bound = l[5:]
		}
		if strings.HasPrefix(l, "done:") {
			done = true
			bound = l[5:]
		}
	}
	hdr := func(n int64) bool {
		return len(ev) > 0 && ev[0].Kind == "H" && len(ev[0].Amt.t) == 0 && ev[0].Amt.c == n
	}
	switch class {
	case "fixed":
		if len(ev) != 1 {
			return fmt.Sprintf("fixed-size type: events %v", ev)
		}
		return elemOK(ev[0], "t")
	case "11":
		if len(ev) == 1 && ev[0].Kind == "E" && ev[0].Form == "STR" && ev[0].X == "t" {
			return ""
		}
		if len(ev) == 2 && hdr(4) && ev[1].Kind == "N" && ev[1].Amt.String() == "W@0" {
			return ""
		}
		return fmt.Sprintf("STRING: expected 4-byte length then that many bytes, found %v", ev)
	case "13":
		if !hdr(6) {
			return fmt.Sprintf("MAP: expected a 6-byte header first, found %v", ev)
		}
		rest := ev[1:]
		if iters == 0 && !done {
			// fast path
			want := "MUL(FIX(h0),W@2)+MUL(FIX(h1),W@2)"
			if len(rest) == 1 && rest[0].Kind == "N" && rest[0].Amt.String() == want && p.has("FIX(h0)>0") && p.has("FIX(h1)>0") {
				return ""
			}
			return fmt.Sprintf("MAP fast path: expected size×(key size + value size) under both sizes positive, found %v with %v", rest, p.Lits)
		}
		if bound != "W@2" {
			return "MAP: the element loop is bounded by " + bound + ", not by the size word of the header"
		}
		if len(rest) != 2*iters {
			return fmt.Sprintf("MAP: %d loop iteration(s) skip %d element(s): %v", iters, len(rest), rest)
		}
		for i := 0; i < iters; i++ {
			if d := elemOK(rest[2*i], "h0"); d != "" {
				return "MAP key: " + d
			}
			if d := elemOK(rest[2*i+1], "h1"); d != "" {
				return "MAP value: " + d
			}
		}
		return ""
	case "14", "15":
		if !hdr(5) {
			return fmt.Sprintf("LIST/SET: expected a 5-byte header first, found %v", ev)
		}
		rest := ev[1:]
		if iters == 0 && !done {
			if len(rest) == 1 && rest[0].Kind == "N" && rest[0].Amt.String() == "MUL(FIX(h0),W@1)" && p.has("FIX(h0)>0") {
				return ""
			}
			return fmt.Sprintf("LIST/SET fast path: expected size×element size under a positive size, found %v with %v", rest, p.Lits)
		}
		if bound != "W@1" {
			return "LIST/SET: the element loop is bounded by " + bound + ", not by the size word of the header"
		}
		if len(rest) != iters {
			return fmt.Sprintf("LIST/SET: %d loop iteration(s) skip %d element(s): %v", iters, len(rest), rest)
		}
		for i := 0; i < iters; i++ {
			if d := elemOK(rest[i], "h0"); d != "" {
				return "LIST/SET element: " + d
			}
		}
		return ""
	case "12":
		// (H3 E(f))* H1   or   (HF E(f))* HF
		i := 0
		for i < len(ev) {
			last := i == len(ev)-1
			e := ev[i]
			if style == styleStream {
				if e.Kind != "HF" {
					return fmt.Sprintf("STRUCT: expected a field header, found %s in %v", e.String(), ev)
				}
			} else {
				want := int64(3)
				if last {
					want = 1
				}
				if e.Kind != "H" || e.Amt.c != want {
					return fmt.Sprintf("STRUCT: expected a %d-byte field header, found %s in %v", want, e.String(), ev)
				}
			}
			if last {
				if !p.has("f=0") {
					return "STRUCT: the walk ends without having seen STOP"
				}
				return ""
			}
			if i+1 >= len(ev) {
				break
			}
			if d := elemOK(ev[i+1], "f"); d != "" {
				return "STRUCT field: " + d
			}
			i += 2
		}
		return fmt.Sprintf("STRUCT: malformed event sequence %v", ev)
	}
	return fmt.Sprintf("a successful path is in no type class: literals %v, events %v", p.Lits, ev)
}

func checkC02(P *Program, r *Result, tier string) {
	r.Explanation = "GRAMMAR (every successful path of each skipper — loops taken 0, 1, 2 times — consumes a sentence of the Thrift Binary value grammar for its type class, each element skipped by its own type tag: fixed size only under size>0 of that tag, string skip only under tag==STRING, recursion with that tag; container loops bounded by the header's size word; fast paths consume size×element size), " +
		"DEPTH (every recursive call passes exactly its own depth minus one per nesting level, entries start at 64: values nested up to the limit are accepted, wide ones too), TIGHT (no success return of the pointer-based skipper requires a byte beyond what it consumes: values ending exactly at the end of the buffer are accepted), ACCUM (each decoder's SkipN hands out exactly the next n bytes after the bytes already accumulated and advances the counter by n on success only; the counter restarts at 0 whenever a new value or input begins), " +
		"DECODER-BYTES (Next returns exactly the accumulated window), IOREADER (ReaderSkipDecoder.SkipN can never read past the n bytes asked for)."
	type target struct {
		fn     *ssa.Function
		style  skipStyle
		tparam *ssa.Parameter
	}
	var targets []target
	// anchors: the exported entry points; the recursive workers are found from them by signature
	pubSkip := P.Method(relThrift, "BinaryProtocol", "Skip")
	strmSkip := P.Method(relThrift, "BufferReader", "Skip")
	tpls := P.Instances(relThrift, "SkipDecoderTpl", "Skip")
	if !r.require("thrift.BinaryProtocol.Skip, BufferReader.Skip", pubSkip != nil && strmSkip != nil) || !r.require("three instances of SkipDecoderTpl.Skip", len(tpls) >= 3) {
		return
	}
	tagParam := func(fn *ssa.Function) *ssa.Parameter {
		for i, p := range fn.Params {
			if i == 0 && fn.Signature.Recv() != nil {
				continue
			}
			if isTagType(p.Type()) {
				return p
			}
		}
		return nil
	}
	worker := func(entry *ssa.Function) *ssa.Function {
		// the recursive function the entry point delegates to (itself if it recurses directly)
		for _, c := range callsIn(entry) {
			cal := c.Common().StaticCallee()
			if cal == nil || !inRepo(cal) || cal.Blocks == nil || tagParam(cal) == nil {
				continue
			}
			for _, c2 := range callsIn(cal) {
				if c2.Common().StaticCallee() == cal {
					return cal
				}
			}
			// recursion through a helper
			for _, f := range P.reachable([]*ssa.Function{cal}, func(f *ssa.Function) bool { return !inRepo(f) }) {
				for _, c2 := range callsIn(f) {
					if c2.Common().StaticCallee() == cal && f != entry {
						return cal
					}
				}
			}
		}
		return nil
	}
	ptr, strm := worker(pubSkip), worker(strmSkip)
	if !r.require("the recursive workers behind BinaryProtocol.Skip and BufferReader.Skip", ptr != nil && strm != nil) {
		return
	}
	targets = append(targets, target{ptr, stylePtr, tagParam(ptr)}, target{strm, styleStream, tagParam(strm)})
	for _, t := range tpls {
		targets = append(targets, target{t, styleTpl, tagParam(t)})
	}
	for _, t := range targets {
		fn := t.fn
		r.Funcs[shortName(fn)] = true
		I := &skipInterp{P: P, root: fn, style: t.style}
		paths := I.run(t.tparam)
		classes := map[string]int{}
		bad := 0
		for _, p := range paths {
			d := validatePath(p, t.style)
			cls := "?"
			for _, l := range p.Lits {
				if strings.HasPrefix(l, "t=") || l == "FIX(t)>0" {
					cls = l
				}
			}
			classes[cls]++
			if d != "" && bad < 3 {
				bad++
				pos := P.pos(fn.Pos())
				for _, e := range p.Events {
					if e.Pos.IsValid() {
						pos = P.pos(e.Pos)
					}
				}
				r.add("GRAMMAR", shortName(fn), "path", "a successful path consumes exactly one value", pos, false, d+fmt.Sprintf(" [path: %s]", strings.Join(p.Lits, " ")))
			} else if d != "" {
				bad++
			}
		}
		var cl []string
		for k, n := range classes {
			cl = append(cl, fmt.Sprintf("%s:%d", k, n))
		}
		sort.Strings(cl)
		okAll := bad == 0 && I.bad == "" && len(paths) > 0
		for _, need := range []string{"FIX(t)>0", "t=11", "t=12", "t=13", "t=14", "t=15"} {
			if classes[need] == 0 {
				okAll = false
				I.bad = "no successful path for class " + need
			}
		}
		r.add("GRAMMAR", shortName(fn), "paths", fmt.Sprintf("all %d successful paths (%s) are sentences of the value grammar", len(paths), strings.Join(cl, " ")), P.pos(fn.Pos()), okAll, I.bad)
	}
	// ---- DEPTH: the recursion budget is spent per nesting level, not per element ----
	var dscope []*ssa.Function
	for _, t := range targets {
		dscope = append(dscope, t.fn)
	}
	if recs := depthRules(P, r, newAnalysis(P), dscope); recs < 5 {
		r.fatal("expected 5 recursive skipper bodies, found %d", recs)
	}
	// ---- a well-formed value is not refused: every error the skippers make themselves answers one of the conditions
	// the grammar knows (input too short, negative size, unknown type tag, depth exhausted), and says so ----
	{
		A := newAnalysis(P)
		nrej := 0
		for _, fn := range dscope {
			if fn == nil || fn.Blocks == nil || isGenericOrigin(fn) {
				continue
			}
			ei := errIndex(fn)
			if ei < 0 {
				continue
			}
			fa := A.fa(fn)
			fa.noGeneralize = true
			for _, ret := range returnsOf(fn) {
				ev := ret.Results[ei]
				t, known := exceptionTypeOf(P, ev)
				if !known {
					continue // nil, a callee's error handed on, a wrapped source error
				}
				nrej++
				classify := func(pb, b *ssa.BasicBlock) (string, string) {
					var cls, why string
					if pb == nil {
						cls, why = causeClass(P, fa, b)
					} else {
						cls, why = causeClassEdge(P, fa, pb, b)
					}
					if cls == "" || cls == "NEG" {
						if c2 := rejectClassExtra(pb, b); c2 != "" {
							cls, why = c2, ""
						}
					}
					return cls, why
				}
				cls, why := classify(nil, ret.Block())
				if cls == "" && why == "join" {
					// "a || b → error": every way in is one of the known conditions, all of the same class
					for i, pb := range ret.Block().Preds {
						c, w := classify(pb, ret.Block())
						if i == 0 {
							cls, why = c, w
						} else if c != cls {
							cls, why = "", "the ways into this return answer different conditions"
						}
					}
				}
				ok := cls != "" && cls != "CALLEE-ERR" && cls != "TAG" && cls != "VERSION" && classWants[cls] == t
				detail := ""
				if !ok {
					detail = fmt.Sprintf("the %s exception is returned under a condition of class %q %s", excName[t], cls, why)
				}
				r.add("GRAMMAR", shortName(fn), "reject", "an error made by the skipper answers a short input, a negative size, an unknown tag or an exhausted depth, with the matching exception type", P.pos(instrPos(ret)), ok, detail)
			}
		}
		if nrej < 5 {
			r.fatal("expected the skippers' own error returns, found %d", nrej)
		}
	}
	// ---- TIGHT ----
	var spanFns []*ssa.Function
	for _, f := range P.reachable([]*ssa.Function{pubSkip}, func(f *ssa.Function) bool { return !inRepo(f) }) {
		for i, p := range f.Params {
			if isUnsafePointer(p.Type()) && i+1 < len(f.Params) {
				spanFns = append(spanFns, f)
				break
			}
		}
	}
	spanFns = append(spanFns, pubSkip)
	// with the contracts of the span skippers (signs of the helper results) inferred first
	trun := newE1(P, spanFns, e1Config{StrictLen: true, Wrap: false})
	trun.run()
	if debugContracts {
		for _, l := range trun.contractSummary() {
			fmt.Println("CONTRACT", l)
		}
	}
	tightRulesA(P, r, "TIGHT", spanFns, trun.A)
	beLoadRule(P, r, "GRAMMAR")
	// "for any fragmentation of the stream": the stream skippers and decoders rest on the buffered reader handing
	// them exactly the bytes asked for — the reader rules of C04 are re-run here
	{
		tmp := newResult(r.Prop)
		checkC04(P, tmp, tier)
		r.Fatal = append(r.Fatal, tmp.Fatal...)
		for _, o := range tmp.Obls {
			o.Rule = r.Prop + "/STREAM-" + o.Rule[strings.Index(o.Rule, "/")+1:]
			r.Obls = append(r.Obls, o)
			r.Funcs[o.Func] = true
		}
	}
	c02Decoders(P, r)
}

func init() {
	register("C02", "other", checkC02)
}

// ---------- decoders ----------

type retCase struct {
	ret     *ssa.Return
	at      ssa.Instruction // instruction whose block decides guards (last instr of the incoming pred, or the return)
	results []ssa.Value
	pred    int // index of the incoming edge, -1 when the return block has no phis
}

// retCases splits a return whose results are phis of its own block per incoming edge.
func retCases(fn *ssa.Function) []retCase {
	var out []retCase
	for _, ret := range returnsOf(fn) {
		b := ret.Block()
		split := false
		for _, v := range ret.Results {
			if ph, ok := v.(*ssa.Phi); ok && ph.Block() == b {
				split = true
			}
		}
		if !split || len(b.Preds) < 2 {
			out = append(out, retCase{ret: ret, at: ret, results: ret.Results, pred: -1})
			continue
		}
		for i, p := range b.Preds {
			rc := retCase{ret: ret, at: p.Instrs[len(p.Instrs)-1], pred: i}
			for _, v := range ret.Results {
				if ph, ok := v.(*ssa.Phi); ok && ph.Block() == b {
					rc.results = append(rc.results, ph.Edges[i])
				} else {
					rc.results = append(rc.results, v)
				}
			}
			out = append(out, rc)
		}
	}
	return out
}

// caseConds: the branch conditions under which a way out is taken — those that dominate the block it leaves from,
// plus the deciding branch when the way out is itself one arm of an If.
func caseConds(rc retCase) []domCond {
	out := blockConds(rc.at.Block(), nil, 0)
	if iff, ok := rc.at.(*ssa.If); ok && rc.pred >= 0 {
		b := iff.Block()
		if b.Succs[0] != b.Succs[1] {
			out = append(out, condImplies(iff.Cond, b.Succs[0] == rc.ret.Block(), 0)...)
		}
	}
	return out
}

// caseGuardedBy: the way out is only taken when cond has the given truth.
func caseGuardedBy(rc retCase, cond ssa.Value, truth bool) bool {
	if guardedBy(rc.at, cond, truth) {
		return true
	}
	for _, dc := range caseConds(rc) {
		if dc.Cond == cond && dc.Truth == truth {
			return true
		}
	}
	return false
}

// retEdgeCases: one return seen once per incoming edge of its block (whatever its results are): rules about the
// memory state at a shared exit judge each way into it.
func retEdgeCases(ret *ssa.Return) []retCase {
	b := ret.Block()
	if len(b.Preds) < 2 {
		return []retCase{{ret: ret, at: ret, results: ret.Results, pred: -1}}
	}
	var out []retCase
	for i, p := range b.Preds {
		rc := retCase{ret: ret, at: p.Instrs[len(p.Instrs)-1], pred: i}
		for _, v := range ret.Results {
			if ph, ok := v.(*ssa.Phi); ok && ph.Block() == b {
				rc.results = append(rc.results, ph.Edges[i])
			} else {
				rc.results = append(rc.results, v)
			}
		}
		out = append(out, rc)
	}
	return out
}

// retCasesErr is retCases, but a return is split only when its *error* result is a join formed in the return block
// itself (the single-exit style); other joined results stay as they are and are reasoned about where the return is.
func retCasesErr(fn *ssa.Function) []retCase {
	var out []retCase
	for _, rc := range retCases(fn) {
		if rc.pred < 0 {
			out = append(out, rc)
			continue
		}
		ret := rc.ret
		ev := ret.Results[len(ret.Results)-1]
		if ph, ok := ev.(*ssa.Phi); ok && ph.Block() == ret.Block() {
			out = append(out, rc)
			continue
		}
		if rc.pred == 0 {
			out = append(out, retCase{ret: ret, at: ret, results: ret.Results, pred: -1})
		}
	}
	return out
}

// cellAtCase: value of receiver int field at the return, on the given incoming edge.
func cellAtCase(fa *FA, rc retCase, field string) *Lin {
	key := "P:" + fa.fn.Params[0].Name() + "." + field
	ver := fa.mem.versionAt(rc.ret, key)
	if ver == nil {
		return cellIntEntry(fa, field)
	}
	if rc.pred >= 0 && ver.Kind == mPhi && ver.Block == rc.ret.Block() {
		if in := fa.mem.phiIncoming(ver, rc.pred); in != nil {
			return fa.cellValue(in, fa.mem.keyType[key])
		}
	}
	return fa.cellValue(ver, fa.mem.keyType[key])
}

func caseSuccess(rc retCase) (success, known bool) {
	ev := rc.results[len(rc.results)-1]
	if isNilConst(ev) {
		return true, true
	}
	if isKnownError(ev) {
		return false, true
	}
	if guardedNil(rc.at, ev) {
		return true, true
	}
	if guardedNonNil(rc.at, ev) {
		return false, true
	}
	// the incoming edge itself may be the deciding branch
	if iff, ok := rc.at.(*ssa.If); ok && rc.pred >= 0 {
		b := iff.Block()
		truth := b.Succs[0] == rc.ret.Block()
		if b.Succs[0] != b.Succs[1] {
			for _, dc := range condImplies(iff.Cond, truth, 0) {
				if bo, ok := dc.Cond.(*ssa.BinOp); ok && (bo.X == ev || bo.Y == ev) && (isNilConst(bo.X) || isNilConst(bo.Y)) {
					return (bo.Op == token.EQL) == dc.Truth, true
				}
			}
		}
	}
	return false, false
}

// propagatedError: ev is (a phi over) the error result of calls made by the function.
func propagatedError(ev ssa.Value, depth int) bool {
	if depth > 4 {
		return false
	}
	switch x := ev.(type) {
	case *ssa.Extract:
		_, isCall := x.Tuple.(*ssa.Call)
		return isCall
	case *ssa.Phi:
		for _, e := range x.Edges {
			if isNilConst(e) || e == ssa.Value(x) {
				continue
			}
			if !propagatedError(e, depth+1) {
				return false
			}
		}
		return true
	}
	return false
}

func c02Decoders(P *Program, r *Result) {
	A := newAnalysis(P)
	if debugContracts {
		for _, t := range P.Instances(relThrift, "SkipDecoderTpl", "Skip") {
			fmt.Println("EFFECTS", t.String())
			for _, e := range globalEffects.of(t) {
				fmt.Printf("   %+v\n", e)
			}
		}
		for _, n := range []string{"SkipDecoder", "BytesSkipDecoder", "ReaderSkipDecoder"} {
			f := P.Method(relThrift, n, "SkipN")
			fmt.Println("EFFECTS", f.String())
			for _, e := range globalEffects.of(f) {
				fmt.Printf("   %+v\n", e)
			}
		}
	}
	A.ifaceLenEqParam["Peek"] = true
	A.ifaceLenEqParam["Next"] = true
	type dec struct {
		typ, counter, backing string
	}
	for _, d := range []dec{{"SkipDecoder", "rn", ""}, {"BytesSkipDecoder", "n", "b"}, {"ReaderSkipDecoder", "n", "b"}} {
		sk := P.Method(relThrift, d.typ, "SkipN")
		nx := P.Method(relThrift, d.typ, "Next")
		if !r.require("thrift."+d.typ+".SkipN/Next", sk != nil && nx != nil) {
			continue
		}
		r.Funcs[shortName(sk)] = true
		r.Funcs[shortName(nx)] = true
		fa := A.fa(sk)
		fa.ensureInvariants()
		n := fa.expand(sk.Params[1])
		c0 := cellIntEntry(fa, d.counter)
		if !r.require(d.typ+".SkipN: counter field "+d.counter, c0 != nil) {
			continue
		}
		nSucc, nFail := 0, 0
		for _, rc := range retCases(sk) {
			succ, known := caseSuccess(rc)
			blk := rc.at.Block()
			c1 := cellAtCase(fa, rc, d.counter)
			if !known && propagatedError(rc.results[len(rc.results)-1], 0) {
				// the reader's own error is handed on: treated as the failure exit
				succ, known = false, true
			}
			if !known {
				r.add("ACCUM", shortName(sk), "return", "every return is classified as success or failure", P.pos(instrPos(rc.ret)), false, "error result "+rc.results[len(rc.results)-1].Name()+" is neither nil nor known non-nil here")
				continue
			}
			if succ {
				nSucc++
				r.add("ACCUM", shortName(sk), "advance", "on success the counter advances by exactly n", P.pos(instrPos(rc.ret)), c1 != nil && fa.proveEq(c1, c0.add(n), blk), "counter at return: "+A.linString(c1))
				sd := fa.sliceDesc(rc.results[0])
				okW, detail := false, "returned slice not understood"
				if sd != nil {
					okLen := fa.proveEq(sd.Len, n, blk)
					okOff := fa.proveEq(sd.Off, c0, blk)
					okW = okLen && okOff
					detail = fmt.Sprintf("offset %s, length %s", A.linString(sd.Off), A.linString(sd.Len))
					// … and lies inside the *length* of what it is sliced from when that is the decoder's own byte
					// slice (capacity beyond the length holds nothing of the input): a strict prefix must fail instead
					if okW && d.typ == "BytesSkipDecoder" {
						if root, isLd := sd.Root.(*ssa.UnOp); isLd && root.Op == token.MUL && recvFieldOf(sk, root.X) == d.backing {
							if bd := fa.sliceDesc(root); bd != nil && !fa.prove(ineqLE(sd.Off.add(sd.Len), bd.Len), blk, rootCtx) {
								okW = false
								detail = "the window is not known to end inside len(" + d.backing + "): bytes beyond the input would be taken for a value that is cut short"
							}
						}
					}
				}
				r.add("ACCUM", shortName(sk), "window", "on success the returned slice is the n bytes following the bytes already accumulated", P.pos(instrPos(rc.ret)), okW, detail)
			} else {
				nFail++
				r.add("ACCUM", shortName(sk), "keep", "on failure the counter is unchanged", P.pos(instrPos(rc.ret)), c1 != nil && fa.proveEq(c1, c0, blk), "counter at return: "+A.linString(c1))
			}
		}
		r.add("ACCUM", shortName(sk), "cases", "SkipN has both a success and a failure exit", P.pos(sk.Pos()), nSucc >= 1 && nFail >= 1, fmt.Sprintf("%d success, %d failure", nSucc, nFail))
		// the backing of the returned window
		switch d.typ {
		case "SkipDecoder":
			var peek *ssa.Call
			for _, c := range callsIn(sk) {
				if isInvokeOf(c, "Peek") {
					peek, _ = c.(*ssa.Call)
				}
			}
			if r.require("SkipDecoder.SkipN: Peek call", peek != nil) {
				amt := fa.expand(peek.Common().Args[0])
				r.add("ACCUM", shortName(sk), "peek", "peeks exactly the accumulated bytes plus n (nothing is consumed from the reader yet)", P.pos(instrPos(peek)), amt.equal(c0.add(n)), A.linString(amt))
				consuming := 0
				for _, c := range callsIn(sk) {
					if isInvokeOf(c, "Next") || isInvokeOf(c, "Skip") || isInvokeOf(c, "ReadBinary") {
						consuming++
					}
				}
				r.add("ACCUM", shortName(sk), "peek", "SkipN itself never consumes from the reader", P.pos(sk.Pos()), consuming == 0, "")
			}
		case "ReaderSkipDecoder":
			// IOREADER
			nread := 0
			for _, c := range callsIn(sk) {
				if isInvokeOf(c, "Read") {
					nread++
				}
			}
			r.require("ReaderSkipDecoder.SkipN: call of io.Reader.Read", nread > 0)
			// ROOM: what SkipN slices lies inside the buffer's *length* (not merely its capacity): every function of the
			// decoder that is asked for room for n more bytes returns with len(b) − counter ≥ n, itself or through
			// another such function called with the same n
			{
				roomFns := map[*ssa.Function]bool{}
				var collect func(f *ssa.Function, depth int)
				collect = func(f *ssa.Function, depth int) {
					if depth > 3 {
						return
					}
					for _, c := range callsIn(f) {
						cal := c.Common().StaticCallee()
						if cal == nil || !inRepo(cal) || cal.Blocks == nil || roomFns[cal] || cal == sk {
							continue
						}
						if len(cal.Params) == 2 && cal.Signature.Recv() != nil && isPlainInt(cal.Params[1].Type()) && cal.Signature.Results().Len() == 0 &&
							len(c.Common().Args) == 2 && c.Common().Args[0] == ssa.Value(f.Params[0]) {
							roomFns[cal] = true
							collect(cal, depth+1)
						}
					}
				}
				collect(sk, 0)
				nroom := 0
				for g := range roomFns {
					ga := A.fa(g)
					for _, c := range callsIn(g) {
						if cc, ok := c.(*ssa.Call); ok {
							ga.externalAllocFacts(cc)
						}
					}
					ga.ensureInvariants()
					want := ga.expand(g.Params[1])
					for _, ret := range returnsOf(g) {
						nroom++
						okRoom, why := false, ""
						// delegated to another room function with the same n, nothing stored in between
						for _, c := range callsIn(g) {
							cc, isCall := c.(*ssa.Call)
							if !isCall || !roomFns[c.Common().StaticCallee()] || !instrDominates(cc, ret) {
								continue
							}
							if len(cc.Common().Args) == 2 && cc.Common().Args[0] == ssa.Value(g.Params[0]) && cc.Common().Args[1] == ssa.Value(g.Params[1]) {
								clean := true
								for _, st := range append(storesTo(g, d.backing), storesTo(g, d.counter)...) {
									if instrDominates(cc, st) {
										clean = false
									}
								}
								if clean {
									okRoom = true
								}
							}
						}
						if !okRoom {
							bd := cellSliceAt(ga, ret, d.backing)
							nc := cellIntAt(ga, ret, d.counter)
							if bd != nil && nc != nil && ga.prove(ineqLE(nc.add(want), bd.Len), ret.Block(), rootCtx) {
								okRoom = true
							} else {
								why = "at this return the buffer's length is not known to cover the accumulated bytes plus n (capacity beyond the length does not hold the bytes accumulated so far)"
							}
						}
						r.add("IOREADER", shortName(g), "room", "returns with len(buffer) − accumulated ≥ n", P.pos(instrPos(ret)), okRoom, why)
					}
				}
				r.require("ReaderSkipDecoder: a room-making function called by SkipN", nroom > 0)
			}
			for _, c := range callsIn(sk) {
				if !isInvokeOf(c, "Read") {
					continue
				}
				cc := c.(*ssa.Call)
				sd := fa.sliceDesc(cc.Common().Args[0])
				ok, detail := false, "argument not understood"
				if sd != nil {
					// window end = offset + len must be entry counter + n
					end := sd.Off.add(sd.Len)
					ok = fa.proveEq(end, c0.add(n), cc.Block())
					detail = "window ends at " + A.linString(end)
				}
				r.add("IOREADER", shortName(sk), "read", "the slice handed to io.Reader.Read ends exactly n bytes after the accumulated bytes: nothing beyond the value can be consumed", P.pos(instrPos(cc)), ok, detail)
				// … and starts right after the bytes already read for this request (fragments are placed one after the other)
				okStart, dStart := false, "start offset not understood"
				if sd != nil {
					rel := sd.Off.sub(c0)
					dStart = "each read starts at " + A.linString(rel) + " past the window start, which is not the running count of bytes read"
					if id, isAtom := singleAtom(rel); isAtom {
						if a := A.at(id); a.Phi != nil {
							nn := resultValue(cc, 0)
							zero, step := false, false
							for i := range a.Phi.Block.Preds {
								in := a.Phi.In(i)
								if in.isConst() && in.C.Sign() == 0 {
									zero = true
								}
								if nn != nil && in.equal(rel.add(fa.expand(nn))) {
									step = true
								}
							}
							if zero && step {
								okStart, dStart = true, ""
							}
						}
					}
				}
				r.add("IOREADER", shortName(sk), "read", "every read continues where the previous fragment ended", P.pos(instrPos(cc)), okStart, dStart)
				// … and, like io.ReadFull, an error of the source matters only while bytes are missing: every
				// return that may hand back an error is taken with (count including the last fragment) < n
				if sd != nil {
					rel := sd.Off.sub(c0)
					nn := resultValue(cc, 0)
					okFull, dFull := nn != nil, "read count not understood"
					for _, rc := range retCases(sk) {
						if !okFull {
							break
						}
						ev := rc.results[len(rc.results)-1]
						if isNilConst(ev) {
							continue
						}
						ctx := rootCtx
						blk := rc.at.Block()
						if iff, isIf := rc.at.(*ssa.If); isIf && rc.pred >= 0 {
							ef := &edgeFacts{}
							fa.edgeCond(iff.Block(), rc.ret.Block(), ef)
							ctx = rootCtx.with(ef.ineq, ef.neq)
						}
						// a return inside the iteration that made this read must count the fragment just read;
						// elsewhere the running count (the loop's phi) is current
						total := rel
						if cc.Block().Dominates(blk) {
							total = rel.add(fa.expand(nn))
						} else if _, isAtom := singleAtom(rel); !isAtom {
							continue
						}
						if !fa.prove(ineqLT(total, n), blk, ctx) {
							okFull = false
							dFull = "the return at " + P.pos(instrPos(rc.ret)) + " may report the source's error although all n bytes have arrived (data delivered together with io.EOF)"
						}
					}
					if okFull {
						dFull = ""
					}
					r.add("IOREADER", shortName(sk), "read", "a source error is reported only while bytes are missing (io.ReadFull semantics)", P.pos(instrPos(cc)), okFull, dFull)
				}
			}
		}
		// ---- Next ----
		fn := nx
		fan := A.fa(fn)
		fan.ensureInvariants()
		var skip *ssa.Call
		for _, c := range callsIn(fn) {
			if cal := c.Common().StaticCallee(); cal != nil && baseName(cal) == "Skip" && strings.Contains(cal.String(), "SkipDecoderTpl") {
				skip, _ = c.(*ssa.Call)
			}
		}
		// ... possibly through a one-line helper shared by the decoders: h(d, t) = NewSkipDecoderTpl(d).Skip(t, depth)
		viaHelper := false
		if skip == nil {
			for _, c := range callsIn(fn) {
				h := c.Common().StaticCallee()
				cc, isCall := c.(*ssa.Call)
				if !isCall || h == nil || !inRepo(h) || h.Blocks == nil || len(h.Params) != 2 || len(c.Common().Args) != 2 {
					continue
				}
				ret := singleReturn(h)
				if ret == nil || len(h.Blocks) != 1 || len(ret.Results) != 1 {
					continue
				}
				inner := asCall(ret.Results[0])
				if inner == nil || inner.Common().StaticCallee() == nil || baseName(inner.Common().StaticCallee()) != "Skip" || !strings.Contains(inner.Common().StaticCallee().String(), "SkipDecoderTpl") {
					continue
				}
				mk := asCall(inner.Common().Args[0])
				if mk == nil || mk.Common().StaticCallee() == nil || baseName(mk.Common().StaticCallee()) != "NewSkipDecoderTpl" || mk.Common().Args[0] != ssa.Value(h.Params[0]) || inner.Common().Args[1] != ssa.Value(h.Params[1]) {
					continue
				}
				skip, viaHelper = cc, true
				r.Funcs[shortName(h)] = true
			}
		}
		if !r.require(d.typ+".Next: call of SkipDecoderTpl.Skip", skip != nil) {
			continue
		}
		// the decoder handed to the template is the receiver itself
		mkOK := false
		if viaHelper {
			mkOK = skip.Common().Args[0] == ssa.Value(fn.Params[0])
		} else if mk := asCall(skip.Common().Args[0]); mk != nil && mk.Common().StaticCallee() != nil && baseName(mk.Common().StaticCallee()) == "NewSkipDecoderTpl" && mk.Common().Args[0] == ssa.Value(fn.Params[0]) {
			mkOK = true
		} else if ld, isLd := skip.Common().Args[0].(*ssa.UnOp); isLd && ld.Op == token.MUL {
			// the template value written as a literal: SkipDecoderTpl[*X]{r: p} — its one field holds the receiver
			if al, isAl := ld.X.(*ssa.Alloc); isAl && al.Referrers() != nil {
				nst, good := 0, false
				for _, ref := range *al.Referrers() {
					fad, isFA := ref.(*ssa.FieldAddr)
					if !isFA || fad.Referrers() == nil {
						continue
					}
					for _, r2 := range *fad.Referrers() {
						if st, isSt := r2.(*ssa.Store); isSt && st.Addr == ssa.Value(fad) {
							nst++
							if st.Val == ssa.Value(fn.Params[0]) && instrDominates(st, ld) {
								good = true
							}
						}
					}
				}
				mkOK = good && nst == 1
			}
		}
		r.add("DECODER-BYTES", shortName(fn), "tpl", "the template walks this decoder, with the type asked for", P.pos(instrPos(skip)), mkOK && skip.Common().Args[1] == ssa.Value(fn.Params[1]), "")
		atSkip := cellIntAt(fan, skip, d.counter)
		zero := atSkip != nil && atSkip.isConst() && atSkip.C.Sign() == 0
		if !zero {
			// invariant mode: every other method that rebinds the input or touches the counter leaves it at 0
			zero = true
			detail := ""
			for _, m := range P.methodsNamed(relThrift, d.typ, func(string) bool { return true }) {
				if m == sk || m.Blocks == nil {
					continue
				}
				touches := false
				for _, st := range append(storesTo(m, d.counter), storesTo(m, d.backing)...) {
					_ = st
					touches = true
				}
				if !touches {
					continue
				}
				r.Funcs[shortName(m)] = true
				fm := A.fa(m)
				fm.ensureInvariants()
				for _, rc := range retCases(m) {
					if m == fn {
						if succ, known := caseSuccess(rc); known && !succ {
							continue // a failed Next leaves a half-consumed input; the value is not well-formed
						}
					}
					c1 := cellAtCase(fm, rc, d.counter)
					if c1 == nil || !fm.proveEq(c1, linConst(0), rc.at.Block()) {
						zero = false
						detail = shortName(m) + " can return with " + d.counter + " = " + A.linString(c1) + " after rebinding the input"
					}
				}
			}
			r.add("ACCUM", d.typ, "start", "the counter is 0 whenever a value starts: every method that rebinds the input or touches the counter leaves it at 0", P.pos(fn.Pos()), zero, detail)
		} else {
			r.add("ACCUM", shortName(fn), "start", "the counter is reset to 0 before the value is walked", P.pos(instrPos(skip)), true, "")
		}
		// what Next returns on success
		for _, rc := range retCases(fn) {
			succ, known := caseSuccess(rc)
			ev := rc.results[len(rc.results)-1]
			if !known {
				// the error of a final consuming call is returned as is
				if ex, ok := ev.(*ssa.Extract); ok {
					if c, ok := ex.Tuple.(*ssa.Call); ok && isInvokeOf(c, "Next") {
						amt := c.Common().Args[0]
						okAmt := isLoadOfField(fn, amt, d.counter) && instrDominates(skip, amt.(ssa.Instruction))
						okRes := false
						if e0, ok := rc.results[0].(*ssa.Extract); ok && e0.Tuple == ex.Tuple && e0.Index == 0 {
							okRes = true
						}
						r.add("DECODER-BYTES", shortName(fn), "return", "the accumulated bytes, and only those, are consumed from the reader and returned", P.pos(instrPos(c)), okAmt && okRes, "")
						continue
					}
				}
				continue
			}
			if !succ {
				continue
			}
			sd := fan.sliceDesc(rc.results[0])
			ok, detail := false, "returned value not understood"
			if sd != nil {
				cnt := cellIntAt(fan, rc.results[0].(ssa.Instruction), d.counter)
				if sl, isSl := rc.results[0].(*ssa.Slice); isSl && sl.High != nil {
					ok = sd.Off.isConst() && sd.Off.C.Sign() == 0 && isLoadOfField(fn, sl.High, d.counter) && instrDominates(skip, sl.High.(ssa.Instruction)) && isLoadOfField(fn, sl.X, d.backing)
				}
				detail = fmt.Sprintf("offset %s length %s (counter %s)", A.linString(sd.Off), A.linString(sd.Len), A.linString(cnt))
			}
			r.add("DECODER-BYTES", shortName(fn), "return", "on success exactly the first <counter> bytes of the backing are returned", P.pos(instrPos(rc.ret)), ok, detail)
		}
		if d.typ == "BytesSkipDecoder" {
			// the input advances past the value
			adv := false
			for _, st := range storesTo(fn, d.backing) {
				if sl, ok := st.Val.(*ssa.Slice); ok && sl.High == nil && sl.Low != nil && isLoadOfField(fn, sl.Low, d.counter) && isLoadOfField(fn, sl.X, d.backing) && instrDominates(skip, st) {
					adv = true
				}
			}
			r.add("DECODER-BYTES", shortName(fn), "advance", "the remaining input starts right after the returned bytes", P.pos(fn.Pos()), adv, "")
		}
	}
}

func isPlainInt(t types.Type) bool {
	b, ok := t.Underlying().(*types.Basic)
	return ok && b.Kind() == types.Int
}

// tightRules: a success return must not *require* more input than it consumes.
// If the facts that hold on the way to a success return entail
// "consumed + 1 ≤ available", some check on that way is stricter than needed and
// a value that ends exactly at the end of the input is rejected. The rule only
// fires when the stronger fact is proved.
func tightRules(P *Program, r *Result, rule string, fns []*ssa.Function) {
	tightRulesA(P, r, rule, fns, newAnalysis(P))
}

func tightRulesA(P *Program, r *Result, rule string, fns []*ssa.Function, A *Analysis) {
	for _, fn := range fns {
		if fn == nil || fn.Blocks == nil {
			continue
		}
		fa := A.fa(fn)
		fa.noGeneralize = true
		fa.ensureInvariants()
		res := fn.Signature.Results()
		// which result is the consumed count, what is the available amount
		cntIdx := -1
		for i := res.Len() - 1; i >= 0; i-- {
			if isPlainInt(res.At(i).Type()) {
				cntIdx = i
				break
			}
		}
		if cntIdx < 0 || !isErrorType(res.At(res.Len()-1).Type()) {
			continue
		}
		var avail *Lin
		var base *Lin
		spanStyle := false
		for i, p := range fn.Params {
			if isUnsafePointer(p.Type()) && i+1 < len(fn.Params) {
				if b, ok := fn.Params[i+1].Type().Underlying().(*types.Basic); ok && b.Kind() == types.Uintptr {
					base = fa.ptrExpand(p)
					avail = fa.expand(fn.Params[i+1])
					spanStyle = true
					break
				}
			}
			if isByteSlice(p.Type()) && avail == nil {
				if d := fa.sliceDesc(p); d != nil {
					base = linConst(0)
					avail = d.Len
				}
			}
		}
		if avail == nil {
			continue
		}
		n := 0
		// a return that is stricter than needed is harmless when another success return with the same (constant)
		// consumption is not: the exact-fit input takes that one
		lenient := map[string]bool{}
		for _, ret := range returnsOf(fn) {
			if !isNilConst(ret.Results[res.Len()-1]) {
				continue
			}
			cnt := fa.expand(ret.Results[cntIdx])
			if cnt.isConst() && !fa.prove(ineqLE(base.add(cnt).addConst(1), avail), ret.Block(), rootCtx) {
				lenient[cnt.C.String()] = true
			}
		}
		for _, ret := range returnsOf(fn) {
			if !isNilConst(ret.Results[res.Len()-1]) {
				continue
			}
			n++
			cnt := fa.expand(ret.Results[cntIdx])
			strict := fa.prove(ineqLE(base.add(cnt).addConst(1), avail), ret.Block(), rootCtx)
			if strict && cnt.isConst() && lenient[cnt.C.String()] {
				strict = false
			}
			r.add(rule, shortName(fn), "return", "success does not require more input than it consumes (a value ending exactly at the end of the input is accepted)", P.pos(instrPos(ret)), !strict, "the checks on the way to this return guarantee at least one byte beyond the consumed "+A.linString(cnt))
		}
		_ = n
		if spanStyle {
			neededChecks(P, r, rule, fa, fn, base, avail, cntIdx)
		} else {
			for _, p := range fn.Params {
				if isByteSlice(p.Type()) {
					sliceNeededCnt(P, r, rule, fa, fn, p, cntIdx)
					break
				}
			}
		}
	}
}

// ptrReadExtent: for a repository helper of one unsafe.Pointer parameter, the
// number of bytes it reads starting at that pointer (0 if not of that shape).
func ptrReadExtent(fn *ssa.Function) int64 {
	if fn == nil || fn.Blocks == nil || len(fn.Params) != 1 || !isUnsafePointer(fn.Params[0].Type()) {
		return 0
	}
	var ext int64
	for _, b := range fn.Blocks {
		for _, in := range b.Instrs {
			ld, ok := in.(*ssa.UnOp)
			if !ok || ld.Op != token.MUL {
				continue
			}
			cv, ok := isUnsafeDeref(ld.X)
			if !ok {
				continue
			}
			off := int64(-1)
			switch q := cv.X.(type) {
			case *ssa.Parameter:
				off = 0
			case *ssa.Call:
				if bi, isB := q.Common().Value.(*ssa.Builtin); isB && bi.Name() == "Add" && q.Common().Args[0] == ssa.Value(fn.Params[0]) {
					if k, isC := constInt(q.Common().Args[1]); isC && k >= 0 {
						off = k
					}
				}
			}
			if off < 0 {
				return 0
			}
			w := int64(1)
			if bt, ok := deref(ld.X.Type()).Underlying().(*types.Basic); ok {
				switch bt.Kind() {
				case types.Int16, types.Uint16:
					w = 2
				case types.Int32, types.Uint32, types.Float32:
					w = 4
				case types.Int64, types.Uint64, types.Float64:
					w = 8
				}
			}
			if off+w > ext {
				ext = off + w
			}
		}
	}
	return ext
}

// neededChecks: a test against the end of the input whose failing side is an
// error return must be *needed*: whenever it passes and the walk goes on to
// succeed, the bytes it asked for are really read or counted (a load at or
// beyond that position, a nested skip starting there, or a success return
// reporting at least that much). A test that asks for more than is ever
// consumed rejects well-formed input that happens to end early.
func neededChecks(P *Program, r *Result, rule string, fa *FA, fn *ssa.Function, base, avail *Lin, cntIdx int) {
	res := fn.Signature.Results()
	// justified: the instruction reads at/after the required end, or counts it
	justifies := func(in ssa.Instruction, need *Lin) bool {
		blk := in.Block()
		switch x := in.(type) {
		case *ssa.UnOp:
			if x.Op != token.MUL {
				return false
			}
			cv, ok := isUnsafeDeref(x.X)
			if !ok {
				return false
			}
			addr := fa.ptrExpand(cv.X)
			if addr == nil {
				return false
			}
			return fa.prove(ineqLE(need, addr.addConst(fa.sizeof(deref(x.X.Type())))), blk, rootCtx)
		case *ssa.Call:
			cal := x.Common().StaticCallee()
			if cal == nil || !inRepo(cal) {
				return false
			}
			args := x.Common().Args
			if ext := ptrReadExtent(cal); ext > 0 {
				if addr := fa.ptrExpand(args[0]); addr != nil {
					return fa.prove(ineqLE(need, addr.addConst(ext)), blk, rootCtx)
				}
				return false
			}
			// a nested skip over [q, e): every value has at least one byte
			for i, p := range cal.Params {
				if isUnsafePointer(p.Type()) && i+1 < len(args) && fa.expand(args[i+1]).equal(avail) {
					if addr := fa.ptrExpand(args[i]); addr != nil {
						return fa.prove(ineqLE(need, addr.addConst(1)), blk, rootCtx)
					}
				}
			}
		case *ssa.Return:
			if !isNilConst(x.Results[res.Len()-1]) {
				return false
			}
			cnt := fa.expand(x.Results[cntIdx])
			return fa.prove(ineqLE(need, base.add(cnt)), blk, rootCtx)
		}
		return false
	}
	neededWalk(P, r, rule, fa, fn, base, avail, justifies)
}

// neededWalk is the search shared by the pointer-span and the slice form.
func neededWalk(P *Program, r *Result, rule string, fa *FA, fn *ssa.Function, base, avail *Lin, justifies func(in ssa.Instruction, need *Lin) bool) int {
	return neededWalkF(P, r, rule, fa, fn, base, avail, justifies, nil, nil)
}

// neededWalkF: failRet / succRet classify return instructions when the function does not end in an error result.
func neededWalkF(P *Program, r *Result, rule string, fa *FA, fn *ssa.Function, base, avail *Lin, justifies func(in ssa.Instruction, need *Lin) bool, failRet, succRet func(*ssa.Return) bool) int {
	A := fa.A
	availID, isAtom := singleAtom(avail)
	if !isAtom {
		return 0
	}
	res := fn.Signature.Results()
	if failRet == nil && (res.Len() == 0 || !isErrorType(res.At(res.Len()-1).Type())) {
		return 0
	}
	isErrRet := func(b *ssa.BasicBlock) bool {
		if failRet != nil {
			for hops := 0; hops < 3; hops++ {
				last := b.Instrs[len(b.Instrs)-1]
				if ret, ok := last.(*ssa.Return); ok {
					return failRet(ret)
				}
				if _, ok := last.(*ssa.Jump); ok && len(b.Instrs) == 1 {
					b = b.Succs[0]
					continue
				}
				return false
			}
			return false
		}
		for hops := 0; hops < 3; hops++ {
			last := b.Instrs[len(b.Instrs)-1]
			if ret, ok := last.(*ssa.Return); ok {
				return isKnownError(ret.Results[res.Len()-1])
			}
			if _, ok := last.(*ssa.Jump); ok && len(b.Instrs) == 1 {
				b = b.Succs[0]
				continue
			}
			return false
		}
		return false
	}
	nchecks := 0
	for _, b := range fn.Blocks {
		iff, ok := b.Instrs[len(b.Instrs)-1].(*ssa.If)
		if !ok || b.Succs[0] == b.Succs[1] {
			continue
		}
		for side := 0; side < 2; side++ {
			pass, fail := b.Succs[side], b.Succs[1-side]
			if !isErrRet(fail) || isErrRet(pass) {
				continue
			}
			ef := &edgeFacts{}
			fa.condFacts(iff.Cond, side == 0, ef)
			for _, f := range ef.ineq {
				f = normIneq(f)
				c, has := f.T[availID]
				if !has || c.Cmp(bi(-1)) != 0 {
					continue
				}
				// f:  need − e ≤ 0
				need := f.add(avail)
				// search: every way from the passing side to a success return meets a justification first
				okAll, why := true, ""
				seen := map[*ssa.BasicBlock]bool{b: true}
				var walk func(blk *ssa.BasicBlock)
				walk = func(blk *ssa.BasicBlock) {
					if !okAll || seen[blk] {
						return
					}
					seen[blk] = true
					for _, in := range blk.Instrs {
						if justifies(in, need) {
							return
						}
						if ret, isRet := in.(*ssa.Return); isRet {
							isSucc := false
							if succRet != nil {
								isSucc = succRet(ret)
							} else {
								// anything that is not known to carry an error may be a success
								ev := ret.Results[res.Len()-1]
								isSucc = isNilConst(ev) || (!isKnownError(ev) && !fa.prove(ineqGE(fa.nilExpand(ev), linConst(1)), ret.Block(), rootCtx))
							}
							if isSucc {
								okAll = false
								why = "success at " + P.pos(instrPos(ret)) + " is reached without ever reading or counting up to " + A.linString(need)
							}
							return
						}
					}
					for _, s := range blk.Succs {
						if s.Dominates(b) && s != b {
							// a loop comes round: the values the check spoke about are stale beyond this point; the
							// requirement is met if a cursor carried round the loop has moved past it
							adv := false
							k := -1
							for i, p := range s.Preds {
								if p == blk {
									k = i
								}
							}
							for _, a := range fa.phiAtomsOf(s) {
								if k >= 0 && (a.Kind == aVal) && fa.prove(ineqLE(need, base.add(fa.phiIn(a, k))), blk, rootCtx) {
									adv = true
								}
							}
							if !adv {
								okAll = false
								why = "the loop at " + P.pos(instrPos(s.Instrs[0])) + " is re-entered without the cursor having passed " + A.linString(need)
							}
							continue
						}
						walk(s)
					}
				}
				walk(pass)
				nchecks++
				r.add(rule, shortName(fn), "check", "a length check that can fail asks for no more than what is then read or counted", P.pos(instrPos(iff)), okAll, why)
				if !okAll && strings.HasPrefix(why, "success at") {
					r.markDefinite() // a concrete way from the check to a success that never reads that far
				}
			}
		}
	}
	return nchecks
}

// sliceNeeded: the same rule for decoders over a byte-slice parameter: the
// bytes a check asks for are read by an index, a big-endian load, a slice
// expression up to that position or a string conversion of such a slice.
func sliceNeeded(P *Program, r *Result, rule string, fa *FA, fn *ssa.Function, par *ssa.Parameter) int {
	return sliceNeededCnt(P, r, rule, fa, fn, par, -1)
}

func sliceNeededCnt(P *Program, r *Result, rule string, fa *FA, fn *ssa.Function, par *ssa.Parameter, cntIdx int) int {
	d0 := fa.sliceDesc(par)
	if d0 == nil {
		return 0
	}
	res := fn.Signature.Results()
	justifies := func(in ssa.Instruction, need *Lin) bool {
		blk := in.Block()
		ext := func(v ssa.Value, n *Lin) bool {
			d := fa.sliceDesc(v)
			if d == nil || d.Root != ssa.Value(par) {
				return false
			}
			return fa.prove(ineqLE(need, d.Off.add(n)), blk, rootCtx)
		}
		switch x := in.(type) {
		case *ssa.UnOp:
			if ia, ok := x.X.(*ssa.IndexAddr); ok && x.Op == token.MUL {
				return ext(ia.X, fa.expand(ia.Index).addConst(1))
			}
		case *ssa.Slice:
			if x.High != nil {
				return ext(x.X, fa.expand(x.High))
			}
		case *ssa.Call:
			if cal := x.Common().StaticCallee(); cal != nil && fnPkgPath(cal) == "encoding/binary" && len(x.Common().Args) >= 2 {
				w := int64(0)
				switch {
				case strings.HasSuffix(cal.Name(), "int16"):
					w = 2
				case strings.HasSuffix(cal.Name(), "int32"):
					w = 4
				case strings.HasSuffix(cal.Name(), "int64"):
					w = 8
				}
				if w > 0 {
					return ext(x.Common().Args[1], linConst(w))
				}
			}
			// an unchecked helper of the repository that reads the first k bytes of the slice it is given
			if cal := x.Common().StaticCallee(); cal != nil && inRepo(cal) {
				for i, a := range x.Common().Args {
					if isByteSlice(a.Type()) && i < len(cal.Params) {
						if k := sliceReadExtent(cal, cal.Params[i]); k > 0 {
							return ext(a, linConst(k))
						}
					}
				}
			}
		case *ssa.Return:
			if cntIdx >= 0 && isNilConst(x.Results[res.Len()-1]) {
				return fa.prove(ineqLE(need, fa.expand(x.Results[cntIdx])), blk, rootCtx)
			}
		}
		return false
	}
	return neededWalk(P, r, rule, fa, fn, linConst(0), d0.Len, justifies)
}

// isSizeFunc: a repository function of one type-tag parameter whose every return
// is an integer constant (the fixed-size table in switch form).
func isSizeFunc(fn *ssa.Function) bool {
	if fn == nil || !inRepo(fn) || fn.Blocks == nil || len(fn.Params) != 1 || !isTagType(fn.Params[0].Type()) {
		return false
	}
	if fn.Signature.Results().Len() != 1 || !isInteger(fn.Signature.Results().At(0).Type()) {
		return false
	}
	rets := returnsOf(fn)
	if len(rets) < 2 {
		return false
	}
	for _, r := range rets {
		if _, ok := constInt(r.Results[0]); !ok {
			return false
		}
	}
	for _, c := range callsIn(fn) {
		_ = c
		return false
	}
	return true
}

// beLoadRule: the pointer skipper takes every declared size through a
// one-parameter unsafe loader; the skippers' size rules (NEG32, TIGHT, GRAMMAR)
// speak about "the 32-bit big-endian word at p", so the loader must be exactly
// that: the four bytes at p, p+1, p+2, p+3 combined most significant first and
// reinterpreted at the width and signedness of its result type.
func beLoadRule(P *Program, r *Result, rule string) {
	n := 0
	for _, fn := range repoFuncs(P) {
		if fnPkgPath(fn) != modPath+"/"+relThrift || len(fn.Params) != 1 || !isUnsafePointer(fn.Params[0].Type()) || fn.Signature.Results().Len() != 1 || !isInteger(fn.Signature.Results().At(0).Type()) {
			continue
		}
		// only loaders the pointer skipper calls
		used := false
		for _, g := range repoFuncs(P) {
			for _, cc := range callsIn(g) {
				if cc.Common().StaticCallee() == fn {
					used = true
				}
			}
		}
		if !used {
			continue
		}
		n++
		r.Funcs[shortName(fn)] = true
		ret := singleReturn(fn)
		if ret == nil {
			r.add(rule, shortName(fn), "load", "the unsafe loader is the big-endian word at its pointer", P.pos(fn.Pos()), false, "more than one return")
			continue
		}
		c := &lctx{P: P, fn: fn, args: map[*ssa.Parameter]*bx{}}
		byteAt := func(addr ssa.Value) (int64, bool) {
			switch q := addr.(type) {
			case *ssa.Parameter:
				if q == fn.Params[0] {
					return 0, true
				}
			case *ssa.Call:
				if bi, isB := q.Common().Value.(*ssa.Builtin); isB && bi.Name() == "Add" && q.Common().Args[0] == ssa.Value(fn.Params[0]) {
					if k, isC := constInt(q.Common().Args[1]); isC && k >= 0 {
						return k, true
					}
				}
			}
			return 0, false
		}
		c.leaf = func(v ssa.Value) *bx {
			// binary.BigEndian.UintN((*[N]byte)(p)[k:]) — the library's own big-endian load over a view of the bytes at p
			if call, isCall := v.(*ssa.Call); isCall {
				if n := isBigEndianGet(call.Common().StaticCallee()); n > 0 && len(call.Common().Args) == 2 {
					if sl, isSl := call.Common().Args[1].(*ssa.Slice); isSl && sl.High == nil && sl.Max == nil {
						if cv, isCv := sl.X.(*ssa.Convert); isCv && isUnsafePointer(cv.X.Type()) {
							if at, isArr := deref(cv.Type()).Underlying().(*types.Array); isArr && isByteType(at.Elem()) {
								k, okP := byteAt(cv.X)
								low := int64(0)
								okL := true
								if sl.Low != nil {
									low, okL = constInt(sl.Low)
								}
								if okP && okL && low >= 0 && low+int64(n) <= at.Len() {
									p := lpos{c: k + low}
									return &bx{op: "be", k: uint64(n), w: 8 * n, p: &p}
								}
							}
						}
					}
				}
				return nil
			}
			ld, ok := v.(*ssa.UnOp)
			if !ok || ld.Op != token.MUL {
				return nil
			}
			w, sg := typeWidth(ld.Type())
			if w == 0 || w%8 != 0 {
				return nil
			}
			var off int64
			switch a := ld.X.(type) {
			case *ssa.Convert: // *(*T)(p) / *(*T)(unsafe.Add(p, k))
				if !isUnsafePointer(a.X.Type()) {
					return nil
				}
				k, ok := byteAt(a.X)
				if !ok {
					return nil
				}
				off = k
			case *ssa.IndexAddr: // (*[N]T)(p)[i]
				cv, ok := a.X.(*ssa.Convert)
				if !ok || !isUnsafePointer(cv.X.Type()) {
					return nil
				}
				k, ok := byteAt(cv.X)
				i, isC := constInt(a.Index)
				if !ok || !isC || i < 0 {
					return nil
				}
				off = k + i*int64(w/8)
			default:
				return nil
			}
			if w != 8 {
				// a wider native load is little-endian on the supported targets: not a big-endian word
				return &bx{op: "opaque", s: "native load of " + ld.Type().String()}
			}
			p := lpos{c: off}
			return &bx{op: "be", k: 1, w: 8, signed: sg, p: &p}
		}
		e := c.expr(ret.Results[0]).norm()
		w, sg := typeWidth(fn.Signature.Results().At(0).Type())
		ok := e.op == "be" && int(e.k)*8 == w && e.w == w && e.p != nil && e.p.c == 0 && len(e.p.syms) == 0 && e.p.bad == ""
		_ = sg
		r.add(rule, shortName(fn), "load", fmt.Sprintf("the unsafe loader returns the %d-bit big-endian word at its pointer", w), P.pos(fn.Pos()), ok, "computed: "+e.render())
	}
	r.require("an unsafe big-endian loader used by the pointer skipper", n > 0)
}

func isByteType(t types.Type) bool {
	b, ok := t.Underlying().(*types.Basic)
	return ok && b.Kind() == types.Uint8
}

// rejectClassExtra reads two more spellings of the grammar's reject conditions on the edge into b: a size compared with
// the largest i32 (a value above it is negative as a Thrift i32), and the fixed-size table answering "no size" for a tag
// (a tag that is neither fixed-size nor one of the dispatched ones is unknown).
func rejectClassExtra(pb, b *ssa.BasicBlock) string {
	for hops := 0; hops < 4 && b != nil; hops++ {
		p := pb
		pb = nil
		if p == nil {
			if len(b.Preds) != 1 {
				return ""
			}
			p = b.Preds[0]
		}
		iff, ok := p.Instrs[len(p.Instrs)-1].(*ssa.If)
		if !ok {
			b = p
			continue
		}
		for _, dc := range condImplies(iff.Cond, p.Succs[0] == b, 0) {
			bo, ok := dc.Cond.(*ssa.BinOp)
			if !ok {
				continue
			}
			if k, isC := constInt(bo.Y); isC && k == 2147483647 && ((bo.Op == token.GTR && dc.Truth) || (bo.Op == token.LEQ && !dc.Truth)) {
				return "NEG"
			}
			if k, isC := constInt(bo.Y); isC && k == 0 && ((bo.Op == token.LEQ && dc.Truth) || (bo.Op == token.GTR && !dc.Truth) || (bo.Op == token.EQL && dc.Truth) || (bo.Op == token.NEQ && !dc.Truth)) {
				// the value is (a widening of) an element of a package-level table indexed by the tag
				v := bo.X
				for {
					if cv, isCv := v.(*ssa.Convert); isCv {
						v = cv.X
						continue
					}
					break
				}
				if ld, isLd := v.(*ssa.UnOp); isLd && ld.Op == token.MUL {
					if ia, isIA := ld.X.(*ssa.IndexAddr); isIA {
						if _, isG := ia.X.(*ssa.Global); isG {
							return "UNKNOWN-TAG"
						}
					}
				}
			}
		}
		return ""
	}
	return ""
}

// sliceReadExtent: for a straight-line repository helper, the number of leading bytes of its slice parameter p it
// reads on every call (a big-endian load of p, or constant indexes into p); 0 when it is not of that shape.
func sliceReadExtent(fn *ssa.Function, p *ssa.Parameter) int64 {
	if fn == nil || fn.Blocks == nil || len(fn.Blocks) != 1 {
		return 0
	}
	var ext int64
	for _, in := range fn.Blocks[0].Instrs {
		switch x := in.(type) {
		case *ssa.Call:
			if cal := x.Common().StaticCallee(); cal != nil && fnPkgPath(cal) == "encoding/binary" && len(x.Common().Args) >= 2 && x.Common().Args[1] == ssa.Value(p) {
				w := int64(0)
				switch {
				case strings.HasSuffix(cal.Name(), "int16"):
					w = 2
				case strings.HasSuffix(cal.Name(), "int32"):
					w = 4
				case strings.HasSuffix(cal.Name(), "int64"):
					w = 8
				}
				if w > ext {
					ext = w
				}
			}
		case *ssa.IndexAddr:
			if x.X == ssa.Value(p) {
				if k, ok := constInt(x.Index); ok && k >= 0 && k+1 > ext {
					ext = k + 1
				}
			}
		}
	}
	return ext
}
