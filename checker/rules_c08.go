package main

// C08 — skippers: truncation safety, bounded recursion, negative sizes, unknown tags.

import (
	"fmt"
	"go/token"
	"go/types"
	"sort"
	"strings"

	"golang.org/x/tools/go/ssa"
)

const relThrift = "protocol/thrift"

// skipperFamilies returns the three skipper implementations: the functions
// reachable from their entry points inside package thrift (SkipN
// implementations and bufiox excluded: they are entered through their contract).
func skipperEntries(P *Program, r *Result) (raw, stream *ssa.Function, tpl []*ssa.Function) {
	raw = P.Method(relThrift, "BinaryProtocol", "Skip")
	stream = P.Method(relThrift, "BufferReader", "Skip")
	tpl = P.Instances(relThrift, "SkipDecoderTpl", "Skip")
	var inst []*ssa.Function
	for _, f := range tpl {
		if len(f.TypeArgs()) > 0 {
			inst = append(inst, f)
		}
	}
	tpl = inst
	r.require("thrift.BinaryProtocol.Skip", raw != nil)
	r.require("thrift.BufferReader.Skip", stream != nil)
	r.require("three instances of thrift.SkipDecoderTpl.Skip", len(tpl) >= 3)
	return
}

func stopAtSkipN(f *ssa.Function) bool {
	if stopAtBufiox(f) {
		return true
	}
	return baseName(f) == "SkipN" && f.Signature.Recv() != nil
}

// exceptionTypeOf resolves an error value to the Thrift protocol-exception type
// id it carries: a direct NewProtocolException(c, …) or a package-level
// variable initialised with one.
func exceptionTypeOfDepth(P *Program, v ssa.Value, depth int) (int64, bool) {
	if depth > 2 {
		return 0, false
	}
	v = stripIface(v)
	if c := staticCallNamed(v, "NewProtocolException"); c != nil {
		if k, ok := c.Common().Args[0].(*ssa.Const); ok && k.Value != nil {
			return k.Int64(), true
		}
	}
	return 0, false
}

func exceptionTypeOf(P *Program, v ssa.Value) (int64, bool) {
	v = stripIface(v)
	if c := staticCallNamed(v, "NewProtocolException"); c != nil {
		if k, ok := c.Common().Args[0].(*ssa.Const); ok && k.Value != nil {
			return k.Int64(), true
		}
		return 0, false
	}
	// a repository helper every return of which builds an exception of one and the same type
	if c := asCall(v); c != nil {
		if cal := c.Common().StaticCallee(); cal != nil && inRepo(cal) && cal.Blocks != nil && cal.Name() != "NewProtocolException" && cal.Signature.Results().Len() == 1 {
			var val int64
			n := 0
			for _, ret := range returnsOf(cal) {
				t, ok := exceptionTypeOfDepth(P, ret.Results[0], 1)
				if !ok || (n > 0 && t != val) {
					return 0, false
				}
				val = t
				n++
			}
			if n > 0 {
				return val, true
			}
		}
	}
	if ld, ok := v.(*ssa.UnOp); ok && ld.Op == token.MUL {
		if g, ok := ld.X.(*ssa.Global); ok && g.Pkg != nil {
			init := g.Pkg.Func("init")
			if init == nil {
				return 0, false
			}
			n := 0
			var val int64
			for _, b := range init.Blocks {
				for _, in := range b.Instrs {
					if st, ok := in.(*ssa.Store); ok && st.Addr == ssa.Value(g) {
						if t, ok := exceptionTypeOf(P, st.Val); ok {
							val = t
							n++
						} else {
							return 0, false
						}
					}
				}
			}
			if n == 1 && newAnalysis(P).nonNilGlobal(g) {
				return val, true
			}
		}
	}
	return 0, false
}

// tableContents evaluates the composite literal a package-level array is
// initialised with (index → value); ok=false if it is written anywhere else.
func tableContents(P *Program, g *ssa.Global) (map[int64]int64, bool) {
	if _, ok := findTables(P)[g]; !ok {
		return nil, false
	}
	out := map[int64]int64{}
	init := g.Pkg.Func("init")
	for _, b := range init.Blocks {
		for _, in := range b.Instrs {
			// in-place initialisation: typeToSize[k] = c
			if ia, ok := in.(*ssa.IndexAddr); ok && ia.X == ssa.Value(g) {
				ic, ok := ia.Index.(*ssa.Const)
				if !ok {
					return nil, false
				}
				for _, r2 := range *ia.Referrers() {
					if s2, ok := r2.(*ssa.Store); ok && s2.Addr == ia {
						if vc, ok := s2.Val.(*ssa.Const); ok && vc.Value != nil {
							out[ic.Int64()] = vc.Int64()
						} else {
							return nil, false
						}
					}
				}
				continue
			}
			st, ok := in.(*ssa.Store)
			if !ok || st.Addr != ssa.Value(g) {
				continue
			}
			ld, ok := st.Val.(*ssa.UnOp)
			if !ok {
				return nil, false
			}
			al, ok := ld.X.(*ssa.Alloc)
			if !ok {
				return nil, false
			}
			for _, ref := range *al.Referrers() {
				ia, ok := ref.(*ssa.IndexAddr)
				if !ok {
					continue
				}
				ic, ok := ia.Index.(*ssa.Const)
				if !ok {
					return nil, false
				}
				for _, r2 := range *ia.Referrers() {
					if s2, ok := r2.(*ssa.Store); ok && s2.Addr == ia {
						if vc, ok := s2.Val.(*ssa.Const); ok && vc.Value != nil {
							out[ic.Int64()] = vc.Int64()
						} else {
							return nil, false
						}
					}
				}
			}
		}
	}
	return out, true
}

var grammarFixedSizes = map[int64]int64{2: 1, 3: 1, 4: 8, 6: 2, 8: 4, 10: 8}
var grammarDispatchTags = []int64{11, 12, 13, 14, 15}

// selfCalls returns the calls of fn to itself.
func selfCalls(fn *ssa.Function) []*ssa.Call {
	var out []*ssa.Call
	for _, c := range callsIn(fn) {
		if cc, ok := c.(*ssa.Call); ok && cc.Common().StaticCallee() == fn {
			out = append(out, cc)
		}
	}
	return out
}

func checkC08(P *Program, r *Result, tier string) {
	r.Explanation = "On the three skipper implementations (raw-span, stream, template instances): TRUNC (E1: every inspected byte lies inside the span / inside a slice a successful Next/SkipN of that width returned; the raw skipper's reported length stays inside the input), " +
		"DEPTH (every self-recursive call passes depth−1 and is only reachable with depth ≥ 1; depth 0 returns the DEPTH_LIMIT exception; every external entry passes 64 — a ranking-function argument), " +
		"NEG32 (every declared size read from the wire is proved to lie in [0, 2^31−1] wherever it is used as count, length or factor), " +
		"ERR-USED (no error of a nested read or skip is dropped or overwritten before it was tested), UNKNOWN-TAG (the fixed-size table is non-zero exactly for the grammar's fixed-size tags with the grammar's widths; the dispatch handles exactly {11,12,13,14,15} and its default returns INVALID_DATA)."
	raw, stream, tpl := skipperEntries(P, r)
	if len(r.Fatal) > 0 {
		return
	}
	roots := append([]*ssa.Function{raw, stream}, tpl...)
	scope := P.reachable(roots, stopAtSkipN)
	for _, f := range scope {
		r.Funcs[shortName(f)] = true
	}
	run := newE1(P, scope, e1Config{IfaceLenEq: []string{"Next", "Peek", "SkipN"}, StrictLen: true, Wrap: true})
	run.run()
	reportE1(P, r, run, func(o *e1Obl) (string, bool) {
		switch o.Kind {
		case "SLICE", "INDEX", "LOAD", "SPAN", "IDX", "PRE":
			return "TRUNC", true
		case "WRAP":
			return "WRAP", true
		}
		return "", false
	})
	// the raw skipper's contract and the exported length
	for _, fn := range scope {
		fa := run.A.fa(fn)
		if fa.spanP != nil && errIndex(fn) >= 0 {
			alive, _ := run.postAlive(fn, "span", 0, 0)
			pos, detail := P.pos(fn.Pos()), "err==nil ⇒ p + n ≤ e proved at every return"
			if !alive {
				in, why := run.failingReturn(fn, "span", 0, 0)
				if in != nil {
					pos = P.pos(instrPos(in))
				}
				detail = why
			}
			r.add("TRUNC", shortName(fn), "return", "a successful skip ends inside the span", pos, alive, detail)
		}
	}
	{
		alive, _ := run.postAlive(raw, "ret<=len", 0, 1)
		detail := ""
		pos := P.pos(raw.Pos())
		if !alive {
			in, why := run.failingReturn(raw, "ret<=len", 0, 1)
			if in != nil {
				pos = P.pos(instrPos(in))
			}
			detail = why
		}
		r.add("TRUNC", shortName(raw), "return", "reported length ≤ len(b) when err == nil", pos, alive, detail)
	}

	// ---------- DEPTH ----------
	if recs := depthRules(P, r, run.A, scope); recs < 5 {
		r.fatal("expected 5 recursive skipper bodies (raw, stream, 3 template instances), found %d", recs)
	}

	// ---------- NEG32 ----------
	neg := newNeg32(P, run, scope)
	neg.check(r)
	if neg.sources < 5 {
		r.fatal("NEG32: expected at least 5 declared-size reads in the skippers, found %d", neg.sources)
	}

	// ---------- UNKNOWN-TAG ----------
	var table *ssa.Global
	if sp := P.pkg(relThrift); sp != nil {
		table, _ = sp.Members["typeToSize"].(*ssa.Global)
	}
	if r.require("thrift.typeToSize", table != nil) {
		tc, ok := tableContents(P, table)
		detail := ""
		if ok {
			for k, v := range grammarFixedSizes {
				if tc[k] != v {
					ok = false
					detail = fmt.Sprintf("tag %d has width %d, grammar says %d", k, tc[k], v)
				}
			}
			for k, v := range tc {
				if v != 0 && grammarFixedSizes[k] == 0 {
					ok = false
					detail = fmt.Sprintf("tag %d is not a fixed-size type of the grammar", k)
				}
			}
		} else {
			detail = "table is not an immutable composite literal"
		}
		if detail != "" {
			detail += fmt.Sprint(" (table: ", tc, ")")
		}
		r.add("UNKNOWN-TAG", "thrift.typeToSize", "table", "fixed-size table = grammar {2:1,3:1,4:8,6:2,8:4,10:8}, zero elsewhere", P.pos(table.Pos()), ok, detail)
	}
	nd := 0
	for _, fn := range scope {
		if !onCallCycle(fn) {
			continue
		}
		// comparisons of the type parameter with constants
		var tpar *ssa.Parameter
		for _, p := range fn.Params {
			if b, ok := p.Type().Underlying().(*types.Basic); ok && b.Kind() == types.Int8 {
				tpar = p
			}
		}
		if tpar == nil {
			continue
		}
		// the dispatcher is the function on the cycle that compares its tag with constants
		cmpConsts := map[int64]bool{}
		for _, b := range fn.Blocks {
			for _, in := range b.Instrs {
				if bo, ok := in.(*ssa.BinOp); ok && bo.Op == token.EQL && bo.X == ssa.Value(tpar) {
					if k, isC := constInt(bo.Y); isC {
						cmpConsts[k] = true
					}
				}
			}
		}
		if len(cmpConsts) < 3 {
			continue // a helper that singles out one tag (e.g. STRING) is not the dispatcher
		}
		nd++
		tags := map[int64]*ssa.BinOp{}
		for _, b := range fn.Blocks {
			for _, in := range b.Instrs {
				if bo, ok := in.(*ssa.BinOp); ok && bo.Op == token.EQL && bo.X == ssa.Value(tpar) {
					if c, ok := bo.Y.(*ssa.Const); ok && c.Value != nil {
						tags[c.Int64()] = bo
					}
				}
			}
		}
		var have []int64
		for k := range tags {
			have = append(have, k)
		}
		sort.Slice(have, func(i, j int) bool { return have[i] < have[j] })
		same := len(have) == len(grammarDispatchTags)
		for i := range have {
			if same && have[i] != grammarDispatchTags[i] {
				same = false
			}
		}
		r.add("UNKNOWN-TAG", shortName(fn), "dispatch", "variable-size dispatch handles exactly the tags {11,12,13,14,15}", P.pos(fn.Pos()), same, fmt.Sprint("handles ", have))
		// default: INVALID_DATA, reached when every comparison failed
		def := false
		for _, ret := range returnsOf(fn) {
			if t, ok := exceptionTypeOf(P, ret.Results[len(ret.Results)-1]); ok && t == 1 {
				all := len(tags) > 0
				for _, bo := range tags {
					if !guardedBy(ret, bo, false) {
						all = false
					}
				}
				if all {
					def = true
				}
			}
		}
		r.add("UNKNOWN-TAG", shortName(fn), "default", "any other tag is rejected with an INVALID_DATA protocol exception", P.pos(fn.Pos()), def, "")
	}
	if nd < 5 {
		r.fatal("expected 5 dispatch functions, found %d", nd)
	}
	r.Extra["contracts"] = run.contractSummary()
	beLoadRule(P, r, "NEG32")
	r.assume("bufiox.Reader.Next/Peek and SkipDecoderIface.SkipN return exactly n bytes when err == nil (interface contract; the implementations are C02/C04's subject)")
	r.assume("int is 64 bits; lengths ≤ 2^48; addresses < 2^56")
	// ---------- ERR-USED: no error of a consuming call is dropped or overwritten unexamined ----------
	for _, fn := range scope {
		for _, c := range callsIn(fn) {
			cc, ok := c.(*ssa.Call)
			if !ok {
				continue
			}
			sig := cc.Common().Signature()
			nres := sig.Results().Len()
			if nres == 0 || !isErrorType(sig.Results().At(nres-1).Type()) {
				continue
			}
			if cal := cc.Common().StaticCallee(); cal != nil && !inRepo(cal) {
				continue
			}
			var ev ssa.Value = cc
			if nres > 1 {
				ev = resultValue(cc, nres-1)
			}
			used := ev != nil && errExamined(ev, map[ssa.Value]bool{})
			r.add("ERR-USED", shortName(fn), "call", "the error of "+calleeFullName(cc)+" is examined (tested or returned) before anything else is parsed", P.pos(instrPos(cc)), used, "the error result is dropped or overwritten without being looked at")
		}
	}
	// the decoders that feed the template skipper (shared with C02): exact windows, fragments placed one after the other
	c02Decoders(P, r)
}

// ---- NEG32 ----

type neg32 struct {
	P       *Program
	run     *e1Run
	scope   map[*ssa.Function]bool
	resMemo map[*ssa.Function]map[int]bool
	sources int
	done    map[ssa.Value]bool
}

func newNeg32(P *Program, run *e1Run, scope []*ssa.Function) *neg32 {
	n := &neg32{P: P, run: run, scope: map[*ssa.Function]bool{}, resMemo: map[*ssa.Function]map[int]bool{}, done: map[ssa.Value]bool{}}
	for _, f := range scope {
		n.scope[f] = true
	}
	return n
}

// isSource: a 32-bit value read from the wire.
func (n *neg32) isSource(v ssa.Value) bool {
	c, ok := v.(*ssa.Call)
	if !ok {
		return false
	}
	cal := c.Common().StaticCallee()
	if cal == nil {
		return false
	}
	if cal.Pkg != nil && cal.Pkg.Pkg.Path() == "encoding/binary" && cal.Name() == "Uint32" {
		return true
	}
	return isWordReader(cal)
}

// isWordReader: a repository function that assembles one 32-bit word from the
// bytes its single argument (a byte slice or a raw pointer) refers to.
func isWordReader(cal *ssa.Function) bool {
	if cal == nil || !inRepo(cal) || cal.Blocks == nil || len(cal.Params) != 1 || cal.Signature.Results().Len() != 1 {
		return false
	}
	if w, _ := intBits(cal.Signature.Results().At(0).Type()); w != 32 {
		return false
	}
	if !isByteSlice(cal.Params[0].Type()) && !isUnsafePointer(cal.Params[0].Type()) {
		return false
	}
	loads := 0
	for _, b := range cal.Blocks {
		for _, in := range b.Instrs {
			switch x := in.(type) {
			case *ssa.Call:
				if c2 := x.Common().StaticCallee(); c2 != nil && c2.Pkg != nil && c2.Pkg.Pkg.Path() == "encoding/binary" && c2.Name() == "Uint32" {
					return true
				}
			case *ssa.UnOp:
				if x.Op == token.MUL {
					if w, _ := intBits(x.Type()); w == 8 {
						loads++
					}
				}
			}
		}
	}
	return loads >= 4
}

// sizeResults: which results of fn are declared sizes (derived from a source by conversions only).
func (n *neg32) sizeResults(fn *ssa.Function) map[int]bool {
	if m, ok := n.resMemo[fn]; ok {
		return m
	}
	m := map[int]bool{}
	n.resMemo[fn] = m
	if fn.Blocks == nil || !inRepo(fn) {
		return m
	}
	nres := fn.Signature.Results().Len()
	for k := 0; k < nres; k++ {
		if !isInteger(fn.Signature.Results().At(k).Type()) {
			continue
		}
		all, any := true, false
		for _, ret := range returnsOf(fn) {
			if n.derived(ret.Results[k], map[ssa.Value]bool{}) {
				any = true
			} else if _, isC := ret.Results[k].(*ssa.Const); !isC {
				all = false
			}
		}
		if all && any {
			m[k] = true
		}
	}
	return m
}

// derived: v is a source, a conversion of a derived value, a phi of derived
// values and constants, or a size result of a repository call.
func (n *neg32) derived(v ssa.Value, seen map[ssa.Value]bool) bool {
	if seen[v] {
		return false
	}
	seen[v] = true
	if n.isSource(v) {
		return true
	}
	switch x := v.(type) {
	case *ssa.Convert:
		return isInteger(x.Type()) && n.derived(x.X, seen)
	case *ssa.ChangeType:
		return n.derived(x.X, seen)
	case *ssa.Phi:
		any := false
		for _, e := range x.Edges {
			if _, isC := e.(*ssa.Const); isC {
				continue
			}
			if e == ssa.Value(x) {
				continue
			}
			if !n.derived(e, seen) {
				return false
			}
			any = true
		}
		return any
	case *ssa.Extract:
		if c, ok := x.Tuple.(*ssa.Call); ok {
			if cal := c.Common().StaticCallee(); cal != nil {
				return n.sizeResults(cal)[x.Index]
			}
		}
	case *ssa.Call:
		if cal := x.Common().StaticCallee(); cal != nil && !n.isSource(x) {
			return n.sizeResults(cal)[0] && cal.Signature.Results().Len() == 1
		}
	}
	return false
}

var max31 = linConst(1<<31 - 1)

func (n *neg32) check(r *Result) {
	P := n.P
	var fns []*ssa.Function
	for f := range n.scope {
		fns = append(fns, f)
	}
	sort.Slice(fns, func(i, j int) bool { return fns[i].String() < fns[j].String() })
	type pending struct {
		fn  *ssa.Function
		par *ssa.Parameter
	}
	var lowerPending []pending
	for _, fn := range fns {
		fa := n.run.A.fa(fn)
		for _, b := range fn.Blocks {
			for _, in := range b.Instrs {
				v, ok := in.(ssa.Value)
				if !ok || !isInteger(v.Type()) || !n.derived(v, map[ssa.Value]bool{}) {
					continue
				}
				if n.isSource(v) {
					n.sources++
				}
				n.checkUses(r, fa, v, true, func(cal *ssa.Function, idx int) {
					lowerPending = append(lowerPending, pending{cal, cal.Params[idx]})
				})
			}
		}
	}
	// sizes whose sign test is delegated to the callee
	seen := map[*ssa.Parameter]bool{}
	for len(lowerPending) > 0 {
		p := lowerPending[0]
		lowerPending = lowerPending[1:]
		if seen[p.par] || !n.scope[p.fn] {
			if !n.scope[p.fn] {
				r.add("NEG32", shortName(p.fn), "param", "a possibly negative size is passed to a function outside the analysed skippers", P.pos(p.fn.Pos()), false, "")
			}
			continue
		}
		seen[p.par] = true
		fa := n.run.A.fa(p.fn)
		n.checkUses(r, fa, p.par, false, func(cal *ssa.Function, idx int) {
			lowerPending = append(lowerPending, pending{cal, cal.Params[idx]})
		})
	}
}

// checkUses generates the obligations for every use of the declared size v.
func (n *neg32) checkUses(r *Result, fa *FA, v ssa.Value, upper bool, deferLower func(*ssa.Function, int)) {
	P := n.P
	refs := v.Referrers()
	if refs == nil {
		return
	}
	x := fa.expand(v)
	for _, ref := range *refs {
		use := ""
		switch u := ref.(type) {
		case *ssa.Convert, *ssa.ChangeType, *ssa.Phi, *ssa.DebugRef, *ssa.Return, *ssa.Extract:
			continue // conversions/phis are members themselves; a returned size is checked at the caller
		case *ssa.BinOp:
			switch u.Op {
			case token.LSS, token.GEQ, token.GTR, token.LEQ, token.EQL, token.NEQ:
				other := u.Y
				if other == v {
					other = u.X
				}
				if c, ok := other.(*ssa.Const); ok && c.Value != nil {
					continue // the sign test itself, or a range test against a constant: a test uses nothing
				}
				use = "bound of a comparison"
			case token.MUL, token.ADD, token.SUB:
				use = "operand of " + u.Op.String()
			default:
				use = "operand of " + u.Op.String()
			}
		case *ssa.Call:
			com := u.Common()
			if _, isB := com.Value.(*ssa.Builtin); isB {
				use = "argument of a builtin"
				break
			}
			idx := -1
			for i, a := range com.Args {
				if a == v {
					idx = i
				}
			}
			cal := com.StaticCallee()
			if cal != nil && n.scope[cal] && idx >= 0 {
				// the callee may do the sign test itself; the 32-bit range must hold here
				if upper {
					ok := fa.prove(ineqLE(x, max31), u.Block(), rootCtx)
					r.add("NEG32", shortName(fa.fn), "size", "declared size passed to "+cal.Name()+" fits in 31 bits", P.pos(instrPos(u)), ok, "")
				}
				if !fa.prove(ineqGE(x, linConst(0)), u.Block(), rootCtx) {
					deferLower(cal, idx)
				}
				continue
			}
			use = "length/count argument of " + calleeFullName(u)
		case *ssa.MakeSlice, *ssa.Slice, *ssa.IndexAddr:
			use = "size or index"
		default:
			continue
		}
		in := ref
		okLo := fa.prove(ineqGE(x, linConst(0)), in.Block(), rootCtx)
		okHi := !upper || fa.prove(ineqLE(x, max31), in.Block(), rootCtx)
		detail := ""
		if !okLo {
			detail = "may be negative here"
		} else if !okHi {
			detail = "a value ≥ 2^31 (negative as a Thrift i32) reaches this use"
		}
		r.add("NEG32", shortName(fa.fn), "size", "declared size is in [0, 2^31−1] at its use as "+use, P.pos(instrPos(in)), okLo && okHi, detail)
	}
}

func init() { register("C08", "other", checkC08) }

var _ = strings.Contains

// depthRules: the ranking-function argument for the recursive skippers of scope
// (shared by C08 and C02). It returns the number of recursive skippers found.
func depthRules(P *Program, r *Result, A *Analysis, scope []*ssa.Function) int {
	// ---------- DEPTH ----------
	// A recursive skipper = a function of the scope that lies on a call cycle and answers depth 0 with DEPTH_LIMIT.
	// Its cycle (the strongly connected component in the repository call graph) may contain extracted helpers.
	callees := func(f *ssa.Function) []*ssa.Function {
		var out []*ssa.Function
		for _, c := range callsIn(f) {
			if cal := c.Common().StaticCallee(); cal != nil && inRepo(cal) && cal.Blocks != nil {
				out = append(out, cal)
			}
		}
		return out
	}
	reach := func(from *ssa.Function) map[*ssa.Function]bool {
		seen := map[*ssa.Function]bool{}
		var walk func(f *ssa.Function)
		walk = func(f *ssa.Function) {
			for _, g := range callees(f) {
				if !seen[g] {
					seen[g] = true
					walk(g)
				}
			}
		}
		walk(from)
		return seen
	}
	limitParam := func(fn *ssa.Function) (int, *ssa.BasicBlock) {
		// the int parameter whose comparison with 0 returns the DEPTH_LIMIT exception
		for _, b := range fn.Blocks {
			iff, ok := b.Instrs[len(b.Instrs)-1].(*ssa.If)
			if !ok {
				continue
			}
			bo, ok := iff.Cond.(*ssa.BinOp)
			if !ok || (bo.Op != token.EQL && bo.Op != token.LEQ) {
				continue
			}
			if c, ok := bo.Y.(*ssa.Const); !ok || c.Value == nil || c.Int64() != 0 {
				continue
			}
			for i, p := range fn.Params {
				if bo.X != ssa.Value(p) {
					continue
				}
				tb := b.Succs[0]
				if ret, ok := tb.Instrs[len(tb.Instrs)-1].(*ssa.Return); ok {
					if t, ok := exceptionTypeOf(P, ret.Results[len(ret.Results)-1]); ok && t == 6 {
						return i, b
					}
				}
			}
		}
		return -1, nil
	}
	recs := 0
	for _, fn := range scope {
		if isGenericOrigin(fn) {
			continue // the template as written never runs; its instances are in the scope
		}
		fromFn := reach(fn)
		if !fromFn[fn] {
			continue // not on a cycle
		}
		k, guardBlk := limitParam(fn)
		if k < 0 {
			// a helper on some skipper's cycle is handled with that skipper; a recursive function without the limit test is a violation
			onOther := false
			for g := range fromFn {
				if g != fn && reach(g)[fn] {
					if kk, _ := limitParam(g); kk >= 0 {
						onOther = true
					}
				}
			}
			if !onOther {
				r.add("DEPTH", shortName(fn), "entry", "depth 0 returns the DEPTH_LIMIT protocol exception before anything is parsed", P.pos(fn.Pos()), false, "recursive function without a depth-limit test")
			}
			continue
		}
		recs++
		// the cycle and the depth parameter of every member
		scc := map[*ssa.Function]bool{fn: true}
		for g := range fromFn {
			if reach(g)[fn] {
				scc[g] = true
			}
		}
		dpar := map[*ssa.Function]int{fn: k}
		for changed := true; changed; {
			changed = false
			for f := range scc {
				if _, has := dpar[f]; has {
					continue
				}
				faF := A.fa(f)
				for _, c := range callsIn(f) {
					g := c.Common().StaticCallee()
					gk, known := dpar[g]
					if !known || !scc[g] {
						continue
					}
					arg := faF.expand(c.Common().Args[gk])
					for i, p := range f.Params {
						if isInteger(p.Type()) {
							if d := arg.sub(faF.expand(p)); d.isConst() {
								dpar[f] = i
								changed = true
							}
						}
					}
				}
			}
		}
		// helpers reached only with depth ≥ 1 (every call site on the cycle proves it) may rely on that
		geq1 := map[*ssa.Function]bool{}
		for changed := true; changed; {
			changed = false
			for f := range scc {
				if geq1[f] || f == fn {
					continue
				}
				fk, has := dpar[f]
				if !has {
					continue
				}
				all, any := true, false
				for g := range scc {
					gk, hasG := dpar[g]
					if !hasG {
						continue
					}
					faG := A.fa(g)
					parG := faG.expand(g.Params[gk])
					as := []*Lin{ineqGE(parG, linConst(0))}
					if geq1[g] {
						as = append(as, ineqGE(parG, linConst(1)))
					}
					for _, c := range callsIn(g) {
						if c.Common().StaticCallee() != f {
							continue
						}
						any = true
						if !faG.prove(ineqGE(faG.expand(c.Common().Args[fk]), linConst(1)), c.(*ssa.Call).Block(), rootCtx.with(as, nil)) {
							all = false
						}
					}
				}
				if all && any {
					geq1[f] = true
					changed = true
				}
			}
		}
		zeroEdges := map[*ssa.Function][]*ssa.Function{}
		for f := range scc {
			fk, has := dpar[f]
			if !has {
				r.add("DEPTH", shortName(f), "param", "every function on the recursion cycle carries the depth", P.pos(f.Pos()), false, "no parameter of "+f.Name()+" flows into the depth of the next call")
				continue
			}
			faF := A.fa(f)
			par := faF.expand(f.Params[fk])
			for _, c := range callsIn(f) {
				g := c.Common().StaticCallee()
				if !scc[g] {
					continue
				}
				cc := c.(*ssa.Call)
				arg := faF.expand(c.Common().Args[dpar[g]])
				d := arg.sub(par)
				okEdge := d.isConst() && d.C.Sign() <= 0
				r.add("DEPTH", shortName(f), "call", "a call on the recursion cycle passes its own depth or less", P.pos(instrPos(cc)), okEdge, "argument is "+A.linString(arg))
				if okEdge && d.C.Sign() == 0 {
					zeroEdges[f] = append(zeroEdges[f], g)
				}
				if okEdge && d.C.Sign() < 0 {
					as := []*Lin{ineqGE(par, linConst(0))}
					if geq1[f] {
						as = append(as, ineqGE(par, linConst(1)))
					}
					pos := faF.prove(ineqGE(par, linConst(1)), cc.Block(), rootCtx.with(as, nil))
					r.add("DEPTH", shortName(f), "call", "the depth is decremented only when it is ≥ 1 (rank decreases, stays ≥ 0)", P.pos(instrPos(cc)), pos, "")
				}
			}
		}
		// every cycle contains a decrement: the calls that pass the depth unchanged form no cycle
		cyc := false
		var visit func(f *ssa.Function, stack map[*ssa.Function]bool)
		visit = func(f *ssa.Function, stack map[*ssa.Function]bool) {
			if stack[f] {
				cyc = true
				return
			}
			stack[f] = true
			for _, g := range zeroEdges[f] {
				visit(g, stack)
			}
			delete(stack, f)
		}
		for f := range scc {
			visit(f, map[*ssa.Function]bool{})
		}
		r.add("DEPTH", shortName(fn), "cycle", "every recursion cycle decrements the depth", P.pos(fn.Pos()), !cyc, "")
		// depth 0 ⇒ DEPTH_LIMIT before any call on the cycle
		okLimit := true
		for _, c := range callsIn(fn) {
			if scc[c.Common().StaticCallee()] && !edgeDominates(guardBlk, guardBlk.Succs[1], c.(*ssa.Call).Block()) {
				okLimit = false
			}
		}
		r.add("DEPTH", shortName(fn), "entry", "depth 0 returns the DEPTH_LIMIT protocol exception before anything is parsed", P.pos(fn.Pos()), okLimit, "")
		// external entries pass 64
		ext := 0
		for _, caller := range repoFuncs(P) {
			if scc[caller] {
				continue
			}
			// the body of a generic function as written is never run, its instances are (and are looked at here)
			if isGenericOrigin(caller) {
				continue
			}
			for _, c := range callsIn(caller) {
				g := c.Common().StaticCallee()
				if !scc[g] || isGenericOrigin(g) {
					continue
				}
				ext++
				gk, has := dpar[g]
				if !has {
					continue
				}
				cst, ok := c.Common().Args[gk].(*ssa.Const)
				r.add("DEPTH", shortName(caller), "call", "entry into "+g.Name()+" starts with the recursion limit 64", P.pos(instrPos(c.(ssa.Instruction))), ok && cst.Value != nil && cst.Int64() == 64, "")
			}
		}
		if ext == 0 {
			r.add("DEPTH", shortName(fn), "entry", "recursive skipper has an external entry", P.pos(fn.Pos()), false, "")
		}
	}
	return recs
}

// errExamined: the error value reaches a nil test or a return (through phis).
func errExamined(v ssa.Value, seen map[ssa.Value]bool) bool {
	if seen[v] {
		return false
	}
	seen[v] = true
	refs := v.Referrers()
	if refs == nil {
		return false
	}
	for _, ref := range *refs {
		switch x := ref.(type) {
		case *ssa.BinOp:
			if isNilConst(x.X) || isNilConst(x.Y) {
				return true
			}
		case *ssa.Return:
			return true
		case *ssa.Phi:
			if errExamined(x, seen) {
				return true
			}
		case *ssa.Call:
			return true // wrapped / converted by a helper
		case *ssa.MakeInterface, *ssa.ChangeInterface:
			if errExamined(x.(ssa.Value), seen) {
				return true
			}
		case *ssa.Store:
			return true
		}
	}
	return false
}

// onCallCycle: fn can reach itself through static calls inside the repository.
func onCallCycle(fn *ssa.Function) bool {
	seen := map[*ssa.Function]bool{}
	var walk func(f *ssa.Function) bool
	walk = func(f *ssa.Function) bool {
		for _, c := range callsIn(f) {
			cal := c.Common().StaticCallee()
			if cal == nil || !inRepo(cal) || cal.Blocks == nil {
				continue
			}
			if cal == fn {
				return true
			}
			if !seen[cal] {
				seen[cal] = true
				if walk(cal) {
					return true
				}
			}
		}
		return false
	}
	return walk(fn)
}

// isGenericOrigin: fn is the body of a generic function or of a method of a generic type as written (not an instance).
func isGenericOrigin(fn *ssa.Function) bool {
	if fn == nil || len(fn.TypeArgs()) > 0 {
		return false
	}
	if fn.TypeParams().Len() > 0 {
		return true
	}
	return fn.Signature != nil && fn.Signature.RecvTypeParams().Len() > 0
}

// errDisciplineRule: in the given functions no error handed back by the repository's own functions or by the
// bufiox reader/writer interfaces is dropped: it is tested, returned, stored or handed on. (The tree as pinned has two
// deliberate exceptions, both outside what the properties speak about: NocopyWriter.WriteDirect, whose contract is
// outside the repository, and Release of a reader over a byte slice.)
func errDisciplineRule(P *Program, r *Result, rule string, fns []*ssa.Function) {
	exempt := map[string]string{
		"WriteDirect": "the direct writer's contract is outside the repository (C15 fixes what it is told)",
		"Release":     "releasing a reader has no effect on what was decoded; its error is the stored source error already seen",
	}
	n := 0
	for _, fn := range fns {
		if fn == nil || fn.Blocks == nil {
			continue
		}
		for _, c := range callsIn(fn) {
			cc, ok := c.(*ssa.Call)
			if !ok {
				continue
			}
			com := cc.Common()
			if _, isB := com.Value.(*ssa.Builtin); isB {
				continue
			}
			sig := com.Signature()
			if sig == nil || sig.Results().Len() == 0 || !isErrorType(sig.Results().At(sig.Results().Len()-1).Type()) {
				continue
			}
			name := ""
			mine := false
			if com.IsInvoke() {
				name = com.Method.Name()
				if pk := com.Method.Pkg(); pk != nil && strings.HasPrefix(pk.Path(), modPath) {
					mine = true
				}
			} else if cal := com.StaticCallee(); cal != nil {
				name = cal.Name()
				mine = inRepo(cal)
			}
			if !mine || exempt[name] != "" {
				continue
			}
			n++
			ev := resultValue(cc, sig.Results().Len()-1)
			if sig.Results().Len() == 1 {
				ev = cc
			}
			used := ev != nil && errExamined(ev, map[ssa.Value]bool{})
			r.add(rule, shortName(fn), "err", "the error handed back by "+name+" is not dropped", P.pos(instrPos(cc)), used, "")
		}
	}
	r.Extra["error_results_followed"] = n
}

// pkgFuncs: the non-test functions (and methods) of one repository package, instances of generics included.
func pkgFuncs(P *Program, rel string) []*ssa.Function {
	var out []*ssa.Function
	for _, fn := range repoFuncs(P) {
		if fnPkgPath(fn) == modPath+"/"+rel && !isGenericOrigin(fn) && fn.Synthetic == "" {
			out = append(out, fn)
		}
	}
	return out
}
