package main

// Function contracts for E1: post-conditions are proved at every return of
// the callee (assuming the contracts of its callees, itself included for
// recursion) and assumed at call sites; candidates that fail are dropped and
// everything is re-checked until stable (Houdini). Preconditions are adopted
// on demand and become obligations at every call site in scope.

import (
	"fmt"
	"go/types"

	"golang.org/x/tools/go/ssa"
)

type Post struct {
	Kind   string // ret>=0 | ret<=len | span | retlen=param | len>=c | cell>=0 | par+c<=len | par+ret<=len
	Ret    int
	Param  int
	Param2 int
	C      int64
	Cond   bool // holds when the error result is nil
	Dead   bool
}

func (p *Post) String() string {
	c := ""
	if p.Cond {
		c = "err==nil ⇒ "
	}
	switch p.Kind {
	case "ret>=0":
		return fmt.Sprintf("%sret%d ≥ 0", c, p.Ret)
	case "ret>=1":
		return fmt.Sprintf("%sret%d ≥ 1", c, p.Ret)
	case "ret<=len":
		return fmt.Sprintf("%sret%d ≤ len(param%d)", c, p.Ret, p.Param)
	case "span":
		return fmt.Sprintf("%sp + ret%d ≤ e", c, p.Ret)
	case "retlen=param":
		return fmt.Sprintf("%slen(ret%d) = param%d", c, p.Ret, p.Param)
	case "retlen<=len":
		return fmt.Sprintf("%slen(ret%d) ≤ len(param%d)", c, p.Ret, p.Param)
	case "cell>=0":
		return fmt.Sprintf("*param%d ≥ 0 on return", p.Param)
	case "len>=c":
		return fmt.Sprintf("%slen(param%d) ≥ %d", c, p.Param, p.C)
	case "ret<=c":
		return fmt.Sprintf("%sret%d ≤ %d", c, p.Ret, p.C)
	case "cell<=len":
		return fmt.Sprintf("%s*param%d ≤ len(param%d) on return", c, p.Param, p.Param2)
	case "par+c<=len":
		return fmt.Sprintf("%sparam%d + %d ≤ len(param%d)", c, p.Param, p.C, p.Param2)
	case "par+ret<=len":
		return fmt.Sprintf("%sparam%d + ret%d ≤ len(param%d)", c, p.Param, p.Ret, p.Param2)
	}
	return p.Kind
}

type Pre struct {
	Kind    string // param>=0 | cell>=0 | len>=c | nonnil | cell<=len | par<=len
	Param   int
	Param2  int
	C       int64
	Adopted bool
}

func (p *Pre) String(fn *ssa.Function) string {
	n := fn.Params[p.Param].Name()
	switch p.Kind {
	case "param>=0":
		return n + " ≥ 0"
	case "param>=1":
		return n + " ≥ 1"
	case "cell>=0":
		return "*" + n + " ≥ 0"
	case "len>=c":
		return fmt.Sprintf("len(%s) ≥ %d", n, p.C)
	case "nonnil":
		return n + " != nil"
	case "cell<=len":
		return "*" + n + " ≤ len(" + fn.Params[p.Param2].Name() + ")"
	case "par<=len":
		return n + " ≤ len(" + fn.Params[p.Param2].Name() + ")"
	}
	return p.Kind
}

type Contract struct {
	Fn     *ssa.Function
	Posts  []*Post
	Pres   []*Pre
	ErrIdx int
	Need   int64 // bytes that must be readable at the raw pointer parameter (no span end)
	PtrPar int
}

func errIndex(fn *ssa.Function) int {
	res := fn.Signature.Results()
	if res.Len() == 0 {
		return -1
	}
	if isErrorType(res.At(res.Len() - 1).Type()) {
		return res.Len() - 1
	}
	return -1
}

func isIntPtr(t types.Type) bool {
	p, ok := t.Underlying().(*types.Pointer)
	return ok && isInteger(p.Elem())
}

func genContract(fn *ssa.Function) *Contract {
	c := &Contract{Fn: fn, ErrIdx: errIndex(fn), PtrPar: -1}
	res := fn.Signature.Results()
	hasSpan := false
	var pIdx, eIdx = -1, -1
	for i, p := range fn.Params {
		if isUnsafePointer(p.Type()) && pIdx < 0 {
			pIdx = i
		}
		if b, ok := p.Type().Underlying().(*types.Basic); ok && b.Kind() == types.Uintptr && eIdx < 0 {
			eIdx = i
		}
	}
	hasSpan = pIdx >= 0 && eIdx >= 0
	if pIdx >= 0 && eIdx < 0 {
		c.PtrPar = pIdx
	}
	for k := 0; k < res.Len(); k++ {
		rt := res.At(k).Type()
		conds := []bool{false}
		if c.ErrIdx >= 0 {
			conds = append(conds, true)
		}
		if isInteger(rt) {
			for _, cd := range conds {
				c.Posts = append(c.Posts, &Post{Kind: "ret>=0", Ret: k, Cond: cd})
			}
			for _, cd := range conds {
				c.Posts = append(c.Posts, &Post{Kind: "ret>=1", Ret: k, Cond: cd})
			}
			if b, ok := rt.Underlying().(*types.Basic); ok && b.Kind() == types.Int {
				for _, n := range []int64{255, 65535, 65537, 1<<31 - 1, 1<<32 - 1, 1<<32 + 8, 1 << 62} {
					c.Posts = append(c.Posts, &Post{Kind: "ret<=c", Ret: k, C: n})
				}
			}
			for j, p := range fn.Params {
				if isSliceOrString(p.Type()) {
					for _, cd := range conds {
						c.Posts = append(c.Posts, &Post{Kind: "ret<=len", Ret: k, Param: j, Cond: cd})
					}
				}
			}
			if hasSpan && c.ErrIdx >= 0 {
				c.Posts = append(c.Posts, &Post{Kind: "span", Ret: k, Cond: true})
			}
		}
		if isSliceOrString(rt) {
			for j, p := range fn.Params {
				if isInteger(p.Type()) {
					for _, cd := range conds {
						c.Posts = append(c.Posts, &Post{Kind: "retlen=param", Ret: k, Param: j, Cond: cd})
					}
				}
			}
		}
	}
	if c.ErrIdx >= 0 {
		for i, pi := range fn.Params {
			if b, ok := pi.Type().Underlying().(*types.Basic); !ok || b.Kind() != types.Int {
				continue
			}
			for j, pj := range fn.Params {
				if !isSliceOrString(pj.Type()) {
					continue
				}
				for _, n := range []int64{4, 2, 1} {
					c.Posts = append(c.Posts, &Post{Kind: "par+c<=len", Param: i, Param2: j, C: n, Cond: true})
				}
				for k := 0; k < res.Len(); k++ {
					if b, ok := res.At(k).Type().Underlying().(*types.Basic); ok && b.Kind() == types.Int {
						c.Posts = append(c.Posts, &Post{Kind: "par+ret<=len", Param: i, Param2: j, Ret: k, Cond: true})
					}
				}
			}
		}
	}
	for j, p := range fn.Params {
		if isSliceOrString(p.Type()) {
			for _, n := range []int64{14, 12, 8, 6, 5, 4, 3, 2, 1} {
				if c.ErrIdx >= 0 {
					c.Posts = append(c.Posts, &Post{Kind: "len>=c", Param: j, C: n, Cond: true})
				}
				c.Pres = append(c.Pres, &Pre{Kind: "len>=c", Param: j, C: n})
			}
		}
		if _, isMap := p.Type().Underlying().(*types.Map); isMap {
			c.Pres = append(c.Pres, &Pre{Kind: "nonnil", Param: j})
		}
		if isIntPtr(p.Type()) {
			c.Posts = append(c.Posts, &Post{Kind: "cell>=0", Param: j})
			c.Pres = append(c.Pres, &Pre{Kind: "cell>=0", Param: j})
			for j2, p2 := range fn.Params {
				if isSliceOrString(p2.Type()) {
					c.Pres = append(c.Pres, &Pre{Kind: "cell<=len", Param: j, Param2: j2})
					if c.ErrIdx >= 0 {
						c.Posts = append(c.Posts, &Post{Kind: "cell<=len", Param: j, Param2: j2, Cond: true})
					}
				}
			}
		}
		if b, ok := p.Type().Underlying().(*types.Basic); ok && b.Kind() == types.Int {
			for j2, p2 := range fn.Params {
				if isSliceOrString(p2.Type()) {
					c.Pres = append(c.Pres, &Pre{Kind: "par<=len", Param: j, Param2: j2})
				}
			}
		}
		if isInteger(p.Type()) {
			if b, ok := p.Type().Underlying().(*types.Basic); ok && b.Kind() == types.Int {
				// the stronger candidate first: minimisation drops candidates in this order, so the weaker one survives when it suffices
				c.Pres = append(c.Pres, &Pre{Kind: "param>=1", Param: j})
				c.Pres = append(c.Pres, &Pre{Kind: "param>=0", Param: j})
			}
		}
	}
	return c
}

// livePosts returns the surviving post-conditions without those implied by
// another survivor (a conditional one by its unconditional twin, a weaker
// constant bound by a stronger one).
func (c *Contract) livePosts() []*Post {
	var out []*Post
	for _, p := range c.Posts {
		if p.Dead {
			continue
		}
		implied := false
		for _, q := range c.Posts {
			if q == p || q.Dead || q.Kind != p.Kind || q.Ret != p.Ret || q.Param != p.Param || q.Param2 != p.Param2 {
				continue
			}
			if q.Cond && !p.Cond {
				continue // q is weaker in its guard
			}
			switch p.Kind {
			case "len>=c", "par+c<=len":
				if q.C > p.C || (q.C == p.C && !q.Cond && p.Cond) {
					implied = true
				}
			case "ret<=c":
				if q.C < p.C || (q.C == p.C && !q.Cond && p.Cond) {
					implied = true
				}
			default:
				if q.C == p.C && !q.Cond && p.Cond {
					implied = true
				}
			}
		}
		if !implied {
			out = append(out, p)
		}
	}
	return out
}

// contractEnv gives the terms of a contract at a return (callee side) or at a
// call site (caller side).
type contractEnv struct {
	retInt   func(k int) *Lin
	retLen   func(k int) *Lin
	retNil   func(k int) *Lin
	paramInt func(j int) *Lin
	paramLen func(j int) *Lin
	spanP    func() *Lin
	spanE    func() *Lin
	cellExit func(j int) *Lin
}

// formula instantiates a post-condition. nil terms make it inapplicable.
func (p *Post) formula(c *Contract, e *contractEnv) (guard []*Lin, facts []*Lin, ok bool) {
	if p.Cond {
		g := e.retNil(c.ErrIdx)
		if g == nil {
			return nil, nil, false
		}
		guard = []*Lin{ineqLE(g, linConst(0))}
	}
	switch p.Kind {
	case "ret>=0":
		r := e.retInt(p.Ret)
		if r == nil {
			return nil, nil, false
		}
		facts = []*Lin{ineqGE(r, linConst(0))}
	case "ret>=1":
		r := e.retInt(p.Ret)
		if r == nil {
			return nil, nil, false
		}
		facts = []*Lin{ineqGE(r, linConst(1))}
	case "ret<=len":
		r, l := e.retInt(p.Ret), e.paramLen(p.Param)
		if r == nil || l == nil {
			return nil, nil, false
		}
		facts = []*Lin{ineqLE(r, l)}
	case "span":
		r, sp, se := e.retInt(p.Ret), e.spanP(), e.spanE()
		if r == nil || sp == nil || se == nil {
			return nil, nil, false
		}
		facts = []*Lin{ineqLE(sp.add(r), se)}
	case "retlen=param":
		l, n := e.retLen(p.Ret), e.paramInt(p.Param)
		if l == nil || n == nil {
			return nil, nil, false
		}
		facts = []*Lin{ineqLE(l, n), ineqLE(n, l)}
	case "cell>=0":
		v := e.cellExit(p.Param)
		if v == nil {
			return nil, nil, false
		}
		facts = []*Lin{ineqGE(v, linConst(0))}
	case "len>=c":
		l := e.paramLen(p.Param)
		if l == nil {
			return nil, nil, false
		}
		facts = []*Lin{ineqGE(l, linConst(p.C))}
	case "cell<=len":
		v, l := e.cellExit(p.Param), e.paramLen(p.Param2)
		if v == nil || l == nil {
			return nil, nil, false
		}
		facts = []*Lin{ineqLE(v, l)}
	case "ret<=c":
		rr := e.retInt(p.Ret)
		if rr == nil {
			return nil, nil, false
		}
		facts = []*Lin{ineqLE(rr, linConst(p.C))}
	case "par+c<=len":
		n, l := e.paramInt(p.Param), e.paramLen(p.Param2)
		if n == nil || l == nil {
			return nil, nil, false
		}
		facts = []*Lin{ineqLE(n.addConst(p.C), l)}
	case "par+ret<=len":
		n, l, rr := e.paramInt(p.Param), e.paramLen(p.Param2), e.retInt(p.Ret)
		if n == nil || l == nil || rr == nil {
			return nil, nil, false
		}
		facts = []*Lin{ineqLE(n.add(rr), l)}
	default:
		return nil, nil, false
	}
	return guard, facts, true
}

// calleeEnv builds the environment at a return instruction of fa.fn.
func (fa *FA) calleeEnv(ret *ssa.Return) *contractEnv {
	fn := fa.fn
	return &contractEnv{
		retInt: func(k int) *Lin {
			if k < len(ret.Results) && isInteger(ret.Results[k].Type()) {
				return fa.expand(ret.Results[k])
			}
			return nil
		},
		retLen: func(k int) *Lin {
			if k < len(ret.Results) {
				if d := fa.sliceDesc(ret.Results[k]); d != nil {
					return d.Len
				}
			}
			return nil
		},
		retNil: func(k int) *Lin {
			if k >= 0 && k < len(ret.Results) {
				return fa.nilExpand(ret.Results[k])
			}
			return nil
		},
		paramInt: func(j int) *Lin { return fa.expand(fn.Params[j]) },
		paramLen: func(j int) *Lin {
			if d := fa.sliceDesc(fn.Params[j]); d != nil {
				return d.Len
			}
			return nil
		},
		spanP: func() *Lin {
			if fa.spanP != nil {
				return fa.ptrExpand(fa.spanP)
			}
			return nil
		},
		spanE: func() *Lin {
			if fa.spanE != nil {
				return fa.expand(fa.spanE)
			}
			return nil
		},
		cellExit: func(j int) *Lin {
			key := "P:" + fn.Params[j].Name()
			ver := fa.mem.versionAt(ret, key)
			if ver == nil {
				// never accessed: value on entry
				ver = fa.mem.entry[key]
				if ver == nil {
					ver = &MemVer{Kind: mEntry, Key: key}
				}
			}
			return fa.cellValue(ver, deref(fn.Params[j].Type()))
		},
	}
}

// resultValue finds the SSA value of result k of call c in the caller.
func resultValue(c *ssa.Call, k int) ssa.Value {
	n := c.Common().Signature().Results().Len()
	if n == 1 {
		if k == 0 {
			return c
		}
		return nil
	}
	if refs := c.Referrers(); refs != nil {
		for _, r := range *refs {
			if ex, ok := r.(*ssa.Extract); ok && ex.Index == k {
				return ex
			}
		}
	}
	return nil
}

func (fa *FA) callerEnv(c *ssa.Call, callee *ssa.Function) *contractEnv {
	args := c.Common().Args
	return &contractEnv{
		retInt: func(k int) *Lin {
			if v := resultValue(c, k); v != nil && isInteger(v.Type()) {
				return linAtom(fa.valAtom(v))
			}
			return nil
		},
		retLen: func(k int) *Lin {
			if v := resultValue(c, k); v != nil && isSliceOrString(v.Type()) {
				return linAtom(fa.lenAtom(v, aLen))
			}
			return nil
		},
		retNil: func(k int) *Lin {
			if v := resultValue(c, k); v != nil {
				return fa.nilExpand(v)
			}
			return nil
		},
		paramInt: func(j int) *Lin {
			if j < len(args) && isInteger(args[j].Type()) {
				return fa.expand(args[j])
			}
			return nil
		},
		paramLen: func(j int) *Lin {
			if j < len(args) {
				if d := fa.sliceDesc(args[j]); d != nil {
					return d.Len
				}
			}
			return nil
		},
		spanP: func() *Lin {
			for j, p := range callee.Params {
				if isUnsafePointer(p.Type()) && j < len(args) {
					return fa.ptrExpand(args[j])
				}
			}
			return nil
		},
		spanE: func() *Lin {
			for j, p := range callee.Params {
				if b, ok := p.Type().Underlying().(*types.Basic); ok && b.Kind() == types.Uintptr && j < len(args) {
					return fa.expand(args[j])
				}
			}
			return nil
		},
		cellExit: func(j int) *Lin {
			if j >= len(args) {
				return nil
			}
			key := fa.mem.addrKey(args[j])
			if key == "" {
				return nil
			}
			ver := fa.mem.versionAfter(c, key)
			if ver == nil {
				return nil
			}
			return fa.cellValue(ver, deref(args[j].Type()))
		},
	}
}

// attachCallFacts attaches the callee's post-conditions to the atoms of the
// call's results (once per call).
func (fa *FA) attachCallFacts(c *ssa.Call) {
	A := fa.A
	key := "callfacts:" + fa.id + ":" + c.Name()
	if _, done := A.byKey[key]; done {
		return
	}
	A.atom(key, nil)
	com := c.Common()
	callee := com.StaticCallee()
	// atoms defined by this call: its results (value, length, capacity, nil-ness)
	resAtoms := map[AtomID]bool{}
	nres := com.Signature().Results().Len()
	for k := 0; k < nres; k++ {
		v := resultValue(c, k)
		if v == nil {
			continue
		}
		t := v.Type()
		switch {
		case isInteger(t):
			resAtoms[fa.valAtom(v)] = true
		case isSliceOrString(t):
			resAtoms[fa.lenAtom(v, aLen)] = true
			if !isString(t) {
				resAtoms[fa.lenAtom(v, aCap)] = true
			}
		}
		if nl := fa.nilExpand(v); len(nl.T) == 1 {
			for id := range nl.T {
				resAtoms[id] = true
			}
		}
	}
	attach := func(guard, facts []*Lin, desc string) {
		// A fact may only become available once the call has executed: it is attached to
		// the atoms the call defines, or guarded by a condition on one of them.
		targets := map[AtomID]bool{}
		for _, f := range facts {
			for id := range f.T {
				if resAtoms[id] || (A.at(id).Kind == aCell && A.at(id).Block == c.Block()) {
					targets[id] = true
				}
			}
		}
		guardOK := false
		for _, g := range guard {
			for id := range g.T {
				if resAtoms[id] {
					guardOK = true
				}
			}
		}
		if len(guard) == 0 {
			for id := range targets {
				A.at(id).Facts = append(A.at(id).Facts, facts...)
			}
			return // a fact about older atoms only is not attached at all
		}
		if !guardOK && len(targets) == 0 {
			return
		}
		t := A.newTrigger(desc, guard, facts)
		var owner *Atom
		for id := range targets {
			owner = A.at(id)
			break
		}
		if owner == nil {
			for _, g := range guard {
				for id := range g.T {
					if resAtoms[id] {
						owner = A.at(id)
					}
				}
			}
		}
		A.addTrig(owner, t)
	}
	if callee != nil {
		if ct, ok := A.contracts[callee]; ok && A.scope[callee] {
			env := fa.callerEnv(c, callee)
			for _, p := range ct.livePosts() {
				if p.Kind == "cell>=0" || p.Kind == "cell<=len" {
					continue
				}
				if g, f, ok := p.formula(ct, env); ok {
					attach(g, f, "post "+callee.Name()+": "+p.String())
				}
			}
			return
		}
	}
	// assumed interface contracts: Next/Peek/SkipN(n) return exactly n bytes when err == nil
	name := ""
	var nArg ssa.Value
	if com.IsInvoke() {
		name = com.Method.Name()
		if len(com.Args) == 1 {
			nArg = com.Args[0]
		}
	} else if callee != nil && callee.Signature.Recv() != nil {
		name = callee.Name()
		if len(com.Args) == 2 {
			nArg = com.Args[1]
		}
	}
	// bufiox.Writer.WriteBinary / bufiox.Reader.ReadBinary: 0 ≤ n ≤ len(arg); WriteBinary: err == nil ⇒ n = len(arg)
	if (name == "WriteBinary" || name == "ReadBinary") && nArg != nil && isByteSlice(nArg.Type()) {
		res := com.Signature().Results()
		if res.Len() == 2 && isInteger(res.At(0).Type()) && isErrorType(res.At(1).Type()) {
			r0, r1 := resultValue(c, 0), resultValue(c, 1)
			if d := fa.sliceDesc(nArg); r0 != nil && d != nil {
				n := linAtom(fa.valAtom(r0))
				A.at(fa.valAtom(r0)).Facts = append(A.at(fa.valAtom(r0)).Facts, ineqGE(n, linConst(0)), ineqLE(n, d.Len))
				if r1 != nil && name == "WriteBinary" {
					attach([]*Lin{ineqLE(fa.nilExpand(r1), linConst(0))}, []*Lin{ineqGE(n, d.Len)}, "iface WriteBinary: err==nil ⇒ n=len(bs)")
				}
			}
		}
	}
	if A.ifaceLenEqParam[name] && nArg != nil && isInteger(nArg.Type()) {
		res := com.Signature().Results()
		if res.Len() == 2 && isByteSlice(res.At(0).Type()) && isErrorType(res.At(1).Type()) {
			r0, r1 := resultValue(c, 0), resultValue(c, 1)
			if r0 != nil && r1 != nil {
				l := linAtom(fa.lenAtom(r0, aLen))
				n := fa.expand(nArg)
				attach([]*Lin{ineqLE(fa.nilExpand(r1), linConst(0))}, []*Lin{ineqLE(l, n), ineqLE(n, l)}, "iface "+name+": err==nil ⇒ len(ret)=n")
			}
		}
	}
}

// attachCellPost: after call c clobbered a cell that was passed by pointer,
// the callee's cell post-condition holds for the new version.
func (fa *FA) attachCellPost(c *ssa.Call, ver *MemVer, id AtomID) {
	A := fa.A
	callee := c.Common().StaticCallee()
	if callee == nil {
		return
	}
	ct, ok := A.contracts[callee]
	if !ok || !A.scope[callee] {
		return
	}
	args := c.Common().Args
	for _, p := range ct.Posts {
		if p.Dead || p.Param >= len(args) || fa.mem.addrKey(args[p.Param]) != ver.Key {
			continue
		}
		switch p.Kind {
		case "cell>=0":
			A.at(id).Facts = append(A.at(id).Facts, ineqGE(linAtom(id), linConst(0)))
		case "cell<=len":
			d := fa.sliceDesc(args[p.Param2])
			ev := resultValue(c, ct.ErrIdx)
			if d == nil || ev == nil {
				continue
			}
			t := A.newTrigger("post "+callee.Name()+": "+p.String(), []*Lin{ineqLE(fa.nilExpand(ev), linConst(0))}, []*Lin{ineqLE(linAtom(id), d.Len)})
			A.addTrig(A.at(id), t)
		}
	}
}

// attachCellPre: the value of a pointed-to cell on entry satisfies the adopted
// cell preconditions.
func (fa *FA) attachCellPre(ver *MemVer, id AtomID) {
	ct, ok := fa.A.contracts[fa.fn]
	if !ok {
		return
	}
	for _, p := range ct.Pres {
		if !p.Adopted || "P:"+fa.fn.Params[p.Param].Name() != ver.Key {
			continue
		}
		switch p.Kind {
		case "cell>=0":
			fa.A.at(id).Facts = append(fa.A.at(id).Facts, ineqGE(linAtom(id), linConst(0)))
		case "cell<=len":
			if d := fa.sliceDesc(fa.fn.Params[p.Param2]); d != nil {
				fa.A.at(id).Facts = append(fa.A.at(id).Facts, ineqLE(linAtom(id), d.Len))
			}
		}
	}
}

// installPres puts the adopted parameter preconditions into the entry facts.
func (fa *FA) installPres() {
	fa.pre = nil
	ct, ok := fa.A.contracts[fa.fn]
	if !ok {
		return
	}
	for _, p := range ct.Pres {
		if p.Adopted && p.Kind == "param>=0" {
			fa.pre = append(fa.pre, ineqGE(fa.expand(fa.fn.Params[p.Param]), linConst(0)))
		}
		if p.Adopted && p.Kind == "param>=1" {
			fa.pre = append(fa.pre, ineqGE(fa.expand(fa.fn.Params[p.Param]), linConst(1)))
		}
		if p.Adopted && p.Kind == "len>=c" {
			if d := fa.sliceDesc(fa.fn.Params[p.Param]); d != nil {
				fa.pre = append(fa.pre, ineqGE(d.Len, linConst(p.C)))
			}
		}
		if p.Adopted && p.Kind == "par<=len" {
			if d := fa.sliceDesc(fa.fn.Params[p.Param2]); d != nil {
				fa.pre = append(fa.pre, ineqLE(fa.expand(fa.fn.Params[p.Param]), d.Len))
			}
		}
		if p.Adopted && p.Kind == "nonnil" {
			fa.pre = append(fa.pre, ineqGE(fa.nilExpand(fa.fn.Params[p.Param]), linConst(1)))
		}
	}
}

// ---- Houdini ----

type contractSet struct {
	P      *Program
	scope  []*ssa.Function
	inSc   map[*ssa.Function]bool
	cts    map[*ssa.Function]*Contract
	tables map[*ssa.Global][2]int64
	iface  map[string]bool
	rounds int
}

func (cs *contractSet) newAnalysis() *Analysis {
	A := newAnalysis(cs.P)
	A.contracts = cs.cts
	A.scope = cs.inSc
	A.tables = cs.tables
	A.ifaceLenEqParam = cs.iface
	return A
}

func returnsOf(fn *ssa.Function) []*ssa.Return {
	var out []*ssa.Return
	for _, b := range fn.Blocks {
		if r, ok := b.Instrs[len(b.Instrs)-1].(*ssa.Return); ok {
			out = append(out, r)
		}
	}
	return out
}

// sccOrder returns the strongly connected components of the static call graph
// restricted to the scope, callees first.
func (cs *contractSet) sccOrder() [][]*ssa.Function {
	idx := map[*ssa.Function]int{}
	low := map[*ssa.Function]int{}
	on := map[*ssa.Function]bool{}
	var stack []*ssa.Function
	var out [][]*ssa.Function
	n := 0
	callees := func(fn *ssa.Function) []*ssa.Function {
		var cs2 []*ssa.Function
		for _, b := range fn.Blocks {
			for _, in := range b.Instrs {
				if c, ok := in.(ssa.CallInstruction); ok {
					if cal := c.Common().StaticCallee(); cal != nil && cs.inSc[cal] {
						cs2 = append(cs2, cal)
					}
				}
			}
		}
		return cs2
	}
	var strong func(v *ssa.Function)
	strong = func(v *ssa.Function) {
		idx[v], low[v] = n, n
		n++
		stack = append(stack, v)
		on[v] = true
		for _, w := range callees(v) {
			if _, ok := idx[w]; !ok {
				strong(w)
				if low[w] < low[v] {
					low[v] = low[w]
				}
			} else if on[w] && idx[w] < low[v] {
				low[v] = idx[w]
			}
		}
		if low[v] == idx[v] {
			var comp []*ssa.Function
			for {
				w := stack[len(stack)-1]
				stack = stack[:len(stack)-1]
				on[w] = false
				comp = append(comp, w)
				if w == v {
					break
				}
			}
			out = append(out, comp)
		}
	}
	for _, fn := range cs.scope {
		if _, ok := idx[fn]; !ok {
			strong(fn)
		}
	}
	return out
}

// houdiniOn (re-)establishes the contracts of the functions in dirty (nil =
// all). The components of the call graph are processed callees first, so that
// a function is analysed once its callees' contracts are final; only recursive
// components are re-analysed until their own contracts are stable.
func (cs *contractSet) houdiniOn(A *Analysis, dirty map[*ssa.Function]bool) {
	for _, comp := range cs.sccOrder() {
		touched := dirty == nil
		for _, fn := range comp {
			if dirty[fn] {
				touched = true
			}
		}
		if !touched {
			continue
		}
		recursive := len(comp) > 1
		if !recursive {
			for _, b := range comp[0].Blocks {
				for _, in := range b.Instrs {
					if c, ok := in.(ssa.CallInstruction); ok && c.Common().StaticCallee() == comp[0] {
						recursive = true
					}
				}
			}
		}
		for _, fn := range comp {
			for _, p := range cs.cts[fn].Posts {
				p.Dead = false
			}
			A.dropFA(fn)
		}
		for {
			cs.rounds++
			changed := false
			for _, fn := range comp {
				ct := cs.cts[fn]
				fa := A.fa(fn)
				for _, p := range ct.Posts {
					if p.Dead {
						continue
					}
					for _, ret := range returnsOf(fn) {
						g, f, ok := p.formula(ct, fa.calleeEnv(ret))
						good := ok
						if ok {
							for _, goal := range f {
								if !fa.prove(goal, ret.Block(), rootCtx.with(g, nil)) {
									good = false
									break
								}
							}
						}
						if !good {
							p.Dead = true
							changed = true
							break
						}
					}
				}
			}
			if !changed || !recursive {
				break
			}
			// the facts attached from the dropped contracts of the component are stale: rebuild it
			for _, fn := range comp {
				A.dropFA(fn)
			}
		}
	}
}

func (cs *contractSet) houdini() *Analysis {
	A := cs.newAnalysis()
	cs.houdiniOn(A, nil)
	return A
}

// callersClosure returns fns plus all their transitive callers inside the scope.
func (cs *contractSet) callersClosure(fns map[*ssa.Function]bool) map[*ssa.Function]bool {
	out := map[*ssa.Function]bool{}
	for f := range fns {
		out[f] = true
	}
	for changed := true; changed; {
		changed = false
		for _, fn := range cs.scope {
			if out[fn] {
				continue
			}
			for _, b := range fn.Blocks {
				for _, in := range b.Instrs {
					if c, ok := in.(ssa.CallInstruction); ok {
						if cal := c.Common().StaticCallee(); cal != nil && out[cal] {
							out[fn] = true
							changed = true
						}
					}
				}
			}
		}
	}
	return out
}

func newContractSet(P *Program, scope []*ssa.Function) *contractSet {
	cs := &contractSet{P: P, scope: scope, inSc: map[*ssa.Function]bool{}, cts: map[*ssa.Function]*Contract{},
		tables: map[*ssa.Global][2]int64{}, iface: map[string]bool{}}
	for _, fn := range scope {
		cs.inSc[fn] = true
		cs.cts[fn] = genContract(fn)
	}
	return cs
}

func (cs *contractSet) resetPosts() {
	for _, fn := range cs.scope {
		for _, p := range cs.cts[fn].Posts {
			p.Dead = false
		}
	}
}
