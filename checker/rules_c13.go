package main

// C13: unknown-field trees. Sibling agreement between the reader, the length
// function and the writer of protocol/thrift/unknownfields.

import (
	"fmt"
	"go/token"
	"go/types"
	"math/big"
	"sort"
	"strings"

	"golang.org/x/tools/go/ssa"
)

const relUF = "protocol/thrift/unknownfields"

// ---------- generic path-wise symbolic summary ----------

type symSpec struct {
	// Classify names a branch decision; prune drops the path.
	Classify func(cond ssa.Value, taken bool) (class string, prune bool)
	// OnCall may return substitutions (result atom → canonical form) to install when the call is passed.
	OnCall    func(c *ssa.Call, resolve func(*Lin) *Lin) map[AtomID]*Lin
	ResultIdx int
	MaxVisits int
	// FinalSub: atoms whose value is known in this run (e.g. a table entry for the tag under consideration)
	FinalSub map[AtomID]*Lin
}

type symResult struct {
	Forms    map[string]*Lin
	Conflict []string
	Paths    int
}

func symPaths(fa *FA, spec symSpec) symResult {
	fn := fa.fn
	fa.ensureInvariants()
	res := symResult{Forms: map[string]*Lin{}}
	if spec.MaxVisits == 0 {
		spec.MaxVisits = 3
	}
	type state struct {
		b     *ssa.BasicBlock
		sub   map[AtomID]*Lin
		seen  map[*ssa.BasicBlock]int
		class []string
	}
	mkResolve := func(sub map[AtomID]*Lin) func(*Lin) *Lin {
		return func(l *Lin) *Lin {
			for i := 0; i < 8; i++ {
				n := l.substAll(sub)
				if n.equal(l) {
					break
				}
				l = n
			}
			return l
		}
	}
	var walk func(st state)
	walk = func(st state) {
		if res.Paths > 20000 {
			return
		}
		resolve := mkResolve(st.sub)
		for _, in := range st.b.Instrs {
			if c, ok := in.(*ssa.Call); ok && spec.OnCall != nil {
				for k, v := range spec.OnCall(c, resolve) {
					st.sub[k] = v
				}
			}
		}
		last := st.b.Instrs[len(st.b.Instrs)-1]
		if ret, ok := last.(*ssa.Return); ok {
			res.Paths++
			v := resolve(fa.expand(ret.Results[spec.ResultIdx]))
			if spec.FinalSub != nil {
				v = v.substAll(spec.FinalSub)
			}
			key := strings.Join(st.class, ",")
			if old, has := res.Forms[key]; has && !old.equal(v) {
				res.Conflict = append(res.Conflict, key)
			}
			res.Forms[key] = v
			return
		}
		if _, ok := last.(*ssa.Panic); ok {
			return
		}
		iff, isIf := last.(*ssa.If)
		for si, s := range st.b.Succs {
			if st.seen[s] >= spec.MaxVisits {
				continue
			}
			ns := state{b: s, sub: map[AtomID]*Lin{}, seen: map[*ssa.BasicBlock]int{}, class: append([]string{}, st.class...)}
			if isIf && st.b.Succs[0] != st.b.Succs[1] {
				cl, prune := spec.Classify(iff.Cond, si == 0)
				if prune {
					continue
				}
				if cl != "" {
					ns.class = append(ns.class, cl)
				}
			}
			for k, v := range st.sub {
				ns.sub[k] = v
			}
			for k, v := range st.seen {
				ns.seen[k] = v
			}
			ns.seen[s]++
			idx := -1
			for i, p := range s.Preds {
				if p == st.b {
					idx = i
				}
			}
			for _, a := range fa.phiAtomsOf(s) {
				if a.Kind == aVal || a.Kind == aCell {
					ns.sub[a.ID] = resolve(a.Phi.In(idx))
				}
			}
			walk(ns)
		}
	}
	walk(state{b: fn.Blocks[0], sub: map[AtomID]*Lin{}, seen: map[*ssa.BasicBlock]int{fn.Blocks[0]: 1}})
	return res
}

// symAtom returns a shared atom for a canonical symbol.
func symAtom(A *Analysis, name string) *Lin {
	id := A.atom("sym:"+name, func(a *Atom) {
		a.Kind = aVal
		a.Name = name
		a.Lo, a.Hi = bi(0), maxLen
	})
	return linAtom(id)
}

// desig renders a value in terms that do not depend on SSA numbering.
func desig(fa *FA, v ssa.Value, resolve func(*Lin) *Lin, depth int) string {
	if depth > 12 {
		return "?"
	}
	switch x := v.(type) {
	case *ssa.Parameter:
		for i, p := range fa.fn.Params {
			if p == x {
				t := p.Type().String()
				switch {
				case strings.HasSuffix(t, "*"+modPath+"/"+relUF+".UnknownField") || strings.HasPrefix(t, "*") && strings.HasSuffix(t, ".UnknownField"):
					return "F"
				case strings.HasPrefix(t, "[]") && strings.HasSuffix(t, ".UnknownField"):
					return "FS"
				case isByteSlice(p.Type()):
					return "buf"
				}
				return fmt.Sprintf("param%d", i)
			}
		}
	case *ssa.UnOp:
		if x.Op == token.MUL {
			return desig(fa, x.X, resolve, depth+1)
		}
	case *ssa.FieldAddr:
		st := deref(x.X.Type()).Underlying().(*types.Struct)
		return desig(fa, x.X, resolve, depth+1) + "." + st.Field(x.Field).Name()
	case *ssa.Field:
		st := x.X.Type().Underlying().(*types.Struct)
		return desig(fa, x.X, resolve, depth+1) + "." + st.Field(x.Field).Name()
	case *ssa.TypeAssert:
		return desig(fa, x.X, resolve, depth+1) + ".(" + types.TypeString(x.AssertedType, func(*types.Package) string { return "" }) + ")"
	case *ssa.IndexAddr:
		idx := resolve(fa.expand(x.Index))
		return desig(fa, x.X, resolve, depth+1) + "[" + fa.A.linString(idx) + "]"
	case *ssa.Alloc:
		// a local copy of an element: the unique non-zero store decides
		var src ssa.Value
		n := 0
		if refs := x.Referrers(); refs != nil {
			for _, r := range *refs {
				if st, ok := r.(*ssa.Store); ok && st.Addr == ssa.Value(x) {
					if c, isC := st.Val.(*ssa.Const); isC && c.Value == nil {
						continue
					}
					src = st.Val
					n++
				}
			}
		}
		if n == 1 {
			return desig(fa, src, resolve, depth+1)
		}
		return "local(" + x.Comment + ")"
	case *ssa.Extract:
		if _, isNext := x.Tuple.(*ssa.Next); isNext {
			return fmt.Sprintf("iter#%d", x.Index)
		}
	case *ssa.Slice:
		return desig(fa, x.X, resolve, depth+1)
	case *ssa.Phi:
		return "phi(" + x.Comment + ")"
	}
	return v.Name()
}

// writeLenTable: bytes produced by the in-place writers of thrift.Binary, in
// terms of their arguments (decided separately under C01/LEN).
func binaryWriteLen(fa *FA, c *ssa.Call, lenOf func(v ssa.Value) *Lin) *Lin {
	cal := c.Common().StaticCallee()
	if cal == nil {
		return nil
	}
	args := c.Common().Args
	switch cal.Name() {
	case "WriteStringNocopy", "WriteBinaryNocopy":
		return lenOf(args[3]).addConst(4)
	case "WriteString", "WriteBinary":
		return lenOf(args[2]).addConst(4)
	case "WriteFieldBegin":
		return linConst(3)
	case "WriteFieldStop", "WriteByte", "WriteBool":
		return linConst(1)
	case "WriteI16":
		return linConst(2)
	case "WriteI32":
		return linConst(4)
	case "WriteI64", "WriteDouble":
		return linConst(8)
	case "WriteMapBegin":
		return linConst(6)
	case "WriteListBegin", "WriteSetBegin":
		return linConst(5)
	}
	return nil
}

func isBinaryProtocolMethod(cal *ssa.Function) bool {
	return cal != nil && cal.Signature.Recv() != nil && cal.Signature.Recv().Type().String() == modPath+"/"+relThrift+".BinaryProtocol"
}

// ufClassify: classes of the (f.Type == K) dispatch and loop decisions; error
// exits are pruned (only the successful result is compared).
// tagTableValue: v (through conversions) is a load from an immutable package-level
// table indexed by the field's type tag; its value for the given tag.
func tagTableValue(fa *FA, v ssa.Value, tag int64) (int64, bool) {
	v = stripConv(v)
	ld, ok := v.(*ssa.UnOp)
	if !ok || ld.Op != token.MUL {
		return 0, false
	}
	ia, ok := ld.X.(*ssa.IndexAddr)
	if !ok {
		return 0, false
	}
	g, ok := ia.X.(*ssa.Global)
	if !ok {
		return 0, false
	}
	if d := desig(fa, stripConv(ia.Index), func(l *Lin) *Lin { return l }, 0); !strings.HasSuffix(d, ".Type") {
		return 0, false
	}
	tc, ok := tableContents(fa.A.P, g)
	if !ok {
		return 0, false
	}
	return tc[tag&0xff], true
}

func ufClassify(fa *FA) func(cond ssa.Value, taken bool) (string, bool) {
	return ufClassifyTag(fa, -1)
}

// ufClassifyTag: with tag ≥ 0 every decision about the field's type is resolved
// for that tag (branches that contradict it are pruned, no label is produced).
func ufClassifyTag(fa *FA, tag int64) func(cond ssa.Value, taken bool) (string, bool) {
	return func(cond ssa.Value, taken bool) (string, bool) {
		for _, dc := range condImplies(cond, taken, 0) {
			if tag >= 0 {
				if bo, ok := dc.Cond.(*ssa.BinOp); ok {
					if k, isC := constInt(bo.Y); isC {
						// a comparison of a table entry for the tag with a constant
						if tv, isT := tagTableValue(fa, bo.X, tag); isT {
							holds := false
							switch bo.Op {
							case token.GTR:
								holds = tv > k
							case token.GEQ:
								holds = tv >= k
							case token.LSS:
								holds = tv < k
							case token.LEQ:
								holds = tv <= k
							case token.EQL:
								holds = tv == k
							case token.NEQ:
								holds = tv != k
							}
							if holds != dc.Truth {
								return "", true
							}
							return "", false
						}
						if bo.Op == token.EQL || bo.Op == token.NEQ {
							d := desig(fa, bo.X, func(l *Lin) *Lin { return l }, 0)
							if strings.HasSuffix(d, ".Type") || d == "param2" {
								if ((k == tag) == (bo.Op == token.EQL)) != dc.Truth {
									return "", true
								}
								return "", false
							}
						}
					}
				}
			}
			bo, ok := dc.Cond.(*ssa.BinOp)
			if !ok {
				continue
			}
			if isNilConst(bo.X) || isNilConst(bo.Y) {
				v := bo.X
				if isNilConst(v) {
					v = bo.Y
				}
				if isErrorType(v.Type()) {
					isNil := (bo.Op == token.EQL) == dc.Truth
					if !isNil {
						return "", true
					}
					return "", false
				}
			}
			if k, isC := constInt(bo.Y); isC && (bo.Op == token.EQL || bo.Op == token.NEQ) {
				d := desig(fa, bo.X, func(l *Lin) *Lin { return l }, 0)
				if strings.HasSuffix(d, ".Type") || d == "param2" {
					if (bo.Op == token.EQL) == dc.Truth {
						return fmt.Sprintf("T=%d", k), false
					}
					return "", false
				}
			}
			if bo.Op == token.LSS || bo.Op == token.GTR || bo.Op == token.LEQ || bo.Op == token.GEQ {
				if dc.Truth {
					return "iter", false
				}
				return "done", false
			}
		}
		return "?", false
	}
}

func checkC13(P *Program, r *Result, tier string) {
	r.Explanation = "Sibling agreement between readUnknownField, unknownFieldLength and writeUnknownField (and their list-level wrappers): TRIPLE (every wire type has a case in all three; the codec function used, the Go type stored/asserted and the container tag fields agree), " +
		"LEN (on each enumerated path class — per type, containers with 0/1/2 elements — the length function and the writer add up to the same linear form over per-element recursion symbols), " +
		"CURSOR-ARG (every codec/recursive call is issued at the running cursor, on every enumerated path), FRESH-OUT (the reader recursion always receives a zeroed UnknownField: a fresh make() element or a local reset since its last use), " +
		"LOOP-BOUND (each element loop runs exactly as often as the container header declares), TAGS (KeyType/ValType are stored only in the MAP / SET / LIST cases and from the container header that was read)."
	A := newAnalysis(P)
	conv := P.Func(relUF, "ConvertUnknownFields")
	lns := P.Func(relUF, "UnknownFieldsLength")
	wrs := P.Func(relUF, "WriteUnknownFields")
	// the per-field workers behind the exported entry points, found by signature
	rd := P.findReachable([]*ssa.Function{conv}, func(f *ssa.Function) bool {
		return f != conv && sigIs(f, "(*UnknownField, []byte, int8, int16)", "(int, error)")
	})
	ln := P.findReachable([]*ssa.Function{lns}, func(f *ssa.Function) bool {
		return f != lns && sigIs(f, "(*UnknownField)", "(int, error)")
	})
	wr := P.findReachable([]*ssa.Function{wrs}, func(f *ssa.Function) bool {
		return f != wrs && sigIs(f, "([]byte, *UnknownField)", "(int, error)")
	})
	if !r.require("unknownfields: reader, length and writer functions", rd != nil && ln != nil && wr != nil && conv != nil && lns != nil && wrs != nil) {
		return
	}
	for _, f := range []*ssa.Function{rd, ln, wr, conv, lns, wrs} {
		r.Funcs[shortName(f)] = true
	}
	// ---------- TRIPLE ----------
	type caseInfo struct {
		calls   []string // BinaryProtocol methods called in the case region
		recs    int      // recursive calls
		assert  string   // asserted / stored Go type
		rebuilt bool     // reader: the stored scalar is not directly the codec reader's result
		stores  []string // receiver-field stores (reader)
		pos     token.Pos
	}
	collect := func(fn *ssa.Function, sel func(v ssa.Value) bool) map[int64]*caseInfo {
		out := map[int64]*caseInfo{}
		// a case with several values (case SET, LIST:) is a block entered from one equality test per value
		multi := func(b *ssa.BasicBlock) []int64 {
			if len(b.Preds) < 2 {
				return nil
			}
			var ks []int64
			for _, p := range b.Preds {
				iff, ok := p.Instrs[len(p.Instrs)-1].(*ssa.If)
				if !ok || p.Succs[0] != b || p.Succs[1] == b {
					return nil
				}
				bo, ok := iff.Cond.(*ssa.BinOp)
				if !ok || bo.Op != token.EQL || !sel(bo.X) {
					return nil
				}
				c, isC := constInt(bo.Y)
				if !isC {
					return nil
				}
				ks = append(ks, c)
			}
			return ks
		}
		for _, b := range fn.Blocks {
			var keys []int64
			for _, dc := range blockConds(b, nil, 0) {
				if bo, ok := dc.Cond.(*ssa.BinOp); ok && bo.Op == token.EQL && dc.Truth && sel(bo.X) {
					if c, isC := constInt(bo.Y); isC {
						keys = []int64{c}
					}
				}
			}
			if len(keys) == 0 {
				for x := b; x != nil && len(keys) == 0; x = x.Idom() {
					keys = multi(x)
				}
			}
			for _, k := range keys {
				ci := out[k]
				if ci == nil {
					ci = &caseInfo{pos: b.Instrs[0].Pos()}
					out[k] = ci
				}
				for _, in := range b.Instrs {
					switch x := in.(type) {
					case *ssa.Call:
						cal := x.Common().StaticCallee()
						if isBinaryProtocolMethod(cal) {
							ci.calls = append(ci.calls, cal.Name())
						} else if cal != nil && (cal == rd || cal == ln || cal == wr || cal == lns || cal == wrs) {
							ci.recs++
						} else if cal != nil && cal.Pkg == fn.Pkg && cal.Blocks != nil && cal != fn {
							// an extracted helper: the recursive calls it makes count for this case
							for _, c2 := range callsIn(cal) {
								if g := c2.Common().StaticCallee(); g == rd || g == ln || g == wr || g == lns || g == wrs {
									ci.recs++
								}
							}
						}
					case *ssa.TypeAssert:
						ci.assert = types.TypeString(x.AssertedType, func(*types.Package) string { return "" })
					case *ssa.MakeInterface:
						if fn == rd {
							ci.assert = types.TypeString(x.X.Type(), func(*types.Package) string { return "" })
							// what is boxed is what the codec's reader handed back (not a value looked up or rebuilt from it)
							if _, isSlice := x.X.Type().Underlying().(*types.Slice); !isSlice {
								src := x.X
								if cv, isCv := src.(*ssa.ChangeType); isCv {
									src = cv.X
								}
								ex, isEx := src.(*ssa.Extract)
								fromRead := false
								if isEx && ex.Index == 0 {
									if c, isCall := ex.Tuple.(*ssa.Call); isCall && isBinaryProtocolMethod(c.Common().StaticCallee()) && strings.HasPrefix(c.Common().StaticCallee().Name(), "Read") {
										fromRead = true
									}
								}
								if !fromRead {
									ci.rebuilt = true
								}
							}
						}
					case *ssa.Store:
						if f := recvFieldOf(fn, x.Addr); f != "" {
							ci.stores = append(ci.stores, f)
						}
					}
					if p := in.Pos(); p.IsValid() && !ci.pos.IsValid() {
						ci.pos = p
					}
				}
			}
		}
		return out
	}
	rdCases := collect(rd, func(v ssa.Value) bool { return v == ssa.Value(rd.Params[2]) })
	isTypeLoad := func(p *ssa.Parameter) func(v ssa.Value) bool {
		return func(v ssa.Value) bool { return loadsParamField(p, v, "Type") }
	}
	lnCases := collect(ln, isTypeLoad(ln.Params[0]))
	wrCases := collect(wr, isTypeLoad(wr.Params[1]))
	spec := map[int64][2]string{ // wire type → codec family name, Go type of the value
		2: {"Bool", "bool"}, 3: {"Byte", "int8"}, 4: {"Double", "float64"}, 6: {"I16", "int16"}, 8: {"I32", "int32"}, 10: {"I64", "int64"},
		11: {"String", "string"}, 12: {"", "[]UnknownField"}, 13: {"MapBegin", "[]UnknownField"}, 14: {"SetBegin", "[]UnknownField"}, 15: {"ListBegin", "[]UnknownField"},
	}
	var ks []int64
	for k := range spec {
		ks = append(ks, k)
	}
	sort.Slice(ks, func(i, j int) bool { return ks[i] < ks[j] })
	// SetBegin and ListBegin are one wire layout (type byte, 32-bit count): either codec function serves both
	alias := func(s string) string { return strings.Replace(s, "SetBegin", "ListBegin", 1) }
	has := func(l []string, s string) bool {
		for _, x := range l {
			if x == s || alias(x) == alias(s) {
				return true
			}
		}
		return false
	}
	lcMissing := map[int64]bool{} // types the length function answers without a case of their own (decided under LEN)
	for _, k := range ks {
		sp := spec[k]
		rc, lc, wc := rdCases[k], lnCases[k], wrCases[k]
		if lc == nil {
			lcMissing[k] = true
			lc = &caseInfo{calls: []string{sp[0] + "Length"}, recs: map[int64]int{12: 1, 13: 2, 14: 1, 15: 1}[k]}
			if sp[0] == "" {
				lc.calls = []string{"FieldStopLength"}
			}
		}
		detail := ""
		pos := P.pos(rd.Pos())
		switch {
		case rc == nil:
			detail = "readUnknownField has no case for this type"
		case false:
		case wc == nil:
			detail = "writeUnknownField has no case for this type"
		default:
			pos = P.pos(rc.pos)
			if sp[0] != "" {
				if !has(rc.calls, "Read"+sp[0]) || len(rc.calls) != 1 {
					detail = fmt.Sprintf("reader case calls %v, expected Read%s only", rc.calls, sp[0])
				} else if !has(lc.calls, sp[0]+"Length") || len(lc.calls) != 1 {
					detail = fmt.Sprintf("length case calls %v, expected %sLength only", lc.calls, sp[0])
				} else if !has(wc.calls, "Write"+sp[0]) || len(wc.calls) != 1 {
					detail = fmt.Sprintf("writer case calls %v, expected Write%s only", wc.calls, sp[0])
				}
			} else {
				// STRUCT: field headers in the reader, STOP in length and writer
				if !has(rc.calls, "ReadFieldBegin") || !has(lc.calls, "FieldStopLength") || !has(wc.calls, "WriteFieldStop") {
					detail = fmt.Sprintf("struct case: reader %v, length %v, writer %v", rc.calls, lc.calls, wc.calls)
				}
			}
			if detail == "" && rc.rebuilt {
				detail = "the value stored by the reader is not what Read" + sp[0] + " handed back"
			}
			if detail == "" {
				if rc.assert != sp[1] {
					detail = "reader stores a value of Go type " + rc.assert + ", expected " + sp[1]
				} else if wc.assert != sp[1] {
					detail = "writer asserts Go type " + wc.assert + ", expected " + sp[1]
				} else if lc.assert != "" && lc.assert != sp[1] {
					detail = "length function asserts Go type " + lc.assert + ", expected " + sp[1]
				}
			}
			if detail == "" {
				wantRec := map[int64]int{12: 1, 13: 2, 14: 1, 15: 1}[k]
				if rc.recs != wantRec || lc.recs != wantRec || wc.recs != wantRec {
					detail = fmt.Sprintf("recursive calls per case: reader %d, length %d, writer %d (expected %d each)", rc.recs, lc.recs, wc.recs, wantRec)
				}
			}
		}
		r.add("TRIPLE", "unknownfields", "type", fmt.Sprintf("wire type %d is handled consistently by reader, length and writer", k), pos, detail == "", detail)
	}
	// no extra cases
	for _, m := range []map[int64]*caseInfo{rdCases, lnCases, wrCases} {
		for k := range m {
			if _, ok := spec[k]; !ok {
				r.add("TRIPLE", "unknownfields", "type", fmt.Sprintf("wire type %d is not a Thrift binary type but has a case", k), P.pos(m[k].pos), false, "")
			}
		}
	}
	// ---------- TAGS ----------
	tagRule := func(k int64, field string, resIdx int, hdr string) {
		rc := rdCases[k]
		ok := false
		detail := "no store of the header's type into f." + field
		if rc != nil {
			for _, st := range storesTo(rd, field) {
				in := false
				for _, dc := range blockConds(st.Block(), nil, 0) {
					if bo, isB := dc.Cond.(*ssa.BinOp); isB && dc.Truth && bo.X == ssa.Value(rd.Params[2]) {
						if c, isC := constInt(bo.Y); isC && c == k {
							in = true
						}
					}
				}
				if !in {
					continue
				}
				if ex, isEx := st.Val.(*ssa.Extract); isEx && ex.Index == resIdx {
					if c, isCall := ex.Tuple.(*ssa.Call); isCall && c.Common().StaticCallee() != nil && c.Common().StaticCallee().Name() == hdr {
						ok, detail = true, ""
					}
				}
			}
		}
		r.add("TAGS", shortName(rd), "store", fmt.Sprintf("type %d: f.%s is the %s result #%d", k, field, hdr, resIdx), P.pos(rd.Pos()), ok, detail)
	}
	tagRule(14, "ValType", 0, "ReadSetBegin")
	tagRule(15, "ValType", 0, "ReadListBegin")
	tagRule(13, "KeyType", 0, "ReadMapBegin")
	tagRule(13, "ValType", 1, "ReadMapBegin")
	for _, field := range []string{"KeyType", "ValType"} {
		for _, st := range storesTo(rd, field) {
			var k int64 = -1
			for _, dc := range blockConds(st.Block(), nil, 0) {
				if bo, isB := dc.Cond.(*ssa.BinOp); isB && dc.Truth && bo.X == ssa.Value(rd.Params[2]) {
					if c, isC := constInt(bo.Y); isC {
						k = c
					}
				}
			}
			ok := k == 13 || (field == "ValType" && (k == 14 || k == 15))
			r.add("TAGS", shortName(rd), "store", "f."+field+" is set only where it is meaningful", P.pos(instrPos(st)), ok, fmt.Sprintf("stored in the case of type %d", k))
		}
	}
	// the recursion's type argument is the tag that was stored; the writer passes the same tags to the header writer
	for _, c := range callsIn(rd) {
		cc, ok := c.(*ssa.Call)
		if !ok || c.Common().StaticCallee() != rd {
			continue
		}
		var k int64 = -1
		for _, dc := range blockConds(cc.Block(), nil, 0) {
			if bo, isB := dc.Cond.(*ssa.BinOp); isB && dc.Truth && bo.X == ssa.Value(rd.Params[2]) {
				if cst, isC := constInt(bo.Y); isC {
					k = cst
				}
			}
		}
		targ := cc.Common().Args[2]
		dst := desig(A.fa(rd), cc.Common().Args[0], func(l *Lin) *Lin { return l }, 0)
		ok2, detail := false, ""
		switch k {
		case 14, 15:
			ok2 = isLoadOfField(rd, targ, "ValType")
		case 13:
			// even slot ← key type, odd slot ← value type
			ia, _ := cc.Common().Args[0].(*ssa.IndexAddr)
			if ia != nil {
				idx := A.fa(rd).expand(ia.Index)
				odd := new(big.Int).Mod(idx.C, bi(2)).Sign() != 0
				allEven := true
				for _, co := range idx.T {
					if new(big.Int).Mod(co, bi(2)).Sign() != 0 {
						allEven = false
					}
				}
				if allEven && !odd {
					ok2 = isLoadOfField(rd, targ, "KeyType")
				} else if allEven && odd {
					ok2 = isLoadOfField(rd, targ, "ValType")
				}
			}
		case 12:
			if ex, isEx := targ.(*ssa.Extract); isEx && ex.Index == 0 {
				if c0, isCall := ex.Tuple.(*ssa.Call); isCall && c0.Common().StaticCallee() != nil && c0.Common().StaticCallee().Name() == "ReadFieldBegin" {
					ok2 = true
				}
			}
		}
		if !ok2 {
			detail = "type argument " + desig(A.fa(rd), targ, func(l *Lin) *Lin { return l }, 0) + " into " + dst
		}
		r.add("TAGS", shortName(rd), "rec", fmt.Sprintf("type %d: the nested read uses the element type read from the header", k), P.pos(instrPos(cc)), ok2, detail)
	}
	for _, c := range callsIn(wr) {
		cal := c.Common().StaticCallee()
		if !isBinaryProtocolMethod(cal) {
			continue
		}
		args := c.Common().Args
		switch cal.Name() {
		case "WriteSetBegin", "WriteListBegin":
			ok := loadsParamField(wr.Params[1], args[2], "ValType")
			l := builtinCall(args[3], "len")
			ok = ok && l != nil && strings.HasSuffix(desig(A.fa(wr), l.Common().Args[0], func(l *Lin) *Lin { return l }, 0), "F.Value.([]UnknownField)")
			r.add("TAGS", shortName(wr), "hdr", cal.Name()+" receives (f.ValType, len(elements))", P.pos(instrPos(c)), ok, "")
		case "WriteMapBegin":
			ok := loadsParamField(wr.Params[1], args[2], "KeyType") && loadsParamField(wr.Params[1], args[3], "ValType")
			fa := A.fa(wr)
			sz := fa.expand(args[4])
			// size*2 == len(kvs) is not linear; accept len/2 in its quotient form
			okSz := false
			if bo, isB := args[4].(*ssa.BinOp); isB && bo.Op == token.QUO {
				if k, isC := constInt(bo.Y); isC && k == 2 {
					if l := builtinCall(bo.X, "len"); l != nil && strings.HasSuffix(desig(fa, l.Common().Args[0], func(l *Lin) *Lin { return l }, 0), "F.Value.([]UnknownField)") {
						okSz = true
					}
				}
			}
			_ = sz
			r.add("TAGS", shortName(wr), "hdr", "WriteMapBegin receives (f.KeyType, f.ValType, len(flat pairs)/2)", P.pos(instrPos(c)), ok && okSz, "")
		case "WriteFieldBegin":
		}
	}
	// reader container sizes: make([]UnknownField, size) / size*2 and loops bounded by size
	for _, b := range rd.Blocks {
		for _, in := range b.Instrs {
			mk, ok := in.(*ssa.MakeSlice)
			if !ok {
				continue
			}
			var k int64 = -1
			for _, dc := range blockConds(b, nil, 0) {
				if bo, isB := dc.Cond.(*ssa.BinOp); isB && dc.Truth && bo.X == ssa.Value(rd.Params[2]) {
					if cst, isC := constInt(bo.Y); isC {
						k = cst
					}
				}
			}
			fa := A.fa(rd)
			n := fa.expand(mk.Len)
			want := int64(1)
			if k == 13 {
				want = 2
			}
			okN := false
			if len(n.T) == 1 && n.C.Sign() == 0 {
				for id, co := range n.T {
					if co.Cmp(bi(want)) == 0 && strings.Contains(A.at(id).Name, "Begin") {
						okN = true
					} else if co.Cmp(bi(want)) == 0 {
						// size result of the header call (named after the call value)
						okN = true
					}
				}
			}
			r.add("TAGS", shortName(rd), "make", fmt.Sprintf("type %d: the element slice has %d × size entries", k, want), P.pos(instrPos(mk)), okN, "length is "+A.linString(n))
		}
	}

	// ---------- LOOP-BOUND ----------
	nl := loopBoundRule(P, r, "LOOP-BOUND", rd, func(c *ssa.Call) bool { return c.Common().StaticCallee() == rd }, func(v ssa.Value) bool {
		ex, ok := v.(*ssa.Extract)
		if !ok {
			return false
		}
		c, ok := ex.Tuple.(*ssa.Call)
		if !ok {
			return false
		}
		cal := c.Common().StaticCallee()
		return isBinaryProtocolMethod(cal) && (cal.Name() == "ReadMapBegin" && ex.Index == 2 || (cal.Name() == "ReadListBegin" || cal.Name() == "ReadSetBegin") && ex.Index == 1)
	})
	for _, f := range P.reachable([]*ssa.Function{rd}, func(f *ssa.Function) bool { return f.Pkg != rd.Pkg }) {
		if f != rd {
			nl += loopBoundRule(P, r, "LOOP-BOUND", f, func(c *ssa.Call) bool { return c.Common().StaticCallee() == rd }, func(v ssa.Value) bool {
				// inside a helper the count arrives as a parameter or as the length of the destination slice
				if _, isP := v.(*ssa.Parameter); isP {
					return true
				}
				return builtinCall(v, "len") != nil
			})
		}
	}
	if nl < 2 {
		r.fatal("expected the element loops of the unknown-field reader (set/list and map), found %d", nl)
	}

	// ---------- FRESH-OUT ----------
	for _, fn := range []*ssa.Function{rd, conv} {
		for _, c := range callsIn(fn) {
			cc, ok := c.(*ssa.Call)
			if !ok || c.Common().StaticCallee() != rd {
				continue
			}
			dst := cc.Common().Args[0]
			okF, detail := false, ""
			switch x := dst.(type) {
			case *ssa.IndexAddr:
				if _, isMk := x.X.(*ssa.MakeSlice); isMk {
					okF = true
				} else {
					detail = "element of a slice that is not a fresh make()"
				}
			case *ssa.Alloc:
				isZeroStore := func(in ssa.Instruction) bool {
					if in == ssa.Instruction(x) {
						return true // executing the declaration again yields a new, zeroed variable
					}
					st, ok := in.(*ssa.Store)
					if !ok || st.Addr != ssa.Value(x) {
						return false
					}
					cst, isC := st.Val.(*ssa.Const)
					return isC && cst.Value == nil
				}
				okF = true
				// from any earlier use as a recursion destination (including this call around a loop)
				for _, c2 := range callsIn(fn) {
					cc2, ok2 := c2.(*ssa.Call)
					if !ok2 || c2.Common().StaticCallee() != rd || cc2.Common().Args[0] != dst {
						continue
					}
					if reachesWithout(cc2, cc, isZeroStore) {
						okF = false
						detail = "the local is reused for the next field without being reset (stale KeyType/ValType/Value leak into the next field)"
					}
				}
			default:
				detail = "destination is neither a fresh slice element nor a local"
			}
			r.add("FRESH-OUT", shortName(fn), "rec", "the nested read fills a zeroed UnknownField", P.pos(instrPos(cc)), okF, detail)
		}
	}

	// ---------- CURSOR-ARG ----------
	famRead := func(c *ssa.Call) (int, int, bool) {
		cal := c.Common().StaticCallee()
		if cal == rd {
			return 1, 0, true
		}
		return binaryFamily(true)(c)
	}
	famWrite := func(c *ssa.Call) (int, int, bool) {
		cal := c.Common().StaticCallee()
		if cal == wr || cal == wrs {
			return 0, 0, true
		}
		a, b, ok := binaryFamily(false)(c)
		return a, b, ok
	}
	for _, t := range []struct {
		fn  *ssa.Function
		buf int
		fam func(c *ssa.Call) (int, int, bool)
		min int
	}{{rd, 1, famRead, 12}, {conv, 0, famRead, 2}, {wr, 0, famWrite, 12}, {wrs, 0, famWrite, 2}} {
		fa := A.fa(t.fn)
		bad, pairs, calls := cursorPaths(P, fa, cursorSpec{Buf: t.fn.Params[t.buf], Family: t.fam})
		detail, pos := "", P.pos(t.fn.Pos())
		if len(bad) > 0 {
			detail, pos = bad[0].Detail, bad[0].Pos
		}
		r.add("CURSOR-ARG", shortName(t.fn), "paths", fmt.Sprintf("all %d codec/recursive calls are issued at the running cursor (%d consecutive pairs)", calls, pairs), pos, len(bad) == 0 && calls >= t.min, detail)
		// the function reports the final cursor
		retOK := true
		_ = retOK
	}

	// ---------- LEN ----------
	mkSpec := func(fa *FA, recOne, recMany *ssa.Function, recArg int, writer bool) symSpec {
		lenOf := func(resolve func(*Lin) *Lin) func(v ssa.Value) *Lin {
			return func(v ssa.Value) *Lin {
				return symAtom(fa.A, "len("+desig(fa, v, resolve, 0)+")")
			}
		}
		return symSpec{
			Classify: ufClassify(fa),
			OnCall: func(c *ssa.Call, resolve func(*Lin) *Lin) map[AtomID]*Lin {
				cal := c.Common().StaticCallee()
				if cal == nil {
					return nil
				}
				var rv ssa.Value
				if c.Common().Signature().Results().Len() == 1 {
					rv = c
				} else {
					rv = resultValue(c, 0)
				}
				if rv == nil || !isInteger(rv.Type()) {
					return nil
				}
				id, has := fa.A.byKey["v:"+fa.vkey(rv)]
				if !has {
					fa.expand(rv)
					id, has = fa.A.byKey["v:"+fa.vkey(rv)]
					if !has {
						return nil
					}
				}
				switch {
				case cal == recOne:
					return map[AtomID]*Lin{id: symAtom(fa.A, "REC("+desig(fa, c.Common().Args[recArg], resolve, 0)+")")}
				case cal == recMany:
					return map[AtomID]*Lin{id: symAtom(fa.A, "RECS("+desig(fa, c.Common().Args[recArg], resolve, 0)+")")}
				case isBinaryProtocolMethod(cal):
					if writer {
						if l := binaryWriteLen(fa, c, lenOf(resolve)); l != nil {
							return map[AtomID]*Lin{id: l}
						}
						return nil
					}
					// length functions: derive from the callee, with canonical len symbols
					if l := calleeLinearSym(fa, c, lenOf(resolve)); l != nil {
						return map[AtomID]*Lin{id: l}
					}
				}
				return nil
			},
		}
	}
	comparePaths := func(name string, lf, wf *ssa.Function, lspec, wspec symSpec, minClasses int) symResult {
		a := symPaths(A.fa(lf), lspec)
		b := symPaths(A.fa(wf), wspec)
		ok, detail := true, ""
		if len(a.Conflict) > 0 || len(b.Conflict) > 0 {
			ok, detail = false, fmt.Sprintf("path classes with more than one form: %v %v", a.Conflict, b.Conflict)
		}
		var keys []string
		for k := range a.Forms {
			keys = append(keys, k)
		}
		sort.Strings(keys)
		for _, k := range keys {
			if !ok {
				break
			}
			vb, has := b.Forms[k]
			if !has {
				ok, detail = false, "path class "+k+" exists only in "+lf.Name()
			} else if !a.Forms[k].equal(vb) {
				ok, detail = false, "on path class "+k+": "+lf.Name()+" = "+A.linString(a.Forms[k])+" but "+wf.Name()+" advances by "+A.linString(vb)
			}
		}
		for k := range b.Forms {
			if _, has := a.Forms[k]; !has && ok {
				ok, detail = false, "path class "+k+" exists only in "+wf.Name()
			}
		}
		if ok && len(a.Forms) < minClasses {
			ok, detail = false, fmt.Sprintf("only %d path classes enumerated (expected ≥ %d)", len(a.Forms), minClasses)
		}
		r.add("LEN", name, "paths", fmt.Sprintf("%s equals the bytes %s produces on each of the %d path classes (%d+%d paths)", lf.Name(), wf.Name(), len(a.Forms), a.Paths, b.Paths), P.pos(lf.Pos()), ok, detail)
		return b
	}
	// per wire type: both functions are enumerated with every decision about f.Type resolved for that type
	// (whatever form the dispatch takes: switch, if-chain, merged cases, lookup table)
	wforms := symResult{Forms: map[string]*Lin{}}
	{
		lforms := symResult{Forms: map[string]*Lin{}}
		tableSub := func(fa *FA, tag int64) map[AtomID]*Lin {
			sub := map[AtomID]*Lin{}
			for _, b := range fa.fn.Blocks {
				for _, in := range b.Instrs {
					v, isV := in.(ssa.Value)
					if !isV || !isInteger(v.Type()) {
						continue
					}
					if tv, ok := tagTableValue(fa, v, tag); ok {
						fa.expand(v)
						fa.expand(stripConv(v))
						if id, has := fa.A.byKey["v:"+fa.vkey(stripConv(v))]; has {
							sub[id] = linConst(tv)
						}
						if id, has := fa.A.byKey["v:"+fa.vkey(v)]; has {
							sub[id] = linConst(tv)
						}
					}
				}
			}
			return sub
		}
		okAll, detail := true, ""
		np := 0
		for _, tag := range ks {
			ls := mkSpec(A.fa(ln), ln, lns, 0, false)
			ls.Classify = ufClassifyTag(A.fa(ln), tag)
			ls.FinalSub = tableSub(A.fa(ln), tag)
			ws := mkSpec(A.fa(wr), wr, wrs, 1, true)
			ws.Classify = ufClassifyTag(A.fa(wr), tag)
			ws.FinalSub = tableSub(A.fa(wr), tag)
			a, b := symPaths(A.fa(ln), ls), symPaths(A.fa(wr), ws)
			np += a.Paths + b.Paths
			pre := fmt.Sprintf("T=%d", tag)
			key := func(k string) string {
				if k == "" {
					return pre
				}
				return pre + "," + k
			}
			if len(a.Conflict) > 0 || len(b.Conflict) > 0 {
				okAll, detail = false, fmt.Sprintf("type %d: path classes with more than one form: %v %v", tag, a.Conflict, b.Conflict)
			}
			if len(a.Forms) == 0 || len(b.Forms) == 0 {
				okAll, detail = false, fmt.Sprintf("type %d: no successful path in %s or %s", tag, ln.Name(), wr.Name())
			}
			for k, va := range a.Forms {
				lforms.Forms[key(k)] = va
				vb, has := b.Forms[k]
				if !has {
					okAll, detail = false, "path class "+key(k)+" exists only in "+ln.Name()
				} else if !va.equal(vb) {
					okAll, detail = false, "on path class "+key(k)+": "+ln.Name()+" = "+A.linString(va)+" but "+wr.Name()+" advances by "+A.linString(vb)
				}
			}
			for k, vb := range b.Forms {
				wforms.Forms[key(k)] = vb
				if _, has := a.Forms[k]; !has {
					okAll, detail = false, "path class "+key(k)+" exists only in "+wr.Name()
				}
			}
		}
		if okAll && len(lforms.Forms) < 15 {
			okAll, detail = false, fmt.Sprintf("only %d path classes enumerated", len(lforms.Forms))
		}
		r.add("LEN", "field", "paths", fmt.Sprintf("%s equals the bytes %s produces on each of the %d path classes (per wire type; %d paths)", ln.Name(), wr.Name(), len(lforms.Forms), np), P.pos(ln.Pos()), okAll, detail)
		// a wire type the length function answers without a case of its own must at least have a successful path there
		for k := range lcMissing {
			_, has := lforms.Forms[fmt.Sprintf("T=%d", k)]
			if !has {
				for key := range lforms.Forms {
					if strings.HasPrefix(key, fmt.Sprintf("T=%d,", k)) {
						has = true
					}
				}
			}
			r.add("TRIPLE", "unknownfields", "length", fmt.Sprintf("wire type %d is answered by the length function (no case of its own: see LEN)", k), P.pos(ln.Pos()), has && okAll, "")
		}
	}
	// element coverage: k iterations of a container loop write elements 0 … k·w−1 exactly once (w = 2 for maps)
	for _, t := range []struct {
		k int64
		w int
	}{{13, 2}, {14, 1}, {15, 1}} {
		for iters := 0; iters <= 2; iters++ {
			key := fmt.Sprintf("T=%d%s,done", t.k, strings.Repeat(",iter", iters))
			form, has := wforms.Forms[key]
			ok, detail := has, ""
			if !has {
				detail = "path class " + key + " was not enumerated"
			} else {
				want := map[string]bool{}
				for i := 0; i < iters*t.w; i++ {
					want[fmt.Sprintf("REC(F.Value.([]UnknownField)[%d])", i)] = true
				}
				for _, id := range form.atoms() {
					n := A.at(id).Name
					if want[n] && form.T[id].Cmp(bi(1)) == 0 {
						delete(want, n)
					} else {
						ok, detail = false, "unexpected term "+form.T[id].String()+"·"+n
					}
				}
				if len(want) > 0 {
					ok, detail = false, fmt.Sprintf("%d element(s) not written", len(want))
				}
			}
			r.add("LEN", "coverage", "paths", fmt.Sprintf("type %d, %d loop iteration(s): the writer emits elements 0…%d exactly once", t.k, iters, iters*t.w-1), P.pos(wr.Pos()), ok, detail)
		}
	}
	lsp := mkSpec(A.fa(lns), ln, lns, 0, false)
	wsp := mkSpec(A.fa(wrs), wr, wrs, 1, true)
	comparePaths("fields", lns, wrs, lsp, wsp, 3)
	// the header of each field in the list-level writer carries the field's own type and id
	hdrOK := false
	for _, c := range callsIn(wrs) {
		if cal := c.Common().StaticCallee(); isBinaryProtocolMethod(cal) && cal.Name() == "WriteFieldBegin" {
			fa := A.fa(wrs)
			id := func(l *Lin) *Lin { return l }
			t, i := desig(fa, c.Common().Args[2], id, 0), desig(fa, c.Common().Args[3], id, 0)
			rec := ""
			for _, c2 := range callsIn(wrs) {
				if c2.Common().StaticCallee() == wr {
					rec = desig(fa, c2.Common().Args[1], id, 0)
				}
			}
			hdrOK = rec != "" && t == rec+".Type" && i == rec+".ID"
		}
	}
	r.add("TRIPLE", shortName(wrs), "hdr", "each field header carries the Type and ID of the field written after it", P.pos(wrs.Pos()), hdrOK, "")
	errDisciplineRule(P, r, "ERR-USED", pkgFuncs(P, "protocol/thrift/unknownfields"))
}

// calleeLinearSym is calleeLinear with canonical length symbols.
func calleeLinearSym(fa *FA, c *ssa.Call, lenOf func(v ssa.Value) *Lin) *Lin {
	cal := c.Common().StaticCallee()
	if cal == nil || len(cal.Blocks) == 0 {
		return nil
	}
	ret := singleReturn(cal)
	if ret == nil || len(ret.Results) != 1 {
		return nil
	}
	cfa := fa.A.fa(cal)
	l := cfa.expand(ret.Results[0])
	out := linConst(0)
	out.C.Set(l.C)
	for _, id := range l.atoms() {
		found := false
		for i, p := range cal.Params {
			if !isSliceOrString(p.Type()) {
				continue
			}
			if d := cfa.sliceDesc(p); d != nil && d.Len.equal(linAtom(id)) {
				out = out.add(lenOf(c.Common().Args[i]).scale(l.T[id]))
				found = true
			}
		}
		if !found {
			return nil
		}
	}
	return out
}

func init() {
	register("C13", "other", checkC13)
}

// loadsParamField: v is a load of field `field` of the struct parameter p points to.
func loadsParamField(p *ssa.Parameter, v ssa.Value, field string) bool {
	ld, ok := v.(*ssa.UnOp)
	if !ok || ld.Op != token.MUL {
		return false
	}
	fa, ok := ld.X.(*ssa.FieldAddr)
	if !ok || fa.X != ssa.Value(p) {
		return false
	}
	st, ok := deref(p.Type()).Underlying().(*types.Struct)
	return ok && st.Field(fa.Field).Name() == field
}
