package main

import (
	"fmt"
	"go/types"
	"strings"

	"golang.org/x/tools/go/ssa"
)

// methodsNamed returns the declared methods of type typ in package rel whose
// name satisfies pred.
func (P *Program) methodsNamed(rel, typ string, pred func(string) bool) []*ssa.Function {
	sp := P.pkg(rel)
	if sp == nil {
		return nil
	}
	t := sp.Type(typ)
	if t == nil {
		return nil
	}
	var out []*ssa.Function
	seen := map[*ssa.Function]bool{}
	for _, recv := range []types.Type{t.Type(), types.NewPointer(t.Type())} {
		ms := P.SSA.MethodSets.MethodSet(recv)
		for i := 0; i < ms.Len(); i++ {
			fnObj, ok := ms.At(i).Obj().(*types.Func)
			if !ok || !pred(fnObj.Name()) {
				continue
			}
			f := P.SSA.FuncValue(fnObj)
			if f != nil && f.Blocks != nil && !seen[f] {
				seen[f] = true
				out = append(out, f)
			}
		}
	}
	return out
}

// decoderEntryPoints: every buffer-based decoding entry point named by C03.
func decoderEntryPoints(P *Program, r *Result) []*ssa.Function {
	var roots []*ssa.Function
	add := func(name string, f *ssa.Function) {
		if r.require(name, f != nil) {
			roots = append(roots, f)
		}
	}
	rd := P.methodsNamed("protocol/thrift", "BinaryProtocol", func(n string) bool { return strings.HasPrefix(n, "Read") || n == "Skip" })
	r.require("thrift.BinaryProtocol.Read*/Skip (>=14)", len(rd) >= 14)
	roots = append(roots, rd...)
	add("thrift.ApplicationException.FastRead", P.Method("protocol/thrift", "ApplicationException", "FastRead"))
	add("thrift.FastUnmarshal", P.Func("protocol/thrift", "FastUnmarshal"))
	add("thrift.UnmarshalFastMsg", P.Func("protocol/thrift", "UnmarshalFastMsg"))
	add("base.Base.FastRead", P.Method("protocol/thrift/base", "Base", "FastRead"))
	add("base.BaseResp.FastRead", P.Method("protocol/thrift/base", "BaseResp", "FastRead"))
	add("unknownfields.ConvertUnknownFields", P.Func("protocol/thrift/unknownfields", "ConvertUnknownFields"))
	add("ttheader.DecodeFromBytes", P.Func("protocol/ttheader", "DecodeFromBytes"))
	add("ttheader.Decode", P.Func("protocol/ttheader", "Decode"))
	add("ttheader.IsStreaming", P.Func("protocol/ttheader", "IsStreaming"))
	add("ttheader.IsTTHeader", P.Func("protocol/ttheader", "IsTTHeader"))
	add("ttheader.Bytes2Uint8", P.Func("protocol/ttheader", "Bytes2Uint8"))
	add("ttheader.Bytes2Uint16", P.Func("protocol/ttheader", "Bytes2Uint16"))
	add("ttheader.ReadString2BLen", P.Func("protocol/ttheader", "ReadString2BLen"))
	return roots
}

func stopAtBufiox(f *ssa.Function) bool {
	p := fnPkgPath(f)
	return p == modPath+"/bufiox" || p == modPath+"/unsafex"
}

// lastIntResult returns the index of the last result of kind int before the
// error result, or -1.
func lastIntResult(fn *ssa.Function) int {
	res := fn.Signature.Results()
	for k := res.Len() - 1; k >= 0; k-- {
		if b, ok := res.At(k).Type().Underlying().(*types.Basic); ok && b.Kind() == types.Int {
			return k
		}
	}
	return -1
}

func firstByteParam(fn *ssa.Function) int {
	for j, p := range fn.Params {
		if isByteSlice(p.Type()) {
			return j
		}
	}
	return -1
}

func isExported(fn *ssa.Function) bool {
	if fn.Object() == nil {
		return false
	}
	return fn.Object().Exported()
}

var e1RuleOf = map[string]string{
	"SLICE": "SLICE", "INDEX": "SLICE", "LOAD": "LOAD", "SPAN": "LOAD", "IDX": "IDX",
	"WRAP": "WRAP", "DIV": "NO-PANIC-OPS", "MAKE": "NO-PANIC-OPS", "PANIC": "NO-PANIC-OPS", "PRE": "PRE",
}

// reportE1 copies the obligations of an E1 run into the result.
func reportE1(P *Program, r *Result, run *e1Run, keep func(o *e1Obl) (rule string, ok bool)) {
	for _, o := range run.obls {
		rule, ok := keep(o)
		if !ok {
			continue
		}
		r.add(rule, shortName(o.Fn), strings.ToLower(o.Kind), o.What, P.pos(instrPos(o.In)), o.OK, o.Detail)
	}
	entryTotalRule(P, r, run, keep)
}

// unchecked helpers of the public API: their contract *is* a precondition (an offset inside the slice, a minimum length);
// every caller inside the repository is held to it (PRE obligations). Everything else that is exported is an entry
// point that must cope with any input.
var uncheckedByContract = map[string]string{
	"Bytes2Uint8":         "offset must be ≥ 0 (callers pass a running cursor)",
	"Bytes2Uint16":        "offset must be ≥ 0 (callers pass a running cursor)",
	"ReadString2BLen":     "offset must be ≥ 0 (callers pass a running cursor)",
	"Bytes2Uint16NoCheck": "documented as unchecked",
	"Bytes2Uint32NoCheck": "documented as unchecked",
	"IsTTHeader":          "needs the 8 bytes up to the magic word; Decode hands it the 14-byte meta block",
}

// entryTotalRule: the contract inference may give any function a precondition; inside the repository the callers are
// then held to it. For an exported function nobody is: a precondition on an entry point would silently narrow "for every
// input" — so an exported function in the scope of the run must not need one (the helpers above excepted).
func entryTotalRule(P *Program, r *Result, run *e1Run, keep func(o *e1Obl) (rule string, ok bool)) {
	rule, _ := keep(&e1Obl{Kind: "PRE"})
	if rule == "" {
		rule = "PRE"
	}
	for _, fn := range run.scope {
		if !isExported(fn) || uncheckedByContract[fn.Name()] != "" {
			continue
		}
		ct := run.cs.cts[fn]
		if ct == nil {
			continue
		}
		for _, p := range ct.Pres {
			if !p.Adopted {
				continue
			}
			// a non-nil receiver / argument object is the caller's business; lengths, offsets and counts are input
			if p.Kind == "nonnil" {
				continue
			}
			// a bound on a plain integer parameter matters when it can be an offset into input bytes
			if !strings.Contains(p.Kind, "len") && firstByteParam(fn) < 0 {
				continue
			}
			r.add(rule, shortName(fn), "entry", "an exported entry point copes with every input (no precondition on lengths or offsets)", P.pos(fn.Pos()), false, "the proofs inside "+fn.Name()+" need: "+p.String(fn))
		}
	}
}

func checkC03(P *Program, r *Result, tier string) {
	r.Explanation = "E1 (linear facts from dominating guards, callee contracts proved by induction, Fourier–Motzkin entailment, back-propagation through phis): " +
		"every slice/index/raw load in every function reachable from the buffer-based decoding entry points is in range (SLICE, LOAD, IDX), " +
		"integer arithmetic feeding those bounds does not wrap (WRAP), no explicit panic / unchecked assertion / nil-map write / zero divisor / negative make is reachable (NO-PANIC-OPS), " +
		"in-repo callers satisfy the callee preconditions the proofs rely on (PRE), and every exported decoder reports a consumed length ≤ len(input) whenever its error is nil (RET-LEN)."
	roots := decoderEntryPoints(P, r)
	if len(r.Fatal) > 0 {
		return
	}
	scope := P.reachable(roots, stopAtBufiox)
	run := newE1(P, scope, e1Config{IfaceLenEq: []string{"Next", "Peek", "SkipN"}, StrictLen: true, Wrap: true})
	run.run()
	reportE1(P, r, run, func(o *e1Obl) (string, bool) { return e1RuleOf[o.Kind], true })
	// RET-LEN on exported decoders
	n := 0
	for _, fn := range scope {
		if !isExported(fn) {
			continue
		}
		k, j := lastIntResult(fn), firstByteParam(fn)
		if k < 0 || j < 0 {
			continue
		}
		n++
		alive, _ := run.postAlive(fn, "ret<=len", k, j)
		pos, detail := P.pos(fn.Pos()), "post-condition err==nil ⇒ result ≤ len("+fn.Params[j].Name()+") proved at every return"
		if !alive {
			in, why := run.failingReturn(fn, "ret<=len", k, j)
			if in != nil {
				pos = P.pos(instrPos(in))
			}
			detail = why
		}
		r.add("RET-LEN", shortName(fn), "return", fmt.Sprintf("result %d ≤ len(%s) when err == nil", k, fn.Params[j].Name()), pos, alive, detail)
	}
	if n < 18 {
		r.fatal("RET-LEN: only %d exported decoders with a length result found (expected ≥ 18)", n)
	}
	for _, fn := range scope {
		r.Funcs[shortName(fn)] = true
	}
	r.Extra["contracts"] = run.contractSummary()
	if debugContracts {
		for _, l := range run.contractSummary() {
			fmt.Println("CONTRACT", l)
		}
	}
	r.Extra["e1_iterations"] = run.iters
	r.Extra["e1_stats"] = map[string]int{"proves": run.A.stats.proves, "backprops": run.A.stats.backprops, "houdini_rounds": run.cs.rounds}
	r.assume("int is 64 bits; every slice/string length and capacity is ≤ 2^48 (runtime maxAlloc); addresses are < 2^56")
	r.assume("bufiox.Reader.Next/Peek and SkipDecoderIface.SkipN return exactly n bytes when err == nil (interface contract)")
	r.assume("preconditions listed under coverage.contracts as 'requires …' are assumed for exported functions and proved at every in-repo call site")
	r.assume("package bufiox is entered only through the bufiox.Reader interface contract (its own indexing is C04's subject)")
	r.assume("distinct pointer parameters and receiver fields do not alias each other")
}

func init() { register("C03", "other", checkC03) }
