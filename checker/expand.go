package main

// Expansion of SSA values into linear forms, slice descriptors and pointer
// expressions (part of E1/E2).

import (
	"fmt"
	"go/constant"
	"go/token"
	"go/types"
	"math/big"

	"golang.org/x/tools/go/ssa"
)

// FA is the per-function analysis state.
type FA struct {
	A            *Analysis
	fn           *ssa.Function
	id           string
	mem          *MemSSA
	exp          map[ssa.Value]*Lin
	sd           map[ssa.Value]*SliceDesc
	edge         map[*ssa.BasicBlock]*edgeFacts
	gam          map[*ssa.BasicBlock]*edgeFacts
	pre          []*Lin // assumed at entry (preconditions, span facts)
	inv          map[*ssa.BasicBlock][]*Inv
	invKeys      map[*ssa.BasicBlock]map[string]bool
	invDone      bool
	phiAtoms     map[*ssa.BasicBlock][]*Atom
	atomStart    int
	generalized  int
	noGeneralize bool
	// span parameters of raw-pointer functions
	spanP    *ssa.Parameter
	spanE    *ssa.Parameter
	inExpand map[ssa.Value]bool
	usedOps  map[*ssa.BinOp]bool // arithmetic whose exactness the proofs rely on
}

func (A *Analysis) fa(fn *ssa.Function) *FA {
	if f, ok := A.fas[fn]; ok {
		return f
	}
	A.faSeq++
	A.curFA = nil
	f := &FA{A: A, fn: fn, atomStart: len(A.atoms), id: fmt.Sprintf("f%d", A.faSeq), exp: map[ssa.Value]*Lin{}, sd: map[ssa.Value]*SliceDesc{},
		edge: map[*ssa.BasicBlock]*edgeFacts{}, gam: map[*ssa.BasicBlock]*edgeFacts{}, inv: map[*ssa.BasicBlock][]*Inv{}, invKeys: map[*ssa.BasicBlock]map[string]bool{},
		inExpand: map[ssa.Value]bool{}, usedOps: map[*ssa.BinOp]bool{}}
	A.fas[fn] = f
	f.mem = newMemSSA(fn)
	for _, p := range fn.Params {
		if isUnsafePointer(p.Type()) && f.spanP == nil {
			f.spanP = p
		}
		if b, ok := p.Type().Underlying().(*types.Basic); ok && b.Kind() == types.Uintptr && f.spanE == nil {
			f.spanE = p
		}
	}
	if f.spanP == nil || f.spanE == nil {
		f.spanP, f.spanE = nil, nil
	}
	f.installPres()
	return f
}

// dropFA forgets the analysis state of fn (its atoms stay allocated but are
// never referenced again: a rebuilt FA gets a new id).
func (A *Analysis) dropFA(fn *ssa.Function) {
	delete(A.fas, fn)
	A.faSeq++
}

func (fa *FA) vkey(v ssa.Value) string { return fa.id + ":" + v.Name() }

func constBig(c *ssa.Const) (*big.Int, bool) {
	if c.Value == nil {
		return nil, false
	}
	v := constant.ToInt(c.Value)
	if v.Kind() != constant.Int {
		return nil, false
	}
	if i, ok := constant.Int64Val(v); ok {
		return bi(i), true
	}
	b, ok := new(big.Int).SetString(v.ExactString(), 10)
	return b, ok
}

func defBlock(v ssa.Value) *ssa.BasicBlock {
	if in, ok := v.(ssa.Instruction); ok {
		return in.Block()
	}
	return nil
}

// valAtom returns the opaque atom of an integer SSA value.
func (fa *FA) valAtom(v ssa.Value) AtomID {
	return fa.A.atom("v:"+fa.vkey(v), func(a *Atom) {
		a.Kind = aVal
		a.Fn = fa.fn
		a.owner = fa
		a.Block = defBlock(v)
		a.Name = fa.fn.Name() + "." + v.Name()
		if lo, hi, ok := intRange(v.Type()); ok {
			a.Lo, a.Hi = lo, hi
		}
		if p, ok := v.(*ssa.Parameter); ok && fa.spanE != nil && p == fa.spanE {
			a.Hi = new(big.Int).Lsh(maxAddr, 1) // a span end is an address
		}
	})
}

// expand returns the linear form of an integer-typed value.
func (fa *FA) expand(v ssa.Value) *Lin {
	if l, ok := fa.exp[v]; ok {
		return l
	}
	if fa.inExpand[v] {
		return linAtom(fa.valAtom(v))
	}
	fa.inExpand[v] = true
	l := fa.expand1(v)
	delete(fa.inExpand, v)
	fa.exp[v] = l
	return l
}

func (fa *FA) expand1(v ssa.Value) *Lin {
	A := fa.A
	switch v := v.(type) {
	case *ssa.Const:
		if b, ok := constBig(v); ok {
			return linBig(b)
		}
		return linAtom(fa.valAtom(v))
	case *ssa.BinOp:
		return fa.expandBinOp(v)
	case *ssa.UnOp:
		switch v.Op {
		case token.SUB:
			return fa.expand(v.X).neg()
		case token.MUL:
			return fa.expandLoad(v)
		}
		return linAtom(fa.valAtom(v))
	case *ssa.ChangeType:
		if isInteger(v.X.Type()) {
			return fa.expand(v.X)
		}
		return linAtom(fa.valAtom(v))
	case *ssa.Convert:
		return fa.expandConvert(v)
	case *ssa.Call:
		return fa.expandCall(v)
	case *ssa.Extract:
		id := fa.valAtom(v)
		if c, ok := v.Tuple.(*ssa.Call); ok {
			fa.attachCallFacts(c)
		}
		return linAtom(id)
	case *ssa.Phi:
		id := fa.valAtom(v)
		a := A.at(id)
		if a.Phi == nil {
			ph := v
			a.Phi = &phiInfo{Block: v.Block(), In: func(i int) *Lin { return fa.expand(ph.Edges[i]) }}
		}
		return linAtom(id)
	case *ssa.Parameter:
		return linAtom(fa.valAtom(v))
	}
	return linAtom(fa.valAtom(v))
}

func (fa *FA) expandBinOp(v *ssa.BinOp) *Lin {
	A := fa.A
	if !isInteger(v.Type()) {
		return linAtom(fa.valAtom(v))
	}
	switch v.Op {
	case token.ADD, token.SUB, token.MUL, token.SHL, token.SHR, token.AND, token.QUO, token.REM:
	default:
		return linAtom(fa.valAtom(v))
	}
	x, y := fa.expand(v.X), fa.expand(v.Y)
	switch v.Op {
	case token.ADD:
		return x.add(y)
	case token.SUB:
		return x.sub(y)
	case token.MUL:
		if c, ok := x.constVal(); ok {
			return y.scale(c)
		}
		if c, ok := y.constVal(); ok {
			return x.scale(c)
		}
		return fa.product(x, y)
	case token.SHL:
		if c, ok := y.constVal(); ok && c.IsInt64() && c.Int64() >= 0 && c.Int64() < 63 {
			return x.scale(pow2(uint(c.Int64())))
		}
	case token.SHR:
		id := fa.valAtom(v)
		a := A.at(id)
		if c, ok := y.constVal(); ok && c.IsInt64() && c.Int64() >= 0 && c.Int64() < 63 && a.Trig == nil {
			k := pow2(uint(c.Int64()))
			r := linAtom(id)
			// x ≥ 0 ⇒ 0 ≤ r·2^k ≤ x ≤ r·2^k + 2^k − 1
			A.addTrig(a, A.newTrigger("shr", []*Lin{ineqGE(x, linConst(0))},
				[]*Lin{ineqGE(r, linConst(0)), ineqLE(r.scale(k), x), ineqLE(x, r.scale(k).add(linBig(new(big.Int).Sub(k, bi(1)))))}))
		}
		return linAtom(id)
	case token.AND:
		id := fa.valAtom(v)
		a := A.at(id)
		if a.Facts == nil {
			r := linAtom(id)
			for _, side := range []*Lin{x, y} {
				if c, ok := side.constVal(); ok && c.Sign() >= 0 {
					a.Facts = append(a.Facts, ineqGE(r, linConst(0)), ineqLE(r, linBig(c)))
				}
			}
			if a.Facts == nil {
				a.Facts = []*Lin{}
			}
		}
		return linAtom(id)
	case token.QUO:
		id := fa.valAtom(v)
		a := A.at(id)
		if c, ok := y.constVal(); ok && c.Sign() > 0 && a.Trig == nil {
			q := linAtom(id)
			A.addTrig(a, A.newTrigger("quo", []*Lin{ineqGE(x, linConst(0))},
				[]*Lin{ineqGE(q, linConst(0)), ineqLE(q.scale(c), x), ineqLE(x, q.scale(c).add(linBig(new(big.Int).Sub(c, bi(1)))))}))
		}
		return linAtom(id)
	case token.REM:
		id := fa.valAtom(v)
		a := A.at(id)
		if a.Trig == nil {
			r := linAtom(id)
			// x ≥ 0 ∧ y ≥ 1 ⇒ 0 ≤ r ≤ y − 1 ∧ r ≤ x
			A.addTrig(a, A.newTrigger("rem", []*Lin{ineqGE(x, linConst(0)), ineqGE(y, linConst(1))},
				[]*Lin{ineqGE(r, linConst(0)), ineqLE(r, y.addConst(-1)), ineqLE(r, x)}))
		}
		return linAtom(id)
	}
	return linAtom(fa.valAtom(v))
}

// product builds Σ ci·dj·mul(ai,bj) for two non-constant linear forms.
func (fa *FA) product(x, y *Lin) *Lin {
	res := linBig(new(big.Int).Mul(x.C, y.C))
	res = res.addScaled(&Lin{C: bi(0), T: y.T}, x.C)
	res = res.addScaled(&Lin{C: bi(0), T: x.T}, y.C)
	for _, a := range x.atoms() {
		for _, b := range y.atoms() {
			m := fa.mulAtom(a, b)
			res = res.addScaled(linAtom(m), new(big.Int).Mul(x.T[a], y.T[b]))
		}
	}
	return res
}

func (fa *FA) mulAtom(a, b AtomID) AtomID {
	A := fa.A
	if a > b {
		a, b = b, a
	}
	return A.atom(fmt.Sprintf("mul:%d:%d", a, b), func(m *Atom) {
		m.Kind = aMul
		m.Fn = fa.fn
		m.owner = fa
		m.MulA, m.MulB = a, b
		m.Name = "(" + A.at(a).Name + "*" + A.at(b).Name + ")"
		ba, bb := A.at(a).Block, A.at(b).Block
		m.Block = ba
		if ba == nil || (bb != nil && ba.Dominates(bb)) {
			m.Block = bb
		}
		id := m.ID
		la, lb, lm := linAtom(a), linAtom(b), linAtom(id)
		A.addTrig(m, A.newTrigger("mul≥0", []*Lin{ineqGE(la, linConst(0)), ineqGE(lb, linConst(0))}, []*Lin{ineqGE(lm, linConst(0))}))
		tr := A.newTrigger("mul-bound", nil, nil)
		tr.Dyn = func(fa *FA, facts []*Lin) []*Lin {
			// 0 ≤ a ≤ Ka, 0 ≤ b ≤ Kb ⇒ m ≤ Ka·Kb, m ≤ Ka·b, m ≤ Kb·a
			if !entails(facts, ineqGE(la, linConst(0))) || !entails(facts, ineqGE(lb, linConst(0))) {
				return nil
			}
			ka, oka := upperBound(facts, la)
			kb, okb := upperBound(facts, lb)
			var out []*Lin
			if oka && okb {
				out = append(out, ineqLE(lm, linBig(new(big.Int).Mul(ka, kb))))
			}
			if oka {
				out = append(out, ineqLE(lm, lb.scale(ka)))
			}
			if okb {
				out = append(out, ineqLE(lm, la.scale(kb)))
			}
			return out
		}
		A.addTrig(m, tr)
	})
}

var boundLadder = []*big.Int{bi(1), bi(8), bi(16), bi(255), bi(65535), bi(1 << 17), bi(1<<31 - 1), bi(1<<32 - 1), pow2(48), pow2(56), pow2(62)}

// upperBound finds the smallest ladder constant K with facts ⊢ l ≤ K.
func upperBound(facts []*Lin, l *Lin) (*big.Int, bool) {
	if k, ok := l.constVal(); ok {
		return k, true
	}
	var best *big.Int
	for i := len(boundLadder) - 1; i >= 0; i-- {
		if entails(facts, ineqLE(l, linBig(boundLadder[i]))) {
			best = boundLadder[i]
		} else {
			break
		}
	}
	return best, best != nil
}

func (fa *FA) expandConvert(v *ssa.Convert) *Lin {
	A := fa.A
	tx, tr := v.X.Type(), v.Type()
	if isUnsafePointer(tx) && isInteger(tr) {
		return fa.ptrExpand(v.X)
	}
	if !isInteger(tx) || !isInteger(tr) {
		return linAtom(fa.valAtom(v))
	}
	lox, hix, _ := intRange(tx)
	lor, hir, _ := intRange(tr)
	x := fa.expand(v.X)
	if lox.Cmp(lor) >= 0 && hix.Cmp(hir) <= 0 {
		return x // value preserving by types
	}
	id := fa.valAtom(v)
	a := A.at(id)
	if a.Trig == nil {
		r := linAtom(id)
		// identity when the operand fits
		A.addTrig(a, A.newTrigger("conv-fits", []*Lin{ineqGE(x, linBig(lor)), ineqLE(x, linBig(hir))},
			[]*Lin{ineqLE(r, x), ineqLE(x, r)}))
		bx, sx := intBits(tx)
		br, sr := intBits(tr)
		if bx == br && !sx && sr {
			// intN(uintN x): r ≥ 0 ⇒ x = r ; r < 0 ⇒ x = r + 2^N
			m := pow2(br)
			A.addTrig(a, A.newTrigger("conv-signed≥0", []*Lin{ineqGE(r, linConst(0))}, []*Lin{ineqLE(r, x), ineqLE(x, r)}))
			A.addTrig(a, A.newTrigger("conv-signed<0", []*Lin{ineqLE(r, linConst(-1))}, []*Lin{ineqLE(r.add(linBig(m)), x), ineqLE(x, r.add(linBig(m)))}))
			A.addTrig(a, A.newTrigger("conv-hi", []*Lin{ineqGE(x, linBig(pow2(br-1)))}, []*Lin{ineqLE(r.add(linBig(m)), x), ineqLE(x, r.add(linBig(m)))}))
		}
		if bx == br && sx && !sr {
			// uintN(intN x): x ≥ 0 ⇒ r = x (covered by conv-fits); x < 0 ⇒ r = x + 2^N
			m := pow2(br)
			A.addTrig(a, A.newTrigger("conv-unsigned<0", []*Lin{ineqLE(x, linConst(-1))}, []*Lin{ineqLE(r, x.add(linBig(m))), ineqLE(x.add(linBig(m)), r)}))
		}
		if bx > br && sr {
			// narrowing to a signed type of an operand known to fit the unsigned range of that width
			m := pow2(br)
			inU := []*Lin{ineqGE(x, linConst(0)), ineqLE(x, linBig(new(big.Int).Sub(m, bi(1))))}
			A.addTrig(a, A.newTrigger("conv-narrow≥0", append(append([]*Lin{}, inU...), ineqGE(r, linConst(0))), []*Lin{ineqLE(r, x), ineqLE(x, r)}))
			A.addTrig(a, A.newTrigger("conv-narrow<0", append(append([]*Lin{}, inU...), ineqLE(r, linConst(-1))), []*Lin{ineqLE(r.add(linBig(m)), x), ineqLE(x, r.add(linBig(m)))}))
		}
		if bx > br && !sr {
			// truncation to unsigned: r ≤ x when x ≥ 0
			A.addTrig(a, A.newTrigger("conv-trunc", []*Lin{ineqGE(x, linConst(0))}, []*Lin{ineqLE(r, x)}))
		}
	}
	return linAtom(id)
}

func (fa *FA) expandCall(v *ssa.Call) *Lin {
	com := v.Common()
	if b, ok := com.Value.(*ssa.Builtin); ok {
		switch b.Name() {
		case "len":
			if d := fa.sliceDesc(com.Args[0]); d != nil {
				return d.Len
			}
			id := fa.valAtom(v)
			fa.A.at(id).Lo = bi(0)
			return linAtom(id)
		case "cap":
			if d := fa.sliceDesc(com.Args[0]); d != nil && d.Cap != nil {
				return d.Cap
			}
			id := fa.valAtom(v)
			fa.A.at(id).Lo = bi(0)
			return linAtom(id)
		case "copy":
			id := fa.valAtom(v)
			a := fa.A.at(id)
			if a.Facts == nil {
				r := linAtom(id)
				a.Facts = []*Lin{ineqGE(r, linConst(0))}
				dd, ds := fa.sliceDesc(com.Args[0]), fa.sliceDesc(com.Args[1])
				if dd != nil {
					a.Facts = append(a.Facts, ineqLE(r, dd.Len))
				}
				if ds != nil {
					a.Facts = append(a.Facts, ineqLE(r, ds.Len))
				}
				if dd != nil && ds != nil {
					fa.A.addTrig(a, fa.A.newTrigger("copy=src", []*Lin{ineqLE(ds.Len, dd.Len)}, []*Lin{ineqGE(r, ds.Len)}))
					fa.A.addTrig(a, fa.A.newTrigger("copy=dst", []*Lin{ineqLE(dd.Len, ds.Len)}, []*Lin{ineqGE(r, dd.Len)}))
				}
			}
			return linAtom(id)
		}
		return linAtom(fa.valAtom(v))
	}
	id := fa.valAtom(v)
	fa.attachCallFacts(v)
	return linAtom(id)
}

// canonLoad maps a load of an indexed element to the first equal load in the
// same block (same base and index values, no store or call in between): go/ssa
// performs no common-subexpression elimination.
func canonLoad(v *ssa.UnOp) *ssa.UnOp {
	ia, ok := v.X.(*ssa.IndexAddr)
	if !ok {
		return v
	}
	b := v.Block()
	res := v
	for i := instrIndex(v) - 1; i >= 0; i-- {
		switch x := b.Instrs[i].(type) {
		case *ssa.Store:
			// a store of a value of another type cannot change the loaded element
			if types.Identical(x.Val.Type(), v.Type()) {
				return res
			}
		case *ssa.MapUpdate:
		case ssa.CallInstruction:
			if bi, ok := x.Common().Value.(*ssa.Builtin); ok {
				switch bi.Name() {
				case "len", "cap", "min", "max":
					continue
				case "copy":
					if st, ok := x.Common().Args[0].Type().Underlying().(*types.Slice); ok && !types.Identical(st.Elem(), v.Type()) {
						continue
					}
				}
			}
			return res
		case *ssa.UnOp:
			if x.Op == token.MUL {
				if ia2, ok := x.X.(*ssa.IndexAddr); ok && ia2.X == ia.X && ia2.Index == ia.Index {
					res = x
				}
			}
		}
	}
	return res
}

// expandLoad handles *addr for integer cells.
func (fa *FA) expandLoad(v *ssa.UnOp) *Lin {
	if !isInteger(v.Type()) {
		return linAtom(fa.valAtom(v))
	}
	if c := canonLoad(v); c != v {
		return fa.expand(c)
	}
	// table lookup in an immutable global array
	if ia, ok := v.X.(*ssa.IndexAddr); ok {
		var g *ssa.Global
		if gg, ok := ia.X.(*ssa.Global); ok {
			g = gg
		} else if ld, ok := ia.X.(*ssa.UnOp); ok && ld.Op == token.MUL {
			g, _ = ld.X.(*ssa.Global)
		}
		if g != nil {
			if rg, ok := fa.A.tables[g]; ok {
				// the table never changes: two lookups with structurally the same index are one value
				// (go/ssa has no common-subexpression elimination)
				var skey func(x ssa.Value, d int) string
				skey = func(x ssa.Value, d int) string {
					if cv, ok := x.(*ssa.Convert); ok && d < 4 {
						return "conv<" + cv.Type().String() + ">(" + skey(cv.X, d+1) + ")"
					}
					if ct, ok := x.(*ssa.ChangeType); ok && d < 4 {
						return "as<" + ct.Type().String() + ">(" + skey(ct.X, d+1) + ")"
					}
					if c, ok := x.(*ssa.Const); ok {
						return "const " + c.String()
					}
					return fa.vkey(x)
				}
				first := defBlock(v)
				id := fa.A.atom("tbl:"+fa.id+":"+g.String()+"["+skey(ia.Index, 0)+"]", func(a *Atom) {
					a.Kind = aVal
					a.Fn = fa.fn
					a.owner = fa
					a.Block = first
					a.Name = fa.fn.Name() + "." + g.Name() + "[" + ia.Index.Name() + "]"
				})
				a := fa.A.at(id)
				if a.Block != nil && first != nil && a.Block != first && !a.Block.Dominates(first) {
					// defined where the index is defined at the latest: keep the atom usable from both sites
					if ib := defBlock(ia.Index); ib != nil {
						a.Block = ib
					}
				}
				a.Lo, a.Hi = bi(rg[0]), bi(rg[1])
				return linAtom(id)
			}
		}
	}
	key := fa.mem.addrKey(v.X)
	if key == "" {
		return linAtom(fa.valAtom(v))
	}
	ver := fa.mem.versionAt(v, key)
	if ver == nil {
		return linAtom(fa.valAtom(v))
	}
	return fa.cellValue(ver, v.Type())
}

// cellValue is the integer value of a memory version.
func (fa *FA) cellValue(ver *MemVer, t types.Type) *Lin {
	A := fa.A
	switch ver.Kind {
	case mStore:
		return fa.expand(ver.Val)
	}
	key := "cell:" + fa.id + ":" + ver.String()
	id := A.atom(key, func(a *Atom) {
		a.Kind = aCell
		a.Fn = fa.fn
		a.owner = fa
		a.Name = fa.fn.Name() + "." + ver.String()
		if lo, hi, ok := intRange(t); ok {
			a.Lo, a.Hi = lo, hi
		}
		switch ver.Kind {
		case mClobber:
			a.Block = ver.Instr.Block()
		case mPhi:
			a.Block = ver.Block
			ph := ver
			a.Phi = &phiInfo{Block: ver.Block, In: func(i int) *Lin {
				in := fa.mem.phiIncoming(ph, i)
				if in == nil {
					return linAtom(A.fresh(a))
				}
				return fa.cellValue(in, t)
			}}
		}
	})
	a := A.at(id)
	if ver.Kind == mClobber && a.Facts == nil {
		a.Facts = []*Lin{}
		if c, ok := ver.Instr.(*ssa.Call); ok {
			fa.attachCellPost(c, ver, id)
		}
	}
	if ver.Kind == mEntry && a.Facts == nil {
		a.Facts = []*Lin{}
		fa.attachCellPre(ver, id)
	}
	return linAtom(id)
}

// ---- slices ----

type SliceDesc struct {
	Root     ssa.Value // value whose backing array this slice shares (nil if unknown)
	Off      *Lin      // element offset from Root's element 0
	Len, Cap *Lin
	IsString bool
}

func (fa *FA) lenAtom(v ssa.Value, kind atomKind) AtomID {
	A := fa.A
	pre := "len:"
	if kind == aCap {
		pre = "cap:"
	}
	return A.atom(pre+fa.vkey(v), func(a *Atom) {
		a.Kind = kind
		a.Fn = fa.fn
		a.owner = fa
		a.Block = defBlock(v)
		a.Name = pre[:3] + "(" + fa.fn.Name() + "." + v.Name() + ")"
		a.Lo, a.Hi = bi(0), maxLen
	})
}

func (fa *FA) rootDesc(v ssa.Value) *SliceDesc {
	d := &SliceDesc{Root: v, Off: linConst(0)}
	d.IsString = isString(v.Type())
	l := fa.lenAtom(v, aLen)
	d.Len = linAtom(l)
	if d.IsString {
		d.Cap = d.Len
	} else {
		c := fa.lenAtom(v, aCap)
		d.Cap = linAtom(c)
		ca := fa.A.at(c)
		if ca.Facts == nil {
			ca.Facts = []*Lin{ineqLE(d.Len, d.Cap)}
			la := fa.A.at(l)
			la.Facts = append(la.Facts, ineqLE(d.Len, d.Cap))
		}
	}
	return d
}

func isSliceOrString(t types.Type) bool {
	if _, ok := t.Underlying().(*types.Slice); ok {
		return true
	}
	return isString(t)
}

// windowBase: every value reaching the phi is obtained from one base value by
// slicing (x[a:], x[a:b]) — through further phis — and the base is not itself
// such a value. suffix reports that no slice expression had an upper bound.
func windowBase(ph *ssa.Phi) (base ssa.Value, suffix bool) {
	seen := map[ssa.Value]bool{}
	suffix = true
	sliced := false
	var walk func(v ssa.Value) bool
	walk = func(v ssa.Value) bool {
		if seen[v] {
			return true
		}
		seen[v] = true
		switch x := v.(type) {
		case *ssa.Phi:
			for _, e := range x.Edges {
				if !walk(e) {
					return false
				}
			}
			return true
		case *ssa.Slice:
			if !isSliceOrString(x.X.Type()) {
				return false
			}
			if x.High != nil || x.Max != nil {
				suffix = false
			}
			sliced = true
			return walk(x.X)
		case *ssa.ChangeType:
			return walk(x.X)
		case *ssa.Parameter:
			if base != nil && base != v {
				return false
			}
			base = v
			return true
		case *ssa.UnOp:
			// a field loaded once before the loop (rest := w.buf)
			if x.Op == token.MUL && x.Block() != nil && x.Block() != ph.Block() && x.Block().Dominates(ph.Block()) {
				if base != nil && base != v {
					return false
				}
				base = v
				return true
			}
		}
		return false
	}
	if !walk(ph) || base == nil || !sliced {
		return nil, false
	}
	return base, suffix
}

// sliceDesc describes a slice- or string-typed value (nil for other types).
func (fa *FA) sliceDesc(v ssa.Value) *SliceDesc {
	if d, ok := fa.sd[v]; ok {
		return d
	}
	d := fa.sliceDesc1(v)
	fa.sd[v] = d
	return d
}

func (fa *FA) sliceDesc1(v ssa.Value) *SliceDesc {
	A := fa.A
	t := v.Type()
	if !isSliceOrString(t) {
		if p, ok := t.Underlying().(*types.Pointer); ok {
			if arr, ok := p.Elem().Underlying().(*types.Array); ok {
				n := linConst(arr.Len())
				return &SliceDesc{Root: v, Off: linConst(0), Len: n, Cap: n}
			}
		}
		return nil
	}
	switch v := v.(type) {
	case *ssa.Const:
		if v.Value != nil && v.Value.Kind() == constant.String {
			n := linConst(int64(len(constant.StringVal(v.Value))))
			return &SliceDesc{Root: v, Off: linConst(0), Len: n, Cap: n, IsString: true}
		}
		if v.Value == nil { // nil slice
			return &SliceDesc{Root: v, Off: linConst(0), Len: linConst(0), Cap: linConst(0)}
		}
	case *ssa.Slice:
		base := fa.sliceDesc(v.X)
		if base == nil {
			return fa.rootDesc(v)
		}
		lo := linConst(0)
		if v.Low != nil {
			lo = fa.expand(v.Low)
		}
		hi := base.Len
		if v.High != nil {
			hi = fa.expand(v.High)
		}
		d := &SliceDesc{Root: base.Root, Off: base.Off.add(lo), Len: hi.sub(lo), IsString: base.IsString}
		if base.IsString {
			d.Cap = d.Len
		} else if v.Max != nil {
			d.Cap = fa.expand(v.Max).sub(lo)
		} else if base.Cap != nil {
			d.Cap = base.Cap.sub(lo)
		}
		return d
	case *ssa.ChangeType:
		return fa.sliceDesc(v.X)
	case *ssa.Convert:
		// string <-> []byte: a copy of the same length
		if src := fa.sliceDesc(v.X); src != nil {
			d := &SliceDesc{Root: v, Off: linConst(0), Len: src.Len, IsString: isString(t)}
			d.Cap = d.Len
			if !d.IsString {
				c := fa.lenAtom(v, aCap)
				d.Cap = linAtom(c)
				ca := A.at(c)
				if ca.Facts == nil {
					ca.Facts = []*Lin{ineqLE(d.Len, d.Cap)}
				}
			}
			return d
		}
	case *ssa.MakeSlice:
		return &SliceDesc{Root: v, Off: linConst(0), Len: fa.expand(v.Len), Cap: fa.expand(v.Cap)}
	case *ssa.Phi:
		// a cursor kept as an advancing sub-slice (rest = rest[n:]): every incoming value is a window of one
		// and the same underlying slice; the phi is then that slice at a running offset
		if base, suffix := windowBase(v); base != nil {
			if bd := fa.sliceDesc(base); bd != nil && bd.Root != nil && bd.Off.isConst() && bd.Off.C.Sign() == 0 {
				base := bd.Root
				ph := v
				offID := A.atom("sliceoff:"+fa.vkey(v), func(a *Atom) {
					a.Kind = aVal
					a.Fn = fa.fn
					a.owner = fa
					a.Block = ph.Block()
					a.Name = fa.fn.Name() + ".off(" + ph.Name() + ")"
					a.Lo = bi(0)
					a.Hi = pow2(62)
				})
				d := &SliceDesc{Root: base, Off: linAtom(offID), IsString: bd.IsString}
				if suffix {
					d.Len = bd.Len.sub(d.Off)
					if bd.Cap != nil {
						d.Cap = bd.Cap.sub(d.Off)
					}
					if d.IsString {
						d.Cap = d.Len
					}
				} else {
					rd := fa.rootDesc(v)
					d.Len, d.Cap = rd.Len, rd.Cap
				}
				fa.sd[v] = d // before the edges are looked at: they refer back to the phi
				oa := A.at(offID)
				if oa.Phi == nil {
					oa.Phi = &phiInfo{Block: ph.Block(), In: func(i int) *Lin {
						if dd := fa.sliceDesc(ph.Edges[i]); dd != nil && dd.Root == base {
							return dd.Off
						}
						return linAtom(A.fresh(oa))
					}}
				}
				if !suffix {
					la := A.at(fa.lenAtom(v, aLen))
					if la.Phi == nil {
						la.Phi = &phiInfo{Block: ph.Block(), In: func(i int) *Lin {
							if dd := fa.sliceDesc(ph.Edges[i]); dd != nil {
								return dd.Len
							}
							return linAtom(A.fresh(la))
						}}
					}
				}
				return d
			}
		}
		d := fa.rootDesc(v)
		la := A.at(fa.lenAtom(v, aLen))
		if la.Phi == nil {
			ph := v
			la.Phi = &phiInfo{Block: v.Block(), In: func(i int) *Lin {
				if dd := fa.sliceDesc(ph.Edges[i]); dd != nil {
					return dd.Len
				}
				return linAtom(A.fresh(la))
			}}
			if !d.IsString {
				ca := A.at(fa.lenAtom(v, aCap))
				ca.Phi = &phiInfo{Block: v.Block(), In: func(i int) *Lin {
					if dd := fa.sliceDesc(ph.Edges[i]); dd != nil && dd.Cap != nil {
						return dd.Cap
					}
					return linAtom(A.fresh(ca))
				}}
			}
		}
		return d
	case *ssa.UnOp:
		if v.Op == token.MUL {
			if c := canonLoad(v); c != v {
				return fa.sliceDesc(c)
			}
			key := fa.mem.addrKey(v.X)
			if key != "" {
				if ver := fa.mem.versionAt(v, key); ver != nil {
					return fa.cellSlice(ver, v)
				}
			}
		}
	case *ssa.Call:
		com := v.Common()
		if b, ok := com.Value.(*ssa.Builtin); ok {
			switch b.Name() {
			case "Slice", "String": // unsafe.Slice / unsafe.String
				n := fa.expand(com.Args[1])
				return &SliceDesc{Root: v, Off: linConst(0), Len: n, Cap: n, IsString: b.Name() == "String"}
			case "append":
				d := fa.rootDesc(v)
				la := A.at(fa.lenAtom(v, aLen))
				if len(la.Facts) <= 1 {
					s0, s1 := fa.sliceDesc(com.Args[0]), fa.sliceDesc(com.Args[1])
					if s0 != nil && s1 != nil {
						sum := s0.Len.add(s1.Len)
						la.Facts = append(la.Facts, ineqLE(d.Len, sum), ineqLE(sum, d.Len))
					}
				}
				return d
			}
		}
		d := fa.rootDesc(v)
		fa.attachCallFacts(v)
		return d
	case *ssa.Extract:
		d := fa.rootDesc(v)
		if c, ok := v.Tuple.(*ssa.Call); ok {
			fa.attachCallFacts(c)
		}
		return d
	}
	return fa.rootDesc(v)
}

// cellSlice describes a slice loaded from a tracked memory cell.
func (fa *FA) cellSlice(ver *MemVer, at ssa.Value) *SliceDesc {
	A := fa.A
	if ver.Kind == mStore {
		if d := fa.sliceDesc(ver.Val); d != nil {
			return d
		}
	}
	// one descriptor per version: atoms keyed by the version
	vk := fa.id + ":" + ver.String()
	isStr := isString(at.Type())
	var blk *ssa.BasicBlock
	switch ver.Kind {
	case mClobber:
		blk = ver.Instr.Block()
	case mPhi:
		blk = ver.Block
	case mStore:
		blk = ver.Instr.Block()
	}
	mk := func(pre string, kind atomKind) AtomID {
		return A.atom(pre+vk, func(a *Atom) {
			a.Kind = kind
			a.Fn = fa.fn
			a.owner = fa
			a.Block = blk
			a.Name = pre[:3] + "(" + fa.fn.Name() + "." + ver.String() + ")"
			a.Lo, a.Hi = bi(0), maxLen
		})
	}
	l := mk("len:", aLen)
	d := &SliceDesc{Root: at, Off: linConst(0), Len: linAtom(l), IsString: isStr}
	if isStr {
		d.Cap = d.Len
	} else {
		c := mk("cap:", aCap)
		d.Cap = linAtom(c)
		ca := A.at(c)
		if ca.Facts == nil {
			ca.Facts = []*Lin{ineqLE(d.Len, d.Cap)}
			A.at(l).Facts = append(A.at(l).Facts, ineqLE(d.Len, d.Cap))
		}
	}
	if ver.Kind == mPhi {
		la := A.at(l)
		if la.Phi == nil {
			ph := ver
			la.Phi = &phiInfo{Block: ver.Block, In: func(i int) *Lin {
				in := fa.mem.phiIncoming(ph, i)
				if in == nil {
					return linAtom(A.fresh(la))
				}
				return fa.cellSlice(in, at).Len
			}}
			if !isStr {
				ca := A.at(A.byKey["cap:"+vk])
				ca.Phi = &phiInfo{Block: ver.Block, In: func(i int) *Lin {
					in := fa.mem.phiIncoming(ph, i)
					if in == nil {
						return linAtom(A.fresh(ca))
					}
					dd := fa.cellSlice(in, at)
					if dd.Cap == nil {
						return linAtom(A.fresh(ca))
					}
					return dd.Cap
				}}
			}
		}
	}
	return d
}

// ---- pointers ----

func (fa *FA) ptrAtom(v ssa.Value) AtomID {
	return fa.A.atom("ptr:"+fa.vkey(v), func(a *Atom) {
		a.Kind = aPtr
		a.Fn = fa.fn
		a.owner = fa
		a.Block = defBlock(v)
		a.Name = "addr(" + fa.fn.Name() + "." + v.Name() + ")"
		a.Lo, a.Hi = bi(0), maxAddr
	})
}

func (fa *FA) dataAtom(root ssa.Value) AtomID {
	return fa.A.atom("data:"+fa.vkey(root), func(a *Atom) {
		a.Kind = aData
		a.Fn = fa.fn
		a.owner = fa
		a.Block = defBlock(root)
		a.Name = "data(" + fa.fn.Name() + "." + root.Name() + ")"
		a.Lo, a.Hi = bi(0), maxAddr
	})
}

func (fa *FA) sizeof(t types.Type) (sz int64) {
	defer func() {
		if recover() != nil {
			sz = 1 // type-parameter dependent size (generic body)
		}
	}()
	return types.SizesFor("gc", "amd64").Sizeof(t)
}

// ptrExpand expresses a pointer value as an integer address.
func (fa *FA) ptrExpand(v ssa.Value) *Lin {
	switch v := v.(type) {
	case *ssa.Call:
		if b, ok := v.Common().Value.(*ssa.Builtin); ok {
			switch b.Name() {
			case "Add":
				return fa.ptrExpand(v.Common().Args[0]).add(fa.expand(v.Common().Args[1]))
			case "SliceData", "StringData":
				if d := fa.sliceDesc(v.Common().Args[0]); d != nil && d.Root != nil {
					return linAtom(fa.dataAtom(d.Root)).add(d.Off)
				}
			}
		}
	case *ssa.Convert:
		if isUnsafePointer(v.X.Type()) || isUnsafePointer(v.Type()) {
			if _, ok := v.X.Type().Underlying().(*types.Basic); ok && !isUnsafePointer(v.X.Type()) {
				// uintptr -> unsafe.Pointer
				return fa.expand(v.X)
			}
			return fa.ptrExpand(v.X)
		}
	case *ssa.ChangeType:
		return fa.ptrExpand(v.X)
	case *ssa.IndexAddr:
		esz := fa.sizeof(deref(v.Type()))
		idx := fa.expand(v.Index)
		if _, isSlice := v.X.Type().Underlying().(*types.Slice); isSlice {
			if d := fa.sliceDesc(v.X); d != nil && d.Root != nil {
				return linAtom(fa.dataAtom(d.Root)).add(d.Off.add(idx).scale(bi(esz)))
			}
		} else {
			return fa.ptrExpand(v.X).add(idx.scale(bi(esz)))
		}
	}
	return linAtom(fa.ptrAtom(v))
}

// ---- nil-ness ----

// nilExpand returns a 0/1 linear form: 1 iff v is non-nil.
func (fa *FA) nilExpand(v ssa.Value) *Lin {
	A := fa.A
	switch v := v.(type) {
	case *ssa.Const:
		if v.Value == nil {
			return linConst(0)
		}
	case *ssa.MakeInterface:
		return linConst(1)
	case *ssa.Alloc, *ssa.FieldAddr, *ssa.IndexAddr, *ssa.MakeSlice, *ssa.MakeMap, *ssa.MakeClosure, *ssa.Function, *ssa.Global:
		return linConst(1)
	case *ssa.ChangeInterface:
		return fa.nilExpand(v.X)
	case *ssa.Call:
		if cal := v.Common().StaticCallee(); cal != nil && neverNilResult(cal) {
			return linConst(1)
		}
	case *ssa.UnOp:
		if v.Op == token.MUL {
			if g, ok := v.X.(*ssa.Global); ok && A.nonNilGlobal(g) {
				return linConst(1)
			}
			if key := fa.mem.addrKey(v.X); key != "" {
				if ver := fa.mem.versionAt(v, key); ver != nil {
					return fa.cellNil(ver)
				}
			}
		}
	}
	id := A.atom("nil:"+fa.vkey(v), func(a *Atom) {
		a.Kind = aNil
		a.Fn = fa.fn
		a.owner = fa
		a.Block = defBlock(v)
		a.Name = "nonnil(" + fa.fn.Name() + "." + v.Name() + ")"
		a.Lo, a.Hi = bi(0), bi(1)
		if ph, ok := v.(*ssa.Phi); ok {
			a.Phi = &phiInfo{Block: ph.Block(), In: func(i int) *Lin { return fa.nilExpand(ph.Edges[i]) }}
		}
	})
	if ex, ok := v.(*ssa.Extract); ok {
		if c, ok := ex.Tuple.(*ssa.Call); ok {
			fa.attachCallFacts(c)
		}
	}
	return linAtom(id)
}

func (fa *FA) cellNil(ver *MemVer) *Lin {
	A := fa.A
	if ver.Kind == mStore {
		return fa.nilExpand(ver.Val)
	}
	id := A.atom("nilcell:"+fa.id+":"+ver.String(), func(a *Atom) {
		a.Kind = aNil
		a.Fn = fa.fn
		a.owner = fa
		a.Name = "nonnil(" + fa.fn.Name() + "." + ver.String() + ")"
		a.Lo, a.Hi = bi(0), bi(1)
		switch ver.Kind {
		case mClobber:
			a.Block = ver.Instr.Block()
		case mPhi:
			a.Block = ver.Block
			ph := ver
			a.Phi = &phiInfo{Block: ver.Block, In: func(i int) *Lin {
				in := fa.mem.phiIncoming(ph, i)
				if in == nil {
					return linAtom(A.fresh(a))
				}
				return fa.cellNil(in)
			}}
		}
	})
	return linAtom(id)
}

// neverNilResult: constructors that never return nil.
func neverNilResult(f *ssa.Function) bool { return neverNil(f, map[*ssa.Function]bool{}) }

func neverNil(f *ssa.Function, busy map[*ssa.Function]bool) bool {
	if f.Pkg == nil && f.Origin() == nil {
		return false
	}
	if f.Pkg != nil {
		switch f.Pkg.Pkg.Path() + "." + f.Name() {
		case "errors.New", "fmt.Errorf":
			return true
		}
	}
	if busy[f] {
		return true // assume for recursion
	}
	busy[f] = true
	defer delete(busy, f)
	// repo functions whose every return is an allocation / MakeInterface / never-nil call
	if inRepo(f) && f.Blocks != nil && f.Signature.Results().Len() == 1 {
		for _, b := range f.Blocks {
			if r, ok := b.Instrs[len(b.Instrs)-1].(*ssa.Return); ok {
				switch x := r.Results[0].(type) {
				case *ssa.Alloc, *ssa.MakeInterface:
				case *ssa.Call:
					cal := x.Common().StaticCallee()
					if cal == nil || !neverNil(cal, busy) {
						return false
					}
				default:
					return false
				}
			}
		}
		return true
	}
	return false
}

// stdSentinels are exported standard-library error variables, never nil.
var stdSentinels = map[string]bool{
	"io.EOF": true, "io.ErrUnexpectedEOF": true, "io.ErrNoProgress": true, "io.ErrShortWrite": true, "io.ErrShortBuffer": true, "io.ErrClosedPipe": true,
}

// nonNilGlobal reports whether loading g always yields a non-nil value:
// standard sentinels, and repository globals assigned exactly once, in their
// package initialiser, from a never-nil constructor.
func (A *Analysis) nonNilGlobal(g *ssa.Global) bool {
	if r, ok := A.nnGlobals[g]; ok {
		return r
	}
	res := false
	if g.Pkg != nil {
		if stdSentinels[g.Pkg.Pkg.Path()+"."+g.Name()] {
			res = true
		} else if len(g.Pkg.Pkg.Path()) >= len(modPath) && g.Pkg.Pkg.Path()[:len(modPath)] == modPath {
			stores, good := 0, true
			for fn := range A.P.AllFuncs {
				if !inRepo(fn) {
					continue
				}
				for _, b := range fn.Blocks {
					for _, in := range b.Instrs {
						st, ok := in.(*ssa.Store)
						if ok && st.Addr == g {
							stores++
							if !(fn.Name() == "init" && fn.Synthetic != "") {
								good = false
								continue
							}
							switch v := st.Val.(type) {
							case *ssa.Alloc, *ssa.MakeInterface:
							case *ssa.Call:
								if cal := v.Common().StaticCallee(); cal == nil || !neverNilResult(cal) {
									good = false
								}
							default:
								good = false
							}
							continue
						}
						// address taken for anything but loads?
						var ops []*ssa.Value
						for _, op := range in.Operands(ops) {
							if *op == ssa.Value(g) {
								if u, ok := in.(*ssa.UnOp); !ok || u.Op != token.MUL {
									good = false
								}
							}
						}
					}
				}
			}
			res = good && stores == 1
		}
	}
	A.nnGlobals[g] = res
	return res
}

// markUsed records the arithmetic instructions whose exactness a linear
// expansion of v relies on (stopping at operations modelled as opaque atoms).
func (fa *FA) markUsed(v ssa.Value, seen map[ssa.Value]bool) {
	if v == nil || seen[v] {
		return
	}
	seen[v] = true
	switch x := v.(type) {
	case *ssa.BinOp:
		if !isInteger(x.Type()) {
			// comparisons: both operands matter
			if isInteger(x.X.Type()) {
				fa.markUsed(x.X, seen)
				fa.markUsed(x.Y, seen)
			}
			return
		}
		switch x.Op {
		case token.ADD, token.SUB, token.MUL:
			fa.usedOps[x] = true
			fa.markUsed(x.X, seen)
			fa.markUsed(x.Y, seen)
		case token.SHL:
			if _, ok := x.Y.(*ssa.Const); ok {
				fa.usedOps[x] = true
				fa.markUsed(x.X, seen)
			}
		case token.SHR, token.QUO, token.REM:
			fa.markUsed(x.X, seen)
			fa.markUsed(x.Y, seen)
		}
	case *ssa.UnOp:
		if x.Op == token.SUB || x.Op == token.NOT {
			fa.markUsed(x.X, seen)
		}
		if x.Op == token.MUL {
			if key := fa.mem.addrKey(x.X); key != "" {
				if ver := fa.mem.versionAt(x, key); ver != nil {
					fa.markVer(ver, seen, map[*MemVer]bool{})
				}
			}
		}
	case *ssa.Convert:
		fa.markUsed(x.X, seen)
	case *ssa.ChangeType:
		fa.markUsed(x.X, seen)
	case *ssa.Phi:
		for _, e := range x.Edges {
			fa.markUsed(e, seen)
		}
	case *ssa.Slice:
		fa.markUsed(x.X, seen)
		fa.markUsed(x.Low, seen)
		fa.markUsed(x.High, seen)
		fa.markUsed(x.Max, seen)
	case *ssa.Call:
		if b, ok := x.Common().Value.(*ssa.Builtin); ok {
			switch b.Name() {
			case "len", "cap", "Add", "copy", "Slice", "String", "SliceData", "StringData":
				for _, a := range x.Common().Args {
					fa.markUsed(a, seen)
				}
			}
		}
	case *ssa.IndexAddr:
		fa.markUsed(x.X, seen)
		fa.markUsed(x.Index, seen)
	case *ssa.MakeSlice:
		fa.markUsed(x.Len, seen)
		fa.markUsed(x.Cap, seen)
	}
}

func (fa *FA) markVer(ver *MemVer, seen map[ssa.Value]bool, vs map[*MemVer]bool) {
	if ver == nil || vs[ver] {
		return
	}
	vs[ver] = true
	switch ver.Kind {
	case mStore:
		fa.markUsed(ver.Val, seen)
	case mPhi:
		for i := range ver.Block.Preds {
			fa.markVer(fa.mem.phiIncoming(ver, i), seen, vs)
		}
	}
}

// markRoots marks the arithmetic feeding conditions, bounds, call arguments,
// returned values and stores of the function.
func (fa *FA) markRoots() {
	seen := map[ssa.Value]bool{}
	for _, b := range fa.fn.Blocks {
		for _, in := range b.Instrs {
			switch x := in.(type) {
			case *ssa.If:
				fa.markUsed(x.Cond, seen)
			case *ssa.Slice, *ssa.IndexAddr, *ssa.MakeSlice:
				fa.markUsed(x.(ssa.Value), seen)
			case *ssa.Index:
				fa.markUsed(x.Index, seen)
			case *ssa.Lookup:
				if isString(x.X.Type()) {
					fa.markUsed(x.Index, seen)
				}
			case *ssa.Return:
				for _, r := range x.Results {
					if isInteger(r.Type()) || isSliceOrString(r.Type()) {
						fa.markUsed(r, seen)
					}
				}
			case *ssa.Store:
				if isInteger(x.Val.Type()) && fa.mem.addrKey(x.Addr) != "" {
					fa.markUsed(x.Val, seen)
				}
			case *ssa.Call:
				if _, isB := x.Common().Value.(*ssa.Builtin); isB {
					fa.markUsed(x, seen)
					continue
				}
				for _, a := range x.Common().Args {
					if isInteger(a.Type()) || isSliceOrString(a.Type()) || isUnsafePointer(a.Type()) {
						fa.markUsed(a, seen)
					}
				}
			case *ssa.UnOp:
				if x.Op == token.MUL {
					if cv, ok := x.X.(*ssa.Convert); ok && isUnsafePointer(cv.X.Type()) {
						fa.markUsed(cv.X, seen)
					}
				}
			}
		}
	}
}
