package main

// Field roles. The rules speak about struct fields by a canonical role name
// ("the reader's cursor ri", "the buffer buf", …). Unexported fields may be
// renamed freely in the repository, so the canonical name is resolved from the
// struct declaration by the field's *type* (unique inside the struct), with the
// declared name only as a tie-break. Everything that renders a field name for a
// rule (access paths, memory keys) goes through canonFieldName.

import (
	"go/types"
	"strings"
	"sync"
)

type roleSpec struct {
	Canon string // name the rules use
	Type  string // type of the field, package qualifiers dropped ("" = see Pred)
	Pred  func(t types.Type) bool
	Hints []string // when several fields have the type: substrings of the declared name that identify this role
}

func isStructNamed(t types.Type) bool {
	_, ok := t.Underlying().(*types.Struct)
	_, named := t.(*types.Named)
	return ok && named
}

// isFlagType: a bool, or a small named integer type used as a two-valued mode (its zero value standing for false).
func isFlagType(t types.Type) bool {
	b, ok := t.Underlying().(*types.Basic)
	if !ok {
		return false
	}
	if b.Kind() == types.Bool {
		return true
	}
	_, named := t.(*types.Named)
	return named && b.Info()&types.IsInteger != 0
}

func isIfaceWith(method string) func(types.Type) bool {
	return func(t types.Type) bool {
		it, ok := t.Underlying().(*types.Interface)
		if !ok {
			return false
		}
		for i := 0; i < it.NumMethods(); i++ {
			if it.Method(i).Name() == method {
				return true
			}
		}
		return false
	}
}

// roleTable: package-relative type name → roles.
var roleTable = map[string][]roleSpec{
	"bufiox.DefaultReader": {
		{Canon: "buf", Type: "[]byte"}, {Canon: "rd", Pred: isIfaceWith("Read")}, {Canon: "ri", Type: "int"},
		{Canon: "err", Type: "error"}, {Canon: "pendingBuf", Type: "[][]byte"}, {Canon: "bufReadOnly", Pred: isFlagType},
	},
	"bufiox.DefaultWriter": {
		{Canon: "buf", Type: "[]byte"}, {Canon: "wd", Pred: isIfaceWith("Write")}, {Canon: "err", Type: "error"},
		{Canon: "pendingBuf", Type: "[][]byte"}, {Canon: "disableCache", Pred: isFlagType},
	},
	"bufiox.fakeIOWriter": {{Canon: "bw", Type: "*BytesWriter"}},
	"bufiox.BytesWriter": {
		{Canon: "flushBytes", Type: "*[]byte"},
		{Canon: "fakedIOWriter", Pred: func(t types.Type) bool { return isStructNamed(t) && !strings.HasSuffix(t.String(), ".DefaultWriter") }},
	},
	"bufiox.BytesReader": {
		{Canon: "fakedIOReader", Pred: func(t types.Type) bool { return isStructNamed(t) && !strings.HasSuffix(t.String(), ".DefaultReader") }},
	},
	"thrift.SkipDecoder":       {{Canon: "r", Pred: isIfaceWith("Peek")}, {Canon: "rn", Type: "int"}},
	"thrift.BytesSkipDecoder":  {{Canon: "n", Type: "int"}, {Canon: "b", Type: "[]byte"}},
	"thrift.ReaderSkipDecoder": {{Canon: "r", Pred: isIfaceWith("Read")}, {Canon: "n", Type: "int"}, {Canon: "b", Type: "[]byte"}},
	"thrift.ProtocolException": {{Canon: "t", Type: "int32"}, {Canon: "m", Type: "string"}, {Canon: "err", Type: "error"}},
	"thrift.BufferReader":      {{Canon: "r", Pred: isIfaceWith("Next")}},
	"thrift.BufferWriter":      {{Canon: "w", Pred: isIfaceWith("Malloc")}},
	"strmap.StrMap": {
		{Canon: "data", Type: "[]byte"}, {Canon: "hashtable", Type: "[]int32"},
		{Canon: "items", Pred: func(t types.Type) bool {
			s, ok := t.Underlying().(*types.Slice)
			return ok && isStructNamed(s.Elem())
		}},
	},
	"strstore.StrStore": {{Canon: "buf", Type: "[]byte"}},
	"strmap.mapItem": {
		{Canon: "off", Type: "int"},
		{Canon: "slot", Type: "uint32", Hints: []string{"slot", "hash", "bucket", "idx"}},
		{Canon: "sz", Type: "uint32", Hints: []string{"sz", "len", "size", "Len", "Size"}},
	},
	"strmap.Str2Str": {
		{Canon: "strMap", Pred: func(t types.Type) bool { return strings.Contains(t.String(), "StrMap[") }},
		{Canon: "strStore", Pred: func(t types.Type) bool { return strings.Contains(t.String(), "StrStore") }},
	},
}

var (
	roleMu    sync.Mutex
	roleCache = map[*types.Named]map[int]string{}
)

func typeStringNoPkg(t types.Type) string {
	return types.TypeString(t, func(*types.Package) string { return "" })
}

// canonFieldName returns the canonical name of field idx of the struct type t
// (a named struct or a pointer to one); the declared name if no role applies.
func canonFieldName(t types.Type, idx int) string {
	if p, ok := t.Underlying().(*types.Pointer); ok {
		t = p.Elem()
	}
	st, ok := t.Underlying().(*types.Struct)
	if !ok || idx >= st.NumFields() {
		return "?"
	}
	declared := st.Field(idx).Name()
	named, ok := t.(*types.Named)
	if !ok {
		if al, isAl := t.(*types.Alias); isAl {
			named, ok = types.Unalias(al).(*types.Named)
		}
	}
	if !ok || named.Obj() == nil || named.Obj().Pkg() == nil {
		return declared
	}
	// instantiated generics share the roles of their origin
	named = named.Origin()
	roleMu.Lock()
	defer roleMu.Unlock()
	if m, ok := roleCache[named]; ok {
		if n, ok := m[idx]; ok {
			return n
		}
		return declared
	}
	m := map[int]string{}
	roleCache[named] = m
	path := named.Obj().Pkg().Path()
	key := path[strings.LastIndex(path, "/")+1:] + "." + named.Obj().Name()
	specs, ok := roleTable[key]
	if !ok && strings.HasSuffix(path, "/strmap") {
		// the item type of the map may be renamed: any struct of the package with an int offset, two uint32 and a value
		if ost, isS := named.Underlying().(*types.Struct); isS && ost.NumFields() == 4 {
			n32 := 0
			for i := 0; i < 4; i++ {
				if typeStringNoPkg(ost.Field(i).Type()) == "uint32" {
					n32++
				}
			}
			if n32 == 2 {
				specs, ok = roleTable["strmap.mapItem"], true
			}
		}
	}
	if !ok && strings.HasSuffix(path, "/bufiox") {
		if ost, isS := named.Underlying().(*types.Struct); isS && ost.NumFields() == 1 && typeStringNoPkg(ost.Field(0).Type()) == "*BytesWriter" {
			specs, ok = roleTable["bufiox.fakeIOWriter"], true
		}
	}
	if !ok || !strings.HasPrefix(path, modPath) {
		return declared
	}
	ost, ok := named.Underlying().(*types.Struct)
	if !ok {
		return declared
	}
	taken := map[int]bool{}
	for _, sp := range specs {
		var cands []int
		for i := 0; i < ost.NumFields(); i++ {
			f := ost.Field(i)
			if f.Embedded() {
				continue
			}
			match := false
			if sp.Pred != nil {
				match = sp.Pred(f.Type())
			} else {
				match = typeStringNoPkg(f.Type()) == sp.Type
			}
			if match && !taken[i] {
				cands = append(cands, i)
			}
		}
		pick := -1
		switch {
		case len(cands) == 1:
			pick = cands[0]
		case len(cands) > 1:
			for _, i := range cands {
				if ost.Field(i).Name() == sp.Canon {
					pick = i
				}
			}
			if pick < 0 {
				for _, i := range cands {
					for _, h := range sp.Hints {
						if pick < 0 && strings.Contains(ost.Field(i).Name(), h) {
							pick = i
						}
					}
				}
			}
		}
		if pick >= 0 {
			m[pick] = sp.Canon
			taken[pick] = true
		}
	}
	// a declared name that collides with a canonical name given to another field must not be confused with it
	for i := 0; i < ost.NumFields(); i++ {
		if _, has := m[i]; has {
			continue
		}
		n := ost.Field(i).Name()
		for _, c := range m {
			if c == n {
				m[i] = n + "'"
			}
		}
	}
	if n, ok := m[idx]; ok {
		return n
	}
	return declared
}

// helperTypeOf returns the name of the named struct type of the field with the
// given canonical role in owner (e.g. the inert source embedded in BytesReader),
// so that its methods are found whatever the type is called.
func (P *Program) helperTypeOf(rel, owner, canon string) string {
	tp := P.tpkg(rel)
	if tp == nil {
		return ""
	}
	obj := tp.Types.Scope().Lookup(owner)
	if obj == nil {
		return ""
	}
	st, ok := obj.Type().Underlying().(*types.Struct)
	if !ok {
		return ""
	}
	for i := 0; i < st.NumFields(); i++ {
		if canonFieldName(obj.Type(), i) == canon {
			if n, ok := st.Field(i).Type().(*types.Named); ok {
				return n.Obj().Name()
			}
		}
	}
	return ""
}
