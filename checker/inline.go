package main

// Normalisation by inlining.
//
// Many behaviour-preserving edits move code between functions: a block becomes
// a helper, a helper is merged back, an exported function starts to delegate
// to a sibling. The rules of this checker are anchored in the decomposition of
// the tree they were written against, so such an edit can make a rule lose its
// footing although nothing observable changed. Inlining a call is itself
// behaviour preserving; therefore, when a check does not pass on the tree as
// it stands, the calls whose callee (or caller→callee edge) did not exist in
// the decomposition the rules know (known_calls.txt, used for nothing else)
// are inlined at source level, in memory, and the check is run again on the
// result. A property that is decided on a program equivalent to /repo is
// decided for /repo. The original verdict stands unless the normalised program
// passes every obligation.
//
// The inliner is deliberately small and refuses anything it cannot do exactly:
// callees with defer/recover, function literals, labels, goto, variadics, type
// parameters, promoted methods, or names that would be captured at the call
// site. Three shapes are produced:
//
//   tail       return f(a)            → { var p = a; <body> }            (result types identical)
//   statement  f(a)                   → { var p = a; <body, returns → break> }
//   value      x, y := g(f(a)), 1     → var t T; { var p = a; <body, returns → t = …; break> }; x, y := g(t), 1
//
// plus direct substitution of a single-expression callee applied to simple
// arguments (usable in loop conditions). A call is hoisted out of a statement
// only if nothing that could have an effect is evaluated before it.

import (
	_ "embed"
	"fmt"
	"go/ast"
	"go/token"
	"go/types"
	"os"
	"sort"
	"strings"

	"golang.org/x/tools/go/packages"
)

//go:embed known_calls.txt
var knownCallsText string

type knownSet struct {
	funcs map[string]bool
	edges map[string]bool
}

func loadKnown() *knownSet {
	k := &knownSet{funcs: map[string]bool{}, edges: map[string]bool{}}
	for _, ln := range strings.Split(knownCallsText, "\n") {
		ln = strings.TrimSpace(ln)
		switch {
		case strings.HasPrefix(ln, "F "):
			k.funcs[ln[2:]] = true
		case strings.HasPrefix(ln, "E "):
			k.edges[ln[2:]] = true
		}
	}
	return k
}

type declInfo struct {
	decl *ast.FuncDecl
	pkg  *packages.Package
	file *ast.File
	src  []byte
	fn   *types.Func
}

type inliner struct {
	P       *Program
	known   *knownSet
	overlay map[string][]byte
	decls   map[*types.Func]*declInfo
	srcs    map[string][]byte
	n       int
	log     []string
}

func (il *inliner) fileSrc(name string) []byte {
	if b, ok := il.srcs[name]; ok {
		return b
	}
	if b, ok := il.overlay[name]; ok {
		il.srcs[name] = b
		return b
	}
	b, err := os.ReadFile(name)
	if err != nil {
		b = nil
	}
	il.srcs[name] = b
	return b
}

func (il *inliner) off(p token.Pos) int { return il.P.Fset.Position(p).Offset }

func repoPkgs(P *Program) []*packages.Package {
	var out []*packages.Package
	for _, p := range P.Pkgs {
		if strings.HasPrefix(p.PkgPath, modPath) {
			out = append(out, p)
		}
	}
	return out
}

// dumpKnown prints the function and static-call-edge list of the loaded tree.
func dumpKnown(P *Program) {
	var lines []string
	for _, p := range repoPkgs(P) {
		for _, f := range p.Syntax {
			for _, d := range f.Decls {
				fd, ok := d.(*ast.FuncDecl)
				if !ok {
					continue
				}
				fn, _ := p.TypesInfo.Defs[fd.Name].(*types.Func)
				if fn == nil {
					continue
				}
				lines = append(lines, "F "+fn.FullName())
				if fd.Body == nil {
					continue
				}
				ast.Inspect(fd.Body, func(n ast.Node) bool {
					if c, ok := n.(*ast.CallExpr); ok {
						if callee := staticCalleeAST(p.TypesInfo, c); callee != nil && callee.Pkg() != nil && strings.HasPrefix(callee.Pkg().Path(), modPath) {
							lines = append(lines, "E "+fn.FullName()+" -> "+originFunc(callee).FullName())
						}
					}
					return true
				})
			}
		}
	}
	sort.Strings(lines)
	prev := ""
	for _, l := range lines {
		if l != prev {
			fmt.Println(l)
		}
		prev = l
	}
}

func originFunc(f *types.Func) *types.Func {
	if o := f.Origin(); o != nil {
		return o
	}
	return f
}

func staticCalleeAST(info *types.Info, c *ast.CallExpr) *types.Func {
	switch fun := ast.Unparen(c.Fun).(type) {
	case *ast.Ident:
		if f, ok := info.Uses[fun].(*types.Func); ok {
			return f
		}
	case *ast.SelectorExpr:
		if sel, ok := info.Selections[fun]; ok {
			if sel.Kind() == types.MethodVal {
				if f, ok := sel.Obj().(*types.Func); ok {
					if _, isIface := sel.Recv().Underlying().(*types.Interface); isIface {
						return nil
					}
					return f
				}
			}
			return nil
		}
		if f, ok := info.Uses[fun.Sel].(*types.Func); ok {
			return f
		}
	case *ast.IndexExpr, *ast.IndexListExpr:
		return nil
	}
	return nil
}

// normalizeByInlining returns an overlay in which the calls to functions (or
// along edges) unknown to the rules are inlined, and a log of what was done.
func normalizeByInlining(repo string, base map[string][]byte) (map[string][]byte, []string) {
	known := loadKnown()
	overlay := map[string][]byte{}
	for k, v := range base {
		overlay[k] = v
	}
	var log []string
	total := 0
	// comparisons written with the constant on the left (STOP == tp, 0 < n) are turned round: the rules
	// look for the constant on the right
	if P0, err := loadSyntaxOnly(repo, overlay); err == nil {
		ch, n := constLeftPass(P0, overlay)
		for k, v := range ch {
			overlay[k] = v
		}
		if n > 0 {
			total += n
			log = append(log, fmt.Sprintf("%d comparisons with the constant on the left turned round", n))
		}
	}
	for round := 0; round < 8; round++ {
		P, err := loadSyntaxOnly(repo, overlay)
		if err != nil {
			if round == 0 {
				return nil, nil
			}
			return nil, append(log, "normalisation abandoned: the inlined program does not type-check: "+err.Error())
		}
		il := &inliner{P: P, known: known, overlay: overlay, decls: map[*types.Func]*declInfo{}, srcs: map[string][]byte{}}
		il.n = total
		il.index()
		changed := il.round()
		log = append(log, il.log...)
		total = il.n
		if len(changed) == 0 {
			break
		}
		for k, v := range changed {
			overlay[k] = v
		}
	}
	if total == 0 {
		return nil, nil
	}
	// the result must type-check
	P, err := loadSyntaxOnly(repo, overlay)
	if err != nil {
		return nil, append(log, "normalisation abandoned: the inlined program does not type-check: "+err.Error())
	}
	// helpers unknown to the rules that nothing refers to any more are dropped (they would
	// otherwise be analysed as if they were entry points)
	if pruned, plog := pruneDead(P, known, overlay); pruned != nil {
		if _, err := loadSyntaxOnly(repo, pruned); err == nil {
			return pruned, append(log, plog...)
		}
	}
	return overlay, log
}

func pruneDead(P *Program, known *knownSet, overlay map[string][]byte) (map[string][]byte, []string) {
	used := map[types.Object]bool{}
	for _, p := range repoPkgs(P) {
		for _, o := range p.TypesInfo.Uses {
			if f, ok := o.(*types.Func); ok {
				used[originFunc(f)] = true
			}
		}
		for _, s := range p.TypesInfo.Selections {
			if f, ok := s.Obj().(*types.Func); ok {
				used[originFunc(f)] = true
			}
		}
	}
	out := map[string][]byte{}
	for k, v := range overlay {
		out[k] = v
	}
	var log []string
	for _, p := range repoPkgs(P) {
		for _, f := range p.Syntax {
			name := P.Fset.File(f.Pos()).Name()
			if strings.HasSuffix(name, "_test.go") {
				continue
			}
			var rs []repl
			for _, d := range f.Decls {
				fd, ok := d.(*ast.FuncDecl)
				if !ok || fd.Body == nil || fd.Name.IsExported() || fd.Name.Name == "init" || fd.Name.Name == "main" {
					continue
				}
				fn, _ := p.TypesInfo.Defs[fd.Name].(*types.Func)
				if fn == nil || used[fn] || known.funcs[fn.FullName()] {
					continue
				}
				from := fd.Pos()
				if fd.Doc != nil {
					from = fd.Doc.Pos()
				}
				rs = append(rs, repl{P.Fset.Position(from).Offset, P.Fset.Position(fd.End()).Offset, ""})
				log = append(log, "unreferenced helper "+fn.FullName()+" dropped")
			}
			if len(rs) > 0 {
				src, ok := out[name]
				if !ok {
					b, err := os.ReadFile(name)
					if err != nil {
						continue
					}
					src = b
				}
				out[name] = applyRepls(src, rs)
			}
		}
	}
	if len(log) == 0 {
		return nil, nil
	}
	return out, log
}

func constLeftPass(P *Program, overlay map[string][]byte) (map[string][]byte, int) {
	changed := map[string][]byte{}
	total := 0
	flip := map[token.Token]string{token.EQL: "==", token.NEQ: "!=", token.LSS: ">", token.GTR: "<", token.LEQ: ">=", token.GEQ: "<="}
	for _, p := range repoPkgs(P) {
		for _, f := range p.Syntax {
			name := P.Fset.File(f.Pos()).Name()
			if strings.HasSuffix(name, "_test.go") {
				continue
			}
			src, ok := overlay[name]
			if !ok {
				b, err := os.ReadFile(name)
				if err != nil {
					continue
				}
				src = b
			}
			off := func(ps token.Pos) int { return P.Fset.Position(ps).Offset }
			var rs []repl
			ast.Inspect(f, func(n ast.Node) bool {
				be, ok := n.(*ast.BinaryExpr)
				if !ok {
					return true
				}
				op, isCmp := flip[be.Op]
				if !isCmp {
					return true
				}
				tx, ty := p.TypesInfo.Types[be.X], p.TypesInfo.Types[be.Y]
				if tx.Value == nil || ty.Value != nil {
					return true
				}
				// operands without effects only (evaluation order of the two sides is then immaterial)
				if !effectFree(p.TypesInfo, be.Y) {
					return true
				}
				x := string(src[off(be.X.Pos()):off(be.X.End())])
				y := string(src[off(be.Y.Pos()):off(be.Y.End())])
				rs = append(rs, repl{off(be.Pos()), off(be.End()), y + " " + op + " " + x})
				return false
			})
			if len(rs) > 0 {
				changed[name] = applyRepls(src, rs)
				total += len(rs)
			}
		}
	}
	return changed, total
}

func loadSyntaxOnly(repo string, overlay map[string][]byte) (*Program, error) {
	mode := packages.NeedName | packages.NeedFiles | packages.NeedCompiledGoFiles |
		packages.NeedImports | packages.NeedTypes | packages.NeedTypesSizes |
		packages.NeedSyntax | packages.NeedTypesInfo | packages.NeedModule | packages.NeedDeps
	env := append(os.Environ(),
		"GOFLAGS=-mod=mod", "GOPROXY=off", "GOSUMDB=off", "GOTOOLCHAIN=local", "GOWORK=off", "CGO_ENABLED=0")
	cfg := &packages.Config{Mode: mode, Dir: repo, Env: env, Fset: token.NewFileSet(), Overlay: overlay}
	pkgs, err := packages.Load(cfg, "./...")
	if err != nil {
		return nil, err
	}
	var errs []string
	for _, p := range pkgs {
		if !strings.HasPrefix(p.PkgPath, modPath) {
			continue
		}
		for _, e := range p.Errors {
			errs = append(errs, e.Error())
		}
	}
	if len(errs) > 0 {
		return nil, fmt.Errorf("%s", strings.Join(errs, "; "))
	}
	return &Program{Repo: repo, Fset: cfg.Fset, Pkgs: pkgs}, nil
}

func (il *inliner) index() {
	for _, p := range repoPkgs(il.P) {
		for _, f := range p.Syntax {
			name := il.P.Fset.File(f.Pos()).Name()
			if strings.HasSuffix(name, "_test.go") {
				continue
			}
			for _, d := range f.Decls {
				fd, ok := d.(*ast.FuncDecl)
				if !ok || fd.Body == nil {
					continue
				}
				if fn, _ := p.TypesInfo.Defs[fd.Name].(*types.Func); fn != nil {
					il.decls[fn] = &declInfo{decl: fd, pkg: p, file: f, src: il.fileSrc(name), fn: fn}
				}
			}
		}
	}
}

type repl struct {
	from, to int
	text     string
}

func applyRepls(src []byte, rs []repl) []byte {
	sort.Slice(rs, func(i, j int) bool { return rs[i].from > rs[j].from })
	out := append([]byte{}, src...)
	for _, r := range rs {
		out = append(out[:r.from], append([]byte(r.text), out[r.to:]...)...)
	}
	return out
}

// round performs one pass over all functions and returns the changed files.
func (il *inliner) round() map[string][]byte {
	changed := map[string][]byte{}
	for _, p := range repoPkgs(il.P) {
		for _, f := range p.Syntax {
			name := il.P.Fset.File(f.Pos()).Name()
			if strings.HasSuffix(name, "_test.go") {
				continue
			}
			src := il.fileSrc(name)
			if src == nil {
				continue
			}
			var rs []repl
			for _, d := range f.Decls {
				fd, ok := d.(*ast.FuncDecl)
				if !ok || fd.Body == nil {
					continue
				}
				caller, _ := p.TypesInfo.Defs[fd.Name].(*types.Func)
				if caller == nil {
					continue
				}
				c := &callerCtx{il: il, pkg: p, file: f, src: src, fd: fd, fn: caller}
				c.walkList(fd.Body.List)
				rs = append(rs, c.rs...)
			}
			if len(rs) > 0 {
				changed[name] = applyRepls(src, rs)
			}
		}
	}
	return changed
}

type callerCtx struct {
	il   *inliner
	pkg  *packages.Package
	file *ast.File
	src  []byte
	fd   *ast.FuncDecl
	fn   *types.Func
	rs   []repl
	free []types.Object // package-level and universe objects used by the callee body last inspected
}

func (c *callerCtx) text(from, to token.Pos) string {
	return string(c.src[c.il.off(from):c.il.off(to)])
}

func (c *callerCtx) walkList(list []ast.Stmt) {
	for _, s := range list {
		c.walkStmt(s, true)
	}
}

// walkStmt tries to rewrite s; otherwise descends into nested statement lists.
func (c *callerCtx) walkStmt(s ast.Stmt, inList bool) {
	if s == nil {
		return
	}
	if txt, ok := c.tryStmt(s, inList); ok {
		c.rs = append(c.rs, repl{c.il.off(s.Pos()), c.il.off(s.End()), txt})
		return
	}
	switch x := s.(type) {
	case *ast.BlockStmt:
		c.walkList(x.List)
	case *ast.IfStmt:
		c.walkList(x.Body.List)
		switch e := x.Else.(type) {
		case *ast.BlockStmt:
			c.walkList(e.List)
		case *ast.IfStmt:
			c.walkStmt(e, false)
		}
	case *ast.ForStmt:
		c.walkList(x.Body.List)
	case *ast.RangeStmt:
		c.walkList(x.Body.List)
	case *ast.SwitchStmt:
		c.walkList(x.Body.List)
	case *ast.TypeSwitchStmt:
		c.walkList(x.Body.List)
	case *ast.SelectStmt:
		c.walkList(x.Body.List)
	case *ast.CaseClause:
		c.walkList(x.Body)
	case *ast.CommClause:
		c.walkList(x.Body)
	case *ast.LabeledStmt:
		// the labelled statement itself is left alone; its body is visited
		switch y := x.Stmt.(type) {
		case *ast.ForStmt:
			c.walkList(y.Body.List)
		case *ast.RangeStmt:
			c.walkList(y.Body.List)
		case *ast.BlockStmt:
			c.walkList(y.List)
		case *ast.SwitchStmt:
			c.walkList(y.Body.List)
		}
	}
}

// shouldInline decides from the frozen decomposition whether the rules know this call.
func (c *callerCtx) shouldInline(callee *types.Func) bool {
	k := c.il.known
	cn, en := c.fn.FullName(), callee.FullName()
	if !k.funcs[en] {
		return true
	}
	if k.funcs[cn] && !k.edges[cn+" -> "+en] {
		return true
	}
	return false
}

// target returns the declaration of an inlinable callee of call, or nil.
func (c *callerCtx) target(call *ast.CallExpr) *declInfo {
	info := c.pkg.TypesInfo
	callee := staticCalleeAST(info, call)
	if callee == nil || callee.Pkg() == nil || callee.Pkg() != c.pkg.Types {
		return nil
	}
	callee = originFunc(callee)
	if callee == c.fn {
		return nil
	}
	di := c.il.decls[callee]
	if di == nil || !c.shouldInline(callee) {
		return nil
	}
	sig := callee.Type().(*types.Signature)
	if sig.Variadic() {
		return nil
	}
	if sig.TypeParams() != nil {
		// a generic function can be inlined when nothing in its body names a type parameter: with the
		// parameters bound to the (typed) arguments the body reads the same for every instance
		if c.sigAt(call, di) == nil || mentionsTypeParamIn(di) {
			return nil
		}
	}
	if rtp := sig.RecvTypeParams(); rtp != nil {
		// methods of one generic type: the type parameters must carry the same names in both declarations
		mine := c.fn.Type().(*types.Signature).RecvTypeParams()
		if mine == nil || mine.Len() != rtp.Len() {
			return nil
		}
		for i := 0; i < rtp.Len(); i++ {
			if mine.At(i).Obj().Name() != rtp.At(i).Obj().Name() {
				return nil
			}
		}
		mr, cr := c.fn.Type().(*types.Signature).Recv(), sig.Recv()
		if mr == nil || cr == nil || namedOf(mr.Type()) == nil || namedOf(mr.Type()).Origin() != namedOf(cr.Type()).Origin() {
			return nil
		}
	}
	if call.Ellipsis.IsValid() || len(call.Args) != sig.Params().Len() {
		return nil
	}
	if sel, ok := ast.Unparen(call.Fun).(*ast.SelectorExpr); ok {
		if s, ok := info.Selections[sel]; ok && len(s.Index()) != 1 {
			return nil // promoted method
		}
	}
	if !c.bodyOK(di) {
		return nil
	}
	return di
}

// bodyOK: the callee body uses nothing the inliner cannot reproduce exactly at the call site.
func (c *callerCtx) bodyOK(di *declInfo) bool {
	ok := true
	info := di.pkg.TypesInfo
	ast.Inspect(di.decl.Body, func(n ast.Node) bool {
		switch x := n.(type) {
		case *ast.DeferStmt, *ast.FuncLit, *ast.LabeledStmt, *ast.GoStmt:
			ok = false
		case *ast.BranchStmt:
			if x.Tok == token.GOTO || x.Label != nil {
				ok = false
			}
		case *ast.CallExpr:
			if id, isId := x.Fun.(*ast.Ident); isId && id.Name == "recover" {
				ok = false
			}
			if f := staticCalleeAST(info, x); f != nil && f == di.fn {
				ok = false // directly recursive
			}
		case *ast.Ident:
			obj := info.Uses[x]
			if obj == nil {
				return true
			}
			switch o := obj.(type) {
			case *types.PkgName:
				// the caller's file must import the same package under the same name
				found := false
				sc := c.pkg.Types.Scope().Innermost(c.fd.Body.Pos())
				if sc != nil {
					if _, o2 := sc.LookupParent(x.Name, c.fd.Body.Pos()); o2 != nil {
						if pn, isPn := o2.(*types.PkgName); isPn && pn.Imported() == o.Imported() {
							found = true
						}
					}
				}
				if !found {
					ok = false
				}
			default:
				if obj.Parent() == di.pkg.Types.Scope() || obj.Parent() == types.Universe {
					c.free = append(c.free, obj)
				}
			}
		}
		return ok
	})
	return ok
}

// captured: one of the callee's free identifiers means something else at the call site.
func (c *callerCtx) captured(at token.Pos, objs []types.Object) bool {
	sc := c.pkg.Types.Scope().Innermost(at)
	if sc == nil {
		return true
	}
	for _, o := range objs {
		_, got := sc.LookupParent(o.Name(), at)
		if got != o {
			return true
		}
	}
	return false
}

func (c *callerCtx) qual(p *types.Package) string {
	if p == c.pkg.Types {
		return ""
	}
	for _, im := range c.file.Imports {
		path := strings.Trim(im.Path.Value, "\"")
		if path != p.Path() {
			continue
		}
		if im.Name != nil {
			if im.Name.Name == "." || im.Name.Name == "_" {
				return "\x00"
			}
			return im.Name.Name
		}
		return p.Name()
	}
	return "\x00"
}

func (c *callerCtx) typeStr(t types.Type) (string, bool) {
	bad := false
	var hasTP func(t types.Type) bool
	seen := map[types.Type]bool{}
	hasTP = func(t types.Type) bool {
		if seen[t] {
			return false
		}
		seen[t] = true
		switch x := t.(type) {
		case *types.TypeParam:
			return true
		case *types.Pointer:
			return hasTP(x.Elem())
		case *types.Slice:
			return hasTP(x.Elem())
		case *types.Array:
			return hasTP(x.Elem())
		case *types.Map:
			return hasTP(x.Key()) || hasTP(x.Elem())
		case *types.Named:
			if ta := x.TypeArgs(); ta != nil {
				for i := 0; i < ta.Len(); i++ {
					if hasTP(ta.At(i)) {
						return true
					}
				}
			}
		}
		return false
	}
	_ = hasTP
	s := types.TypeString(t, func(p *types.Package) string {
		q := c.qual(p)
		if q == "\x00" {
			bad = true
		}
		return q
	})
	return s, !bad
}

// simpleExpr: evaluating e has no effect, cannot fail, and can be repeated.
func simpleExpr(info *types.Info, e ast.Expr) bool {
	switch x := e.(type) {
	case *ast.Ident, *ast.BasicLit:
		return true
	case *ast.ParenExpr:
		return simpleExpr(info, x.X)
	case *ast.SelectorExpr:
		if sel, ok := info.Selections[x]; ok {
			if sel.Kind() != types.FieldVal || sel.Indirect() {
				// a field through a pointer can fault; it is still repeatable, and it is
				// what the callee did anyway on its receiver — accepted for identifiers only
				if _, isId := x.X.(*ast.Ident); !isId {
					return false
				}
			}
			return simpleExpr(info, x.X)
		}
		_, isPkg := info.Uses[x.Sel]
		return isPkg
	case *ast.CallExpr:
		if id, ok := x.Fun.(*ast.Ident); ok && (id.Name == "len" || id.Name == "cap") && len(x.Args) == 1 {
			if _, isBuiltin := info.Uses[id].(*types.Builtin); isBuiltin {
				return simpleExpr(info, x.Args[0])
			}
		}
		if tv, ok := info.Types[x.Fun]; ok && tv.IsType() && len(x.Args) == 1 {
			return simpleExpr(info, x.Args[0])
		}
	case *ast.UnaryExpr:
		if x.Op == token.SUB || x.Op == token.NOT || x.Op == token.XOR || x.Op == token.ADD {
			return simpleExpr(info, x.X)
		}
	case *ast.BinaryExpr:
		if x.Op == token.QUO || x.Op == token.REM || x.Op == token.SHL || x.Op == token.SHR {
			return false
		}
		return simpleExpr(info, x.X) && simpleExpr(info, x.Y)
	}
	return false
}

// effectFree: evaluating e cannot call anything or communicate (it may still fault).
func effectFree(info *types.Info, e ast.Node) bool {
	ok := true
	ast.Inspect(e, func(n ast.Node) bool {
		switch x := n.(type) {
		case *ast.CallExpr:
			if id, isId := x.Fun.(*ast.Ident); isId {
				if _, isBuiltin := info.Uses[id].(*types.Builtin); isBuiltin && (id.Name == "len" || id.Name == "cap") {
					return true
				}
			}
			if tv, has := info.Types[x.Fun]; has && tv.IsType() {
				return true
			}
			ok = false
		case *ast.UnaryExpr:
			if x.Op == token.ARROW {
				ok = false
			}
		case *ast.FuncLit:
			ok = false
		case *ast.IndexExpr, *ast.SliceExpr, *ast.StarExpr, *ast.TypeAssertExpr:
			ok = false // may panic: reordering a call before it would be observable
		case *ast.BinaryExpr:
			if x.Op == token.QUO || x.Op == token.REM {
				ok = false
			}
		}
		return ok
	})
	return ok
}

// findCall returns the first inlinable call in the expressions of the
// statement that may be hoisted in front of it: everything evaluated before it
// is effect free and it is not under a short-circuit operator.
func (c *callerCtx) findCall(exprs []ast.Expr) (*ast.CallExpr, *declInfo) {
	info := c.pkg.TypesInfo
	var found *ast.CallExpr
	var fdi *declInfo
	blocked := false
	var visit func(e ast.Expr)
	visit = func(e ast.Expr) {
		if e == nil || found != nil || blocked {
			return
		}
		switch x := e.(type) {
		case *ast.CallExpr:
			if di := c.target(x); di != nil {
				// operands of the call itself are evaluated in the binding, in order
				found, fdi = x, di
				return
			}
			// a call we do not inline: its operands come first, then it takes effect
			visit(x.Fun)
			for _, a := range x.Args {
				visit(a)
			}
			if found == nil && !effectFree(info, x) {
				blocked = true
			}
		case *ast.ParenExpr:
			visit(x.X)
		case *ast.SelectorExpr:
			visit(x.X)
		case *ast.UnaryExpr:
			visit(x.X)
			if found == nil && !effectFree(info, x) {
				blocked = true
			}
		case *ast.BinaryExpr:
			visit(x.X)
			if x.Op == token.LAND || x.Op == token.LOR {
				if found == nil {
					blocked = true // the right operand is evaluated conditionally
				}
				return
			}
			visit(x.Y)
			if found == nil && !effectFree(info, x) {
				blocked = true
			}
		case *ast.StarExpr:
			visit(x.X)
			if found == nil {
				blocked = true
			}
		case *ast.IndexExpr:
			visit(x.X)
			visit(x.Index)
			if found == nil {
				blocked = true
			}
		case *ast.SliceExpr:
			visit(x.X)
			visit(x.Low)
			visit(x.High)
			visit(x.Max)
			if found == nil {
				blocked = true
			}
		case *ast.TypeAssertExpr:
			visit(x.X)
			if found == nil {
				blocked = true
			}
		case *ast.KeyValueExpr:
			visit(x.Value)
		case *ast.CompositeLit:
			for _, el := range x.Elts {
				visit(el)
			}
		case *ast.FuncLit:
			blocked = true
		}
	}
	for _, e := range exprs {
		visit(e)
	}
	if blocked && found == nil {
		return nil, nil
	}
	return found, fdi
}

// tryStmt returns the replacement text of statement s if a call in it is inlined.
func (c *callerCtx) tryStmt(s ast.Stmt, inList bool) (string, bool) {
	info := c.pkg.TypesInfo
	wrap := !inList
	var exprs []ast.Expr
	tail := false
	var whole *ast.CallExpr // the call is the entire statement / the entire result list
	switch x := s.(type) {
	case *ast.ExprStmt:
		exprs = []ast.Expr{x.X}
		if ce, ok := x.X.(*ast.CallExpr); ok {
			whole = ce
		}
	case *ast.AssignStmt:
		for _, l := range x.Lhs {
			if !effectFree(info, l) {
				// index expressions on the left are evaluated before the right-hand side
				if _, isIdx := l.(*ast.IndexExpr); isIdx {
					return "", false
				}
			}
		}
		exprs = x.Rhs
	case *ast.ReturnStmt:
		exprs = x.Results
		if len(x.Results) == 1 {
			if ce, ok := x.Results[0].(*ast.CallExpr); ok {
				whole = ce
				tail = true
			}
		}
	case *ast.IfStmt:
		wrap = true
		if x.Init != nil {
			switch in := x.Init.(type) {
			case *ast.AssignStmt:
				exprs = in.Rhs
			case *ast.ExprStmt:
				exprs = []ast.Expr{in.X}
			default:
				return "", false
			}
		} else {
			exprs = []ast.Expr{x.Cond}
		}
	case *ast.SwitchStmt:
		wrap = true
		if x.Init != nil {
			switch in := x.Init.(type) {
			case *ast.AssignStmt:
				exprs = in.Rhs
			case *ast.ExprStmt:
				exprs = []ast.Expr{in.X}
			default:
				return "", false
			}
		} else if x.Tag != nil {
			exprs = []ast.Expr{x.Tag}
		} else {
			return "", false
		}
	case *ast.ForStmt:
		// only direct substitution is possible in a loop condition
		if x.Cond != nil {
			if txt, ok := c.substIn(x.Cond); ok {
				return c.text(s.Pos(), x.Cond.Pos()) + txt + c.text(x.Cond.End(), s.End()), true
			}
		}
		return "", false
	default:
		return "", false
	}
	// direct substitution first (keeps the statement's shape)
	for _, e := range exprs {
		if txt, ok := c.substIn(e); ok {
			return c.text(s.Pos(), e.Pos()) + txt + c.text(e.End(), s.End()), true
		}
	}
	call, di := c.findCall(exprs)
	if call == nil {
		return "", false
	}
	c.free = nil
	if !c.bodyOK(di) || c.captured(call.Pos(), c.free) {
		return "", false
	}
	sig := c.sigAt(call, di)
	if sig == nil {
		return "", false
	}
	nres := sig.Results().Len()
	c.il.n++
	id := fmt.Sprintf("inl%d", c.il.n)
	bind, ok := c.binding(call, di)
	if !ok {
		return "", false
	}
	var sb strings.Builder
	record := func(kind string) {
		c.il.log = append(c.il.log, fmt.Sprintf("%s: call of %s inlined into %s (%s)", c.il.P.Fset.Position(call.Pos()).String()[len(c.il.P.Repo)+1:], di.fn.FullName(), c.fn.FullName(), kind))
	}
	// tail form
	if tail && whole == call && c.sameResults(sig) {
		body, ok := c.bodyText(di, id, "tail", nil)
		if !ok {
			return "", false
		}
		sb.WriteString("{\n" + bind + body + "\n}")
		record("tail")
		return sb.String(), true
	}
	// statement form (results unused)
	if _, isExpr := s.(*ast.ExprStmt); isExpr && whole == call {
		body, ok := c.bodyText(di, id, "stmt", nil)
		if !ok {
			return "", false
		}
		sb.WriteString("{\n" + bind + body + "\n}")
		record("statement")
		return sb.String(), true
	}
	// value form
	if nres == 0 {
		return "", false
	}
	if nres > 1 {
		// a multi-value call can only be the whole right-hand side / result list
		okWhole := false
		switch x := s.(type) {
		case *ast.AssignStmt:
			okWhole = len(x.Rhs) == 1 && x.Rhs[0] == ast.Expr(call)
		case *ast.ReturnStmt:
			okWhole = len(x.Results) == 1 && x.Results[0] == ast.Expr(call)
		case *ast.IfStmt:
			if as, ok := x.Init.(*ast.AssignStmt); ok {
				okWhole = len(as.Rhs) == 1 && as.Rhs[0] == ast.Expr(call)
			}
		case *ast.SwitchStmt:
			if as, ok := x.Init.(*ast.AssignStmt); ok {
				okWhole = len(as.Rhs) == 1 && as.Rhs[0] == ast.Expr(call)
			}
		}
		if !okWhole {
			return "", false
		}
	}
	var temps []string
	for i := 0; i < nres; i++ {
		ts, ok := c.typeStr(sig.Results().At(i).Type())
		if !ok {
			return "", false
		}
		t := fmt.Sprintf("%s_r%d", id, i)
		temps = append(temps, t)
		sb.WriteString("var " + t + " " + ts + "\n")
	}
	body, ok := c.bodyText(di, id, "value", temps)
	if !ok {
		return "", false
	}
	sb.WriteString("{\n" + bind + body + "\n}\n")
	sb.WriteString(c.text(s.Pos(), call.Pos()) + strings.Join(temps, ", ") + c.text(call.End(), s.End()))
	record("value")
	if wrap {
		return "{\n" + sb.String() + "\n}", true
	}
	return sb.String(), true
}

func namedOf(t types.Type) *types.Named {
	if p, ok := t.(*types.Pointer); ok {
		t = p.Elem()
	}
	n, _ := t.(*types.Named)
	return n
}

func (c *callerCtx) sameResults(sig *types.Signature) bool {
	mine := c.fn.Type().(*types.Signature).Results()
	if mine.Len() != sig.Results().Len() {
		return false
	}
	for i := 0; i < mine.Len(); i++ {
		if !types.Identical(mine.At(i).Type(), sig.Results().At(i).Type()) {
			return false
		}
	}
	return true
}

// binding renders "var recv, p1, p2 = recvExpr, (T1)(a1), a2" plus the uses that keep the compiler quiet.
func (c *callerCtx) binding(call *ast.CallExpr, di *declInfo) (string, bool) {
	info := c.pkg.TypesInfo
	sig := c.sigAt(call, di)
	if sig == nil {
		return "", false
	}
	var names, vals []string
	if recv := di.decl.Recv; recv != nil && len(recv.List) == 1 {
		sel, ok := ast.Unparen(call.Fun).(*ast.SelectorExpr)
		if !ok {
			return "", false
		}
		name := "_"
		if len(recv.List[0].Names) == 1 {
			name = recv.List[0].Names[0].Name
		}
		rx := c.text(sel.X.Pos(), sel.X.End())
		xt := info.TypeOf(sel.X)
		rt := sig.Recv().Type()
		_, xPtr := xt.Underlying().(*types.Pointer)
		_, rPtr := rt.Underlying().(*types.Pointer)
		switch {
		case rPtr && !xPtr:
			rx = "&(" + rx + ")"
		case !rPtr && xPtr:
			rx = "*(" + rx + ")"
		}
		names = append(names, name)
		vals = append(vals, rx)
	}
	i := 0
	for _, f := range di.decl.Type.Params.List {
		ns := f.Names
		if len(ns) == 0 {
			ns = []*ast.Ident{{Name: "_"}}
		}
		for _, n := range ns {
			arg := call.Args[i]
			pt := sig.Params().At(i).Type()
			at := info.TypeOf(arg)
			txt := c.text(arg.Pos(), arg.End())
			if tv := info.Types[arg]; at == nil || !types.Identical(at, pt) || tv.Value != nil || tv.IsNil() {
				ts, ok := c.typeStr(pt)
				if !ok {
					return "", false
				}
				txt = "(" + ts + ")(" + txt + ")"
			}
			names = append(names, n.Name)
			vals = append(vals, txt)
			i++
		}
	}
	var sb strings.Builder
	if len(names) > 0 {
		sb.WriteString("var " + strings.Join(names, ", ") + " = " + strings.Join(vals, ", ") + "\n")
		var used []string
		for _, n := range names {
			if n != "_" {
				used = append(used, n)
			}
		}
		if len(used) > 0 {
			sb.WriteString(strings.Repeat("_, ", len(used)-1) + "_ = " + strings.Join(used, ", ") + "\n")
		}
	}
	// named results are ordinary zeroed locals of the callee
	if res := di.decl.Type.Results; res != nil {
		k := 0
		for _, f := range res.List {
			for _, n := range f.Names {
				if n.Name != "_" {
					ts, ok := c.typeStr(sig.Results().At(k).Type())
					if !ok {
						return "", false
					}
					sb.WriteString("var " + n.Name + " " + ts + "\n_ = " + n.Name + "\n")
				}
				k++
			}
			if len(f.Names) == 0 {
				k++
			}
		}
	}
	return sb.String(), true
}

// bodyText renders the callee body with its return statements rewritten for the given form.
func (c *callerCtx) bodyText(di *declInfo, id, form string, temps []string) (string, bool) {
	body := di.decl.Body
	src := di.src
	off := func(p token.Pos) int { return c.il.off(p) }
	base := off(body.Lbrace) + 1
	text := src[base:off(body.Rbrace)]
	var named []string
	allNamed := true
	if res := di.decl.Type.Results; res != nil {
		for _, f := range res.List {
			if len(f.Names) == 0 {
				allNamed = false
			}
			for _, n := range f.Names {
				if n.Name == "_" {
					allNamed = false
				}
				named = append(named, n.Name)
			}
		}
	}
	nres := di.fn.Type().(*types.Signature).Results().Len()
	var last ast.Stmt
	if len(body.List) > 0 {
		last = body.List[len(body.List)-1]
	}
	label := id + "_L"
	needLabel := false
	var rs []repl
	bad := false
	ast.Inspect(body, func(n ast.Node) bool {
		ret, ok := n.(*ast.ReturnStmt)
		if !ok {
			return true
		}
		var vals string
		if len(ret.Results) == 0 {
			if nres > 0 {
				if !allNamed {
					bad = true
					return false
				}
				vals = strings.Join(named, ", ")
			}
		} else {
			vals = string(src[off(ret.Results[0].Pos()):off(ret.Results[len(ret.Results)-1].End())])
		}
		var txt string
		switch form {
		case "tail":
			if len(ret.Results) == 0 && nres > 0 {
				txt = "return " + vals
			} else {
				return false // unchanged
			}
		case "stmt":
			if nres > 0 && vals != "" {
				txt = strings.Repeat("_, ", nres-1) + "_ = " + vals
			}
			if ret != last {
				needLabel = true
				if txt != "" {
					txt = "{\n" + txt + "\nbreak " + label + "\n}"
				} else {
					txt = "break " + label
				}
			}
		case "value":
			txt = strings.Join(temps, ", ") + " = " + vals
			if ret != last {
				needLabel = true
				txt = "{\n" + txt + "\nbreak " + label + "\n}"
			}
		}
		rs = append(rs, repl{off(ret.Pos()) - base, off(ret.End()) - base, txt})
		return false
	})
	if bad {
		return "", false
	}
	out := string(applyRepls(text, rs))
	if needLabel {
		out = label + ":\nswitch {\ndefault:\n" + out + "\n}"
	}
	return out, true
}

// substIn replaces, inside expression e, one call of a single-expression
// callee applied to simple arguments by that expression.
func (c *callerCtx) substIn(e ast.Expr) (string, bool) {
	info := c.pkg.TypesInfo
	var hit *ast.CallExpr
	var hdi *declInfo
	ast.Inspect(e, func(n ast.Node) bool {
		if hit != nil {
			return false
		}
		if _, isLit := n.(*ast.FuncLit); isLit {
			return false
		}
		call, ok := n.(*ast.CallExpr)
		if !ok {
			return true
		}
		di := c.target(call)
		if di == nil || len(di.decl.Body.List) != 1 {
			return true
		}
		ret, ok := di.decl.Body.List[0].(*ast.ReturnStmt)
		if !ok || len(ret.Results) != 1 {
			return true
		}
		if !simpleExpr(di.pkg.TypesInfo, ret.Results[0]) && !effectFree(di.pkg.TypesInfo, ret.Results[0]) {
			return true
		}
		for _, a := range call.Args {
			if !simpleExpr(info, a) {
				return true
			}
		}
		if sel, ok := ast.Unparen(call.Fun).(*ast.SelectorExpr); ok {
			if _, isSel := info.Selections[sel]; isSel && !simpleExpr(info, sel.X) {
				return true
			}
		}
		hit, hdi = call, di
		return false
	})
	if hit == nil {
		return "", false
	}
	di := hdi
	c.free = nil
	if !c.bodyOK(di) || c.captured(hit.Pos(), c.free) {
		return "", false
	}
	ret := di.decl.Body.List[0].(*ast.ReturnStmt)
	rexpr := ret.Results[0]
	sig := di.fn.Type().(*types.Signature)
	if sig.TypeParams() != nil {
		return "", false // direct substitution is kept for plain functions
	}
	// parameter object → argument text
	sub := map[types.Object]string{}
	dinfo := di.pkg.TypesInfo
	if recv := di.decl.Recv; recv != nil && len(recv.List) == 1 && len(recv.List[0].Names) == 1 {
		sel, ok := ast.Unparen(hit.Fun).(*ast.SelectorExpr)
		if !ok {
			return "", false
		}
		rx := c.text(sel.X.Pos(), sel.X.End())
		xt := info.TypeOf(sel.X)
		rt := sig.Recv().Type()
		_, xPtr := xt.Underlying().(*types.Pointer)
		_, rPtr := rt.Underlying().(*types.Pointer)
		switch {
		case rPtr && !xPtr:
			rx = "(&" + rx + ")"
		case !rPtr && xPtr:
			rx = "(*" + rx + ")"
		default:
			rx = "(" + rx + ")"
		}
		if _, isId := sel.X.(*ast.Ident); isId && rPtr == xPtr {
			rx = c.text(sel.X.Pos(), sel.X.End())
		}
		sub[dinfo.Defs[recv.List[0].Names[0]]] = rx
	}
	i := 0
	for _, f := range di.decl.Type.Params.List {
		ns := f.Names
		if len(ns) == 0 {
			i++
			continue
		}
		for _, n := range ns {
			arg := hit.Args[i]
			pt := sig.Params().At(i).Type()
			at := info.TypeOf(arg)
			txt := "(" + c.text(arg.Pos(), arg.End()) + ")"
			if tv := info.Types[arg]; at == nil || !types.Identical(at, pt) || tv.Value != nil || tv.IsNil() {
				ts, ok := c.typeStr(pt)
				if !ok {
					return "", false
				}
				txt = "(" + ts + ")" + txt
			}
			sub[dinfo.Defs[n]] = txt
			i++
		}
	}
	off := func(p token.Pos) int { return c.il.off(p) }
	base := off(rexpr.Pos())
	var rs []repl
	ast.Inspect(rexpr, func(n ast.Node) bool {
		if id, ok := n.(*ast.Ident); ok {
			if t, has := sub[dinfo.Uses[id]]; has && dinfo.Uses[id] != nil {
				rs = append(rs, repl{off(id.Pos()) - base, off(id.End()) - base, t})
			}
		}
		return true
	})
	body := string(applyRepls(di.src[base:off(rexpr.End())], rs))
	rt := sig.Results().At(0).Type()
	et := dinfo.TypeOf(rexpr)
	if tv := dinfo.Types[rexpr]; et == nil || !types.Identical(et, rt) || tv.Value != nil || tv.IsNil() {
		ts, ok := c.typeStr(rt)
		if !ok {
			return "", false
		}
		body = "(" + ts + ")(" + body + ")"
	} else {
		body = "(" + body + ")"
	}
	c.il.n++
	c.il.log = append(c.il.log, fmt.Sprintf("%s: call of %s replaced by its expression in %s", c.il.P.Fset.Position(hit.Pos()).String()[len(c.il.P.Repo)+1:], di.fn.FullName(), c.fn.FullName()))
	return c.text(e.Pos(), hit.Pos()) + body + c.text(hit.End(), e.End()), true
}

// sigAt: the callee's signature as it reads at this call: for a generic function the instance chosen here.
func (c *callerCtx) sigAt(call *ast.CallExpr, di *declInfo) *types.Signature {
	sig := di.fn.Type().(*types.Signature)
	if sig.TypeParams() == nil {
		return sig
	}
	var id *ast.Ident
	switch f := ast.Unparen(call.Fun).(type) {
	case *ast.Ident:
		id = f
	case *ast.IndexExpr:
		id, _ = ast.Unparen(f.X).(*ast.Ident)
	case *ast.IndexListExpr:
		id, _ = ast.Unparen(f.X).(*ast.Ident)
	}
	if id == nil {
		return nil
	}
	inst, ok := c.pkg.TypesInfo.Instances[id]
	if !ok {
		return nil
	}
	isig, _ := inst.Type.(*types.Signature)
	if isig == nil || isig.Params().Len() != sig.Params().Len() || isig.Results().Len() != sig.Results().Len() {
		return nil
	}
	return isig
}

// mentionsTypeParamIn: some identifier in the body of di denotes a type parameter.
func mentionsTypeParamIn(di *declInfo) bool {
	found := false
	info := di.pkg.TypesInfo
	ast.Inspect(di.decl.Body, func(n ast.Node) bool {
		if id, ok := n.(*ast.Ident); ok {
			if tn, isTN := info.Uses[id].(*types.TypeName); isTN {
				if _, isTP := tn.Type().(*types.TypeParam); isTP {
					found = true
				}
			}
		}
		return !found
	})
	return found
}
