package main

// C11 (shipped FastCodec structs) and C15 (no-copy write path).

import (
	"fmt"
	"go/constant"
	"go/token"
	"go/types"
	"reflect"
	"regexp"
	"sort"
	"strconv"
	"strings"

	"golang.org/x/tools/go/ssa"
)

const relBase = "protocol/thrift/base"

func wireTypeOfGo(t types.Type) int64 {
	switch u := t.Underlying().(type) {
	case *types.Basic:
		switch u.Kind() {
		case types.String:
			return 11
		case types.Bool:
			return 2
		case types.Int8:
			return 3
		case types.Int16:
			return 6
		case types.Int32:
			return 8
		case types.Int64:
			return 10
		case types.Float64:
			return 4
		}
	case *types.Map:
		return 13
	case *types.Slice:
		if isByteSlice(t) {
			return 11
		}
		return 15
	case *types.Pointer:
		return 12
	}
	return -1
}

type fieldSpec struct {
	Name     string
	ID       int64
	Type     int64
	Optional bool
}

// structFieldSpecs reads the thrift struct tags of a generated struct.
func structFieldSpecs(P *Program, rel, typ string) []fieldSpec {
	tp := P.tpkg(rel)
	if tp == nil {
		return nil
	}
	obj := tp.Types.Scope().Lookup(typ)
	if obj == nil {
		return nil
	}
	st, ok := obj.Type().Underlying().(*types.Struct)
	if !ok {
		return nil
	}
	var out []fieldSpec
	for i := 0; i < st.NumFields(); i++ {
		tag := reflect.StructTag(st.Tag(i)).Get("thrift")
		if tag == "" {
			continue
		}
		parts := strings.Split(tag, ",")
		if len(parts) < 2 {
			continue
		}
		id, err := strconv.ParseInt(parts[1], 10, 64)
		if err != nil {
			continue
		}
		fs := fieldSpec{Name: st.Field(i).Name(), ID: id, Type: wireTypeOfGo(st.Field(i).Type())}
		for _, p := range parts[2:] {
			if p == "optional" {
				fs.Optional = true
			}
		}
		out = append(out, fs)
	}
	return out
}

// condImplies expands a (condition, truth) pair into the atomic conditions it
// implies: negations are stripped, and the phi go/ssa builds for a && b (all
// other incoming edges constant false) or a || b (constant true) is unfolded
// into its operands and the conditions dominating the operand's block.
type domCond struct {
	Cond  ssa.Value
	Truth bool
}

func condImplies(cond ssa.Value, truth bool, depth int) []domCond {
	if depth > 8 {
		return []domCond{{cond, truth}}
	}
	if u, ok := cond.(*ssa.UnOp); ok && u.Op == token.NOT {
		return condImplies(u.X, !truth, depth+1)
	}
	if phi, ok := cond.(*ssa.Phi); ok {
		live := -1
		for i, e := range phi.Edges {
			if c, isC := e.(*ssa.Const); isC && c.Value != nil && c.Value.Kind() == constant.Bool && constant.BoolVal(c.Value) != truth {
				continue
			}
			if live >= 0 {
				return []domCond{{cond, truth}}
			}
			live = i
		}
		if live >= 0 {
			out := condImplies(phi.Edges[live], truth, depth+1)
			pb := phi.Block().Preds[live]
			out = append(out, blockConds(pb, phi.Block().Idom(), depth+1)...)
			return out
		}
	}
	return []domCond{{cond, truth}}
}

// blockConds lists the atomic conditions known to hold in block b, collected
// along the dominator path from b up to (excluding) stop.
func blockConds(b, stop *ssa.BasicBlock, depth int) []domCond {
	var out []domCond
	for x := b; x != nil && x != stop; x = x.Idom() {
		if len(x.Preds) != 1 {
			continue
		}
		p := x.Preds[0]
		if iff, ok := p.Instrs[len(p.Instrs)-1].(*ssa.If); ok && p.Succs[0] != p.Succs[1] {
			out = append(out, condImplies(iff.Cond, p.Succs[0] == x, depth)...)
		}
	}
	return out
}

func dominatingConds(b, stop *ssa.BasicBlock) []domCond { return blockConds(b, nil, 0) }

// inTrueRegion: cond is known to be true whenever block b executes.
func inTrueRegion(b *ssa.BasicBlock, cond ssa.Value) bool {
	for _, dc := range blockConds(b, nil, 0) {
		if dc.Cond == cond && dc.Truth {
			return true
		}
	}
	return false
}

func checkC11(P *Program, r *Result, tier string) {
	r.Explanation = "Rules on the shipped FastCodec structs (Base, BaseResp, ApplicationException): FIELD-TABLE (for every field the (id, wire type) written by FastWriteNocopy, dispatched on by FastRead and implied by the struct tag / Go type agree; the dispatch key keeps all bits of id and type; an optional map is written iff non-nil and allocated unconditionally when read), " +
		"BLENGTH (BLength and FastWriteNocopy with a nil writer add up the same terms on every enumerated path), CURSOR-ARG (every decode/skip call in FastRead and every write call in FastWriteNocopy is issued at the running cursor, which advances by the callee's length), " +
		"ORDER-FREE (a known field is decoded under no condition other than the (id, type) dispatch, STOP and error tests), LOOP-BOUND (a container's element loop runs exactly as often as its header declares)."
	A := newAnalysis(P)
	type target struct {
		rel, typ string
		specs    []fieldSpec
	}
	targets := []target{
		{relBase, "Base", structFieldSpecs(P, relBase, "Base")},
		{relBase, "BaseResp", structFieldSpecs(P, relBase, "BaseResp")},
		{relThrift, "ApplicationException", []fieldSpec{{Name: "m", ID: 1, Type: 11}, {Name: "t", ID: 2, Type: 8}}},
	}
	for _, tg := range targets {
		rd := P.Method(tg.rel, tg.typ, "FastRead")
		wr := P.Method(tg.rel, tg.typ, "FastWriteNocopy")
		if tg.typ == "ApplicationException" {
			wr = P.Method(tg.rel, tg.typ, "FastWrite")
		}
		bl := P.Method(tg.rel, tg.typ, "BLength")
		if !r.require(tg.typ+".FastRead/FastWrite*/BLength", rd != nil && wr != nil && bl != nil) || !r.require(tg.typ+": field specifications", len(tg.specs) >= 2) {
			continue
		}
		for _, f := range []*ssa.Function{rd, wr, bl} {
			r.Funcs[shortName(f)] = true
		}
		// ---- reader table ----
		readCases := map[string][2]int64{} // field → (id, type)
		readPos := map[string]string{}
		keyOK := true
		keyDetail := ""
		for _, b := range rd.Blocks {
			for _, in := range b.Instrs {
				bo, ok := in.(*ssa.BinOp)
				if !ok || bo.Op != token.EQL {
					continue
				}
				k, okk := constInt(bo.Y)
				if !okk {
					continue
				}
				// form 1: (uint32(fid)<<8 | uint32(ftyp)) == const
				if or, isOr := bo.X.(*ssa.BinOp); isOr && or.Op == token.OR {
					shl, isShl := or.X.(*ssa.BinOp)
					if isShl && shl.Op == token.SHL {
						cv1, ok1 := shl.X.(*ssa.Convert)
						cv2, ok2 := or.Y.(*ssa.Convert)
						sh, oks := constInt(shl.Y)
						if !ok1 || !ok2 || !oks || sh != 8 {
							keyOK, keyDetail = false, "dispatch key is not conv(id)<<8 | conv(type)"
						} else {
							b1, _ := intBits(cv1.Type())
							b2, _ := intBits(cv2.Type())
							if b1 < 32 || b2 < 32 {
								keyOK, keyDetail = false, fmt.Sprintf("dispatch key is computed in %d/%d bits: ids that differ by a multiple of 2^%d collide", b1, b2, b1-8)
							}
						}
						id, ty := k>>8, k&0xff
						for _, st := range fieldStoresIn(rd, bo) {
							readCases[st] = [2]int64{id, ty}
							readPos[st] = P.pos(instrPos(bo))
						}
					}
					continue
				}
			}
		}
		// form 2 (hand-written): id == c && tp == c
		if len(readCases) == 0 {
			type cmp struct {
				bo *ssa.BinOp
				k  int64
			}
			var idCmps, tyCmps []cmp
			for _, b := range rd.Blocks {
				for _, in := range b.Instrs {
					bo, ok := in.(*ssa.BinOp)
					if !ok || bo.Op != token.EQL {
						continue
					}
					k, okk := constInt(bo.Y)
					if !okk {
						continue
					}
					if bk, okb := bo.X.Type().Underlying().(*types.Basic); okb {
						switch bk.Kind() {
						case types.Int16:
							idCmps = append(idCmps, cmp{bo, k})
						case types.Int8:
							if k != 0 {
								tyCmps = append(tyCmps, cmp{bo, k})
							}
						}
					}
				}
			}
			for _, ic := range idCmps {
				for _, tc := range tyCmps {
					for _, st := range fieldStoresIn(rd, ic.bo) {
						for _, st2 := range fieldStoresIn(rd, tc.bo) {
							if st == st2 {
								readCases[st] = [2]int64{ic.k, tc.k}
								readPos[st] = P.pos(instrPos(ic.bo))
							}
						}
					}
				}
			}
		}
		r.add("FIELD-TABLE", shortName(rd), "key", "the dispatch key preserves every bit of field id and type", P.pos(rd.Pos()), keyOK, keyDetail)
		// ---- writer table ----
		writeTab := writerFieldTable(P, wr)
		for _, fs := range tg.specs {
			rc, okR := readCases[fs.Name]
			wc, okW := writeTab[fs.Name]
			detail := ""
			if !okR {
				detail = "no FastRead case stores this field"
			} else if rc != [2]int64{fs.ID, fs.Type} {
				detail = fmt.Sprintf("FastRead decodes it under (id %d, type %d)", rc[0], rc[1])
			} else if !okW {
				detail = "no write of this field found in " + wr.Name()
			} else if wc != [2]int64{fs.ID, fs.Type} {
				detail = fmt.Sprintf("%s writes it as (id %d, type %d)", wr.Name(), wc[0], wc[1])
			}
			pos := readPos[fs.Name]
			if pos == "" {
				pos = P.pos(rd.Pos())
			}
			r.add("FIELD-TABLE", tg.typ+"."+fs.Name, "field", fmt.Sprintf("(id %d, wire type %d) agrees between declaration, writer and reader", fs.ID, fs.Type), pos, detail == "", detail)
			if fs.Type == 13 {
				// written iff non-nil; read side allocates unconditionally
				wOK := false
				for _, b := range wr.Blocks {
					for _, in := range b.Instrs {
						if l := builtinCall(valueOf(in), "len"); l != nil && isLoadOfField(wr, l.Common().Args[0], fs.Name) {
							// guarded by p.F != nil
							for _, b2 := range wr.Blocks {
								for _, in2 := range b2.Instrs {
									if ld, ok := in2.(*ssa.UnOp); ok && isLoadOfField(wr, ld, fs.Name) && guardedNonNil(l, ld) {
										wOK = true
									}
								}
							}
						}
					}
				}
				r.add("FIELD-TABLE", tg.typ+"."+fs.Name, "optional", "the optional map is written exactly when it is non-nil", P.pos(wr.Pos()), wOK, "")
				rOK := false
				detail := "no unconditional make(map) store found"
				for _, st := range storesTo(rd, fs.Name) {
					if _, isMk := st.Val.(*ssa.MakeMap); !isMk {
						continue
					}
					rOK = true
					detail = ""
					for _, dc := range dominatingConds(st.Block(), rd.Blocks[0]) {
						if !isDispatchOrErrCond(dc.Cond) {
							rOK = false
							detail = "the map is only allocated under an additional condition (an empty map would be read back as absent)"
						}
					}
				}
				r.add("FIELD-TABLE", tg.typ+"."+fs.Name, "optional", "a present map (even empty) is always allocated by FastRead", P.pos(rd.Pos()), rOK, detail)
			}
		}
		// ---- ORDER-FREE ----
		for _, fs := range tg.specs {
			for _, st := range storesTo(rd, fs.Name) {
				bad := ""
				for _, dc := range dominatingConds(st.Block(), rd.Blocks[0]) {
					if !isDispatchOrErrCond(dc.Cond) {
						bad = "decoding of the field depends on an extra condition"
					}
				}
				r.add("ORDER-FREE", shortName(rd), "store", "field "+fs.Name+" is decoded under dispatch/STOP/error conditions only", P.pos(instrPos(st)), bad == "", bad)
			}
		}
		// ---- STOP-END: FastRead reports success only where it has just read a STOP field header ----
		// (a way out that bypasses the field loop — a fast path for "the usual layout" — stops short of unknown
		// fields that follow)
		{
			nsucc := 0
			for _, rc := range retCases(rd) {
				succ, known := caseSuccess(rc)
				if !known || !succ {
					continue
				}
				nsucc++
				okStop := false
				conds := blockConds(rc.at.Block(), nil, 0)
				if iff, isIf := rc.at.(*ssa.If); isIf && rc.pred >= 0 {
					conds = append(conds, condImplies(iff.Cond, iff.Block().Succs[0] == rc.ret.Block(), 0)...)
				}
				for _, dc := range conds {
					bo, isBo := dc.Cond.(*ssa.BinOp)
					if !isBo || (bo.Op != token.EQL && bo.Op != token.NEQ) {
						continue
					}
					x, y := bo.X, bo.Y
					if _, xc := constInt(x); xc {
						x, y = y, x
					}
					k, isC := constInt(y)
					if !isC || k != 0 || !isTagType(stripConv(x).Type()) {
						continue
					}
					if (bo.Op == token.EQL) == dc.Truth {
						okStop = true
					}
				}
				d := ""
				if !okStop {
					d = "this success is not taken under \"the field type just read is STOP\""
				}
				r.add("CURSOR-ARG", shortName(rd), "stop", "success is reported only at a STOP field header", P.pos(instrPos(rc.ret)), okStop, d)
			}
			if nsucc == 0 {
				r.add("CURSOR-ARG", shortName(rd), "stop", "success is reported only at a STOP field header", P.pos(rd.Pos()), false, "no success return classified")
			}
		}
		// ---- CURSOR-ARG ----
		{
			fa := A.fa(rd)
			bad, pairs, calls := cursorPaths(P, fa, cursorSpec{Buf: rd.Params[1], Family: binaryFamily(true)})
			detail := ""
			pos := P.pos(rd.Pos())
			if len(bad) > 0 {
				detail, pos = bad[0].Detail, bad[0].Pos
			}
			r.add("CURSOR-ARG", shortName(rd), "paths", fmt.Sprintf("all %d decode/skip calls are issued at the running cursor (%d consecutive pairs checked)", calls, pairs), pos, len(bad) == 0 && calls >= 3, detail)
			// the default case skips the field's own type
			skipOK := false
			for _, c := range callsIn(rd) {
				if cal := c.Common().StaticCallee(); cal != nil && cal.Name() == "Skip" && len(c.Common().Args) == 3 {
					if ex, ok := c.Common().Args[2].(*ssa.Extract); ok {
						if c0, ok := ex.Tuple.(*ssa.Call); ok && c0.Common().StaticCallee() != nil && c0.Common().StaticCallee().Name() == "ReadFieldBegin" && ex.Index == 0 {
							skipOK = true
						}
					}
				}
			}
			r.add("CURSOR-ARG", shortName(rd), "skip", "an unknown field is skipped with the type its own header declared", P.pos(rd.Pos()), skipOK, "")
		}
		// element loops of the reader run exactly as often as the map header declares
		loopBoundRule(P, r, "LOOP-BOUND", rd, func(c *ssa.Call) bool {
			cal := c.Common().StaticCallee()
			return isBinaryProtocolMethod(cal) && strings.HasPrefix(cal.Name(), "Read")
		}, func(v ssa.Value) bool {
			ex, ok := v.(*ssa.Extract)
			if !ok {
				return false
			}
			c, ok := ex.Tuple.(*ssa.Call)
			if !ok {
				return false
			}
			cal := c.Common().StaticCallee()
			return isBinaryProtocolMethod(cal) && (cal.Name() == "ReadMapBegin" && ex.Index == 2 || (cal.Name() == "ReadListBegin" || cal.Name() == "ReadSetBegin") && ex.Index == 1)
		})
		if wr.Name() == "FastWriteNocopy" {
			fa := A.fa(wr)
			bad, pairs, calls := cursorPaths(P, fa, cursorSpec{Buf: wr.Params[1], Family: binaryFamily(false), AllowConst: true})
			detail := ""
			pos := P.pos(wr.Pos())
			if len(bad) > 0 {
				detail, pos = bad[0].Detail, bad[0].Pos
			}
			r.add("CURSOR-ARG", shortName(wr), "paths", fmt.Sprintf("all %d write calls are issued at the running cursor (%d consecutive pairs checked)", calls, pairs), pos, len(bad) == 0 && calls >= 2, detail)
			coverRule(P, r, "CURSOR-ARG", fa, wr, wr.Params[1])
		}
		// ---- BLENGTH ----
		blengthRule(P, r, A, tg.typ, bl, wr)
	}
	// no error of a nested read or skip is dropped by the shipped structs
	{
		fns := pkgFuncs(P, relBase)
		for _, n := range []string{"FastRead", "FastWrite", "FastWriteNocopy", "BLength"} {
			if f := P.Method(relThrift, "ApplicationException", n); f != nil {
				fns = append(fns, f)
			}
		}
		errDisciplineRule(P, r, "CURSOR-ARG", fns)
	}
}

// fieldStoresIn: names of receiver fields stored (or map-updated) in the true region of cond.
func fieldStoresIn(fn *ssa.Function, cond ssa.Value) []string {
	set := map[string]bool{}
	for _, b := range fn.Blocks {
		if !inTrueRegion(b, cond) {
			continue
		}
		for _, in := range b.Instrs {
			switch x := in.(type) {
			case *ssa.Store:
				if f := recvFieldOf(fn, x.Addr); f != "" && !strings.ContainsAny(f, "*[{") {
					set[f] = true
				}
			}
		}
	}
	var out []string
	for k := range set {
		out = append(out, k)
	}
	sort.Strings(out)
	return out
}

func isDispatchOrErrCond(cond ssa.Value) bool {
	for {
		if u, ok := cond.(*ssa.UnOp); ok && u.Op == token.NOT {
			cond = u.X
			continue
		}
		break
	}
	if phi, ok := cond.(*ssa.Phi); ok {
		// a && b / a || b built as a value: every operand must itself qualify
		for _, e := range phi.Edges {
			if c, isC := e.(*ssa.Const); isC && c.Value != nil && c.Value.Kind() == constant.Bool {
				continue
			}
			if !isDispatchOrErrCond(e) {
				return false
			}
		}
		return true
	}
	bo, ok := cond.(*ssa.BinOp)
	if !ok {
		return false
	}
	// error nil tests
	if isNilConst(bo.X) || isNilConst(bo.Y) {
		v := bo.X
		if isNilConst(v) {
			v = bo.Y
		}
		return isErrorType(v.Type())
	}
	if _, isCX := constInt(bo.X); isCX && (bo.Op == token.EQL || bo.Op == token.NEQ) {
		if _, isCY := constInt(bo.Y); !isCY {
			// constant on the left (STOP == tp): the same comparison
			bo = &ssa.BinOp{Op: bo.Op, X: bo.Y, Y: bo.X}
		}
	}
	if _, isC := constInt(bo.Y); !isC {
		// loop bound of a map/list read: i < sz with sz read from the wire
		if bo.Op == token.LSS {
			return true
		}
		return false
	}
	if bo.Op != token.EQL && bo.Op != token.NEQ {
		return false
	}
	// comparisons of freshly read id/type (or the combined key) with constants
	switch x := bo.X.(type) {
	case *ssa.Extract:
		return true
	case *ssa.BinOp:
		return x.Op == token.OR
	case *ssa.Phi:
		return true // named results of ReadFieldBegin merged by the loop
	}
	return false
}

// writerFieldTable extracts field → (id, type) from a FastWrite body: either
// direct header stores b[off]=T; PutUint16(b[off+1:], ID) or WriteFieldBegin
// calls, each followed by the first use of a receiver field.
func writerFieldTable(P *Program, fn *ssa.Function) map[string][2]int64 {
	out := map[string][2]int64{}
	fa := newAnalysis(P).fa(fn)
	for _, b := range fn.Blocks {
		var cur *[2]int64
		hdr := map[int64]int64{} // constant header bytes seen since the last field use, by offset from the cursor
		base := ""
		note := func(idx *Lin, val int64) {
			k := idx.clone()
			off := k.C.Int64()
			k.C.SetInt64(0)
			if base == "" {
				base = k.key()
			}
			if k.key() != base {
				return
			}
			hdr[off] = val & 0xff
		}
		flush := func() {
			if cur != nil || len(hdr) < 3 {
				return
			}
			min := int64(1 << 62)
			for o := range hdr {
				if o < min {
					min = o
				}
			}
			t, ok0 := hdr[min]
			hi, ok1 := hdr[min+1]
			lo, ok2 := hdr[min+2]
			if ok0 && ok1 && ok2 {
				cur = &[2]int64{hi<<8 | lo, t}
			}
		}
		for _, in := range b.Instrs {
			switch x := in.(type) {
			case *ssa.Store:
				if ia, ok := x.Addr.(*ssa.IndexAddr); ok && cur == nil {
					if d := fa.sliceDesc(ia.X); d != nil && d.Root == ssa.Value(fn.Params[1]) {
						if k, okk := constInt(x.Val); okk {
							note(d.Off.add(fa.expand(ia.Index)), k)
						}
					}
				}
			case *ssa.Call:
				cal := x.Common().StaticCallee()
				if cal != nil && cal.Pkg != nil && cal.Pkg.Pkg.Path() == "encoding/binary" && cal.Name() == "PutUint16" && cur == nil {
					if k, okk := constInt(x.Common().Args[2]); okk {
						if d := fa.sliceDesc(x.Common().Args[1]); d != nil && d.Root == ssa.Value(fn.Params[1]) {
							note(d.Off, k>>8)
							note(d.Off.addConst(1), k)
						}
					}
				}
				if cal != nil && cal.Name() == "WriteFieldBegin" && len(x.Common().Args) == 4 {
					tt, ok1 := constInt(x.Common().Args[2])
					ii, ok2 := constInt(x.Common().Args[3])
					if ok1 && ok2 {
						cur = &[2]int64{ii, tt}
					}
				}
			case *ssa.UnOp:
				if x.Op == token.MUL {
					if f := recvFieldOf(fn, x.X); f != "" && !strings.ContainsAny(f, "*[{") {
						flush()
						if cur != nil {
							if _, dup := out[f]; !dup {
								out[f] = *cur
							}
						}
						cur, hdr, base = nil, map[int64]int64{}, ""
					}
				}
			}
		}
	}
	return out
}

// blengthRule compares, path by path, the linear form returned by BLength with
// the cursor FastWrite returns when no direct writer is attached.
func blengthRule(P *Program, r *Result, A *Analysis, typ string, bl, wr *ssa.Function) {
	a := lengthPaths(P, A, bl, 0)
	b := lengthPaths(P, A, wr, 0)
	ok := len(a) > 0 && len(a) == len(b)
	detail := ""
	if !ok {
		detail = fmt.Sprintf("%d path classes in BLength, %d in %s", len(a), len(b), wr.Name())
	}
	if ok {
		var keys []string
		for k := range a {
			keys = append(keys, k)
		}
		sort.Strings(keys)
		for _, k := range keys {
			va := a[k]
			vb, has := b[k]
			if !has {
				ok = false
				detail = "path class " + k + " only exists in BLength"
				break
			}
			if !va.equal(vb) {
				ok = false
				detail = "on path class " + k + ": BLength = " + A.linString(va) + " but " + wr.Name() + " advances by " + A.linString(vb)
				break
			}
		}
	}
	r.add("BLENGTH", typ, "paths", fmt.Sprintf("BLength equals the bytes %s produces on each of the %d path classes (nil receiver, optional map absent/present, 0/1/2 entries)", wr.Name(), len(a)), P.pos(bl.Pos()), ok, detail)
}

// lengthPaths enumerates the paths of a length-like function and renders the
// returned value over canonical symbols, keyed by the path class. Calls to
// integer-valued helpers of the same package are expanded in place.
func lengthPaths(P *Program, A *Analysis, fn *ssa.Function, depth int) map[string]*Lin {
	out := map[string]*Lin{}
	if fn.Blocks == nil || depth > 3 {
		return out
	}
	fa := A.fa(fn)
	fa.ensureInvariants()
	type state struct {
		b     *ssa.BasicBlock
		idx   int
		sub   map[AtomID]*Lin
		seen  map[*ssa.BasicBlock]int
		class []string
	}
	fork := func(st state) state {
		ns := state{b: st.b, idx: st.idx, sub: map[AtomID]*Lin{}, seen: map[*ssa.BasicBlock]int{}, class: append([]string{}, st.class...)}
		for k, v := range st.sub {
			ns.sub[k] = v
		}
		for k, v := range st.seen {
			ns.seen[k] = v
		}
		return ns
	}
	canonLin := func(l *Lin) *Lin {
		res := linConst(0)
		res.C.Set(l.C)
		for _, id := range l.atoms() {
			a := A.at(id)
			name := a.Name
			if !strings.HasPrefix(A.keyOf(id), "sym:") {
				name = canonAtom(fa, a)
			}
			res = res.add(symAtom(A, name).scale(l.T[id]))
		}
		return res
	}
	var walk func(st state)
	n := 0
	walk = func(st state) {
		if n > 5000 {
			return
		}
		for st.idx < len(st.b.Instrs) {
			in := st.b.Instrs[st.idx]
			st.idx++
			c, ok := in.(*ssa.Call)
			if !ok {
				continue
			}
			cal := c.Common().StaticCallee()
			if cal == nil || cal.Pkg != fn.Pkg || cal.Blocks == nil || cal == fn || !isInteger(c.Type()) || isBinaryProtocolMethod(cal) {
				continue
			}
			subs := lengthPaths(P, A, cal, depth+1)
			if len(subs) == 0 {
				continue
			}
			id, has := fa.A.byKey["v:"+fa.vkey(c)]
			if !has {
				fa.expand(c)
				id, has = fa.A.byKey["v:"+fa.vkey(c)]
			}
			if !has {
				continue
			}
			var keys []string
			for k := range subs {
				keys = append(keys, k)
			}
			sort.Strings(keys)
			for _, k := range keys {
				ns := fork(st)
				if k != "" {
					ns.class = append(ns.class, strings.Split(k, ",")...)
				}
				ns.sub[id] = subs[k]
				walk(ns)
			}
			return
		}
		if ret, ok := st.b.Instrs[len(st.b.Instrs)-1].(*ssa.Return); ok {
			n++
			v := fa.expand(ret.Results[0])
			for i := 0; i < 8; i++ {
				v = v.substAll(st.sub)
			}
			v = substWriteResults(fa, v)
			out[strings.Join(st.class, ",")] = canonLin(v)
			return
		}
		iff, isIf := st.b.Instrs[len(st.b.Instrs)-1].(*ssa.If)
		for si, s := range st.b.Succs {
			if st.seen[s] >= 3 {
				continue
			}
			ns := fork(st)
			ns.b, ns.idx = s, 0
			ns.seen[s]++
			if isIf {
				ns.class = append(ns.class, condClass(fn, iff.Cond, si == 0))
			}
			idx := -1
			for i, p := range s.Preds {
				if p == st.b {
					idx = i
				}
			}
			for _, a := range fa.phiAtomsOf(s) {
				if a.Kind == aVal {
					ns.sub[a.ID] = a.Phi.In(idx).substAll(st.sub)
				}
			}
			walk(ns)
		}
	}
	walk(state{b: fn.Blocks[0], sub: map[AtomID]*Lin{}, seen: map[*ssa.BasicBlock]int{fn.Blocks[0]: 1}})
	return out
}

// condClass names a branch decision in implementation-independent terms.
func condClass(fn *ssa.Function, cond ssa.Value, taken bool) string {
	truth := taken
	for {
		if u, ok := cond.(*ssa.UnOp); ok && u.Op == token.NOT {
			cond = u.X
			truth = !truth
			continue
		}
		break
	}
	if bo, ok := cond.(*ssa.BinOp); ok {
		if isNilConst(bo.Y) || isNilConst(bo.X) {
			v := bo.X
			if isNilConst(v) {
				v = bo.Y
			}
			isNil := (bo.Op == token.EQL) == truth
			name := ""
			if v == ssa.Value(fn.Params[0]) {
				name = "recv"
			} else if ld, ok := v.(*ssa.UnOp); ok {
				name = recvFieldOf(fn, ld.X)
			}
			if isNil {
				return name + "=nil"
			}
			return name + "!=nil"
		}
	}
	// range loop continuation (ok flag of Next) or index comparison: the test sits in a loop header
	inLoop := false
	if in, ok := cond.(ssa.Instruction); ok && in.Block() != nil {
		h := in.Block()
		for _, p := range h.Preds {
			if h.Dominates(p) {
				inLoop = true
			}
		}
		if _, isNext := cond.(*ssa.Extract); isNext {
			inLoop = true
		}
	}
	if bo, ok := cond.(*ssa.BinOp); ok && !inLoop {
		// any other test is named by what it compares, so that the two siblings must branch on the same thing
		var desc func(v ssa.Value, d int) string
		desc = func(v ssa.Value, d int) string {
			if d > 4 {
				return "?"
			}
			switch x := v.(type) {
			case *ssa.Const:
				if x.Value == nil {
					return "nil"
				}
				return x.Value.ExactString()
			case *ssa.UnOp:
				if x.Op == token.MUL {
					if f := recvFieldOf(fn, x.X); f != "" {
						return "." + f
					}
				}
				return "?"
			case *ssa.Convert:
				return desc(x.X, d+1)
			case *ssa.ChangeType:
				return desc(x.X, d+1)
			case *ssa.Call:
				if b, isB := x.Common().Value.(*ssa.Builtin); isB && len(x.Common().Args) == 1 {
					return b.Name() + "(" + desc(x.Common().Args[0], d+1) + ")"
				}
				if cal := x.Common().StaticCallee(); cal != nil {
					return "call " + cal.Name()
				}
				return "call"
			case *ssa.Parameter:
				return "param " + x.Name()
			}
			return "?"
		}
		x, y, op := desc(bo.X, 0), desc(bo.Y, 0), bo.Op
		// s != ""  ≡  len(s) != 0  ≡  len(s) > 0
		if y == `""` {
			x, y = "len("+x+")", "0"
		}
		if strings.HasPrefix(x, "len(") && y == "0" {
			pos := (op == token.NEQ || op == token.GTR) == truth
			if op == token.EQL || op == token.NEQ || op == token.GTR || op == token.LEQ {
				if op == token.LEQ {
					pos = !truth
				}
				if pos {
					return x + ">0"
				}
				return x + "=0"
			}
		}
		if !truth {
			return "!(" + x + " " + op.String() + " " + y + ")"
		}
		return x + " " + op.String() + " " + y
	}
	if truth {
		return "iter"
	}
	return "done"
}

// canonAtom renders an atom in terms that do not depend on SSA names: the
// length of a receiver field, or the length of the n-th string produced by the
// map iteration.
var cellNameRe = regexp.MustCompile(`\w+\.P:\w+\.([\w.]+)@\w+`)

func canonAtom(fa *FA, a *Atom) string {
	name := cellNameRe.ReplaceAllString(a.Name, ".$1")
	// len(fn.tNN) where tNN is a load of receiver field F → len(F)
	for _, b := range fa.fn.Blocks {
		for _, in := range b.Instrs {
			v, ok := in.(ssa.Value)
			if !ok || !isSliceOrString(v.Type()) {
				continue
			}
			if fa.A.byKey["len:"+fa.vkey(v)] == a.ID {
				if ld, isLd := v.(*ssa.UnOp); isLd && ld.Op == token.MUL {
					if f := recvFieldOf(fa.fn, ld.X); f != "" {
						return "len(." + f + ")"
					}
				}
				if ex, isEx := v.(*ssa.Extract); isEx {
					if _, isNext := ex.Tuple.(*ssa.Next); isNext {
						return fmt.Sprintf("len(iter#%d)", ex.Index)
					}
				}
			}
		}
	}
	return name
}

// substWriteResults replaces the result atoms of Binary.Write* calls by the
// length functions they are documented to produce when no direct writer is
// attached (Write*Nocopy(b, nil, v) = 4 + len(v), etc.).
func substWriteResults(fa *FA, l *Lin) *Lin {
	sub := map[AtomID]*Lin{}
	for _, c := range callsIn(fa.fn) {
		cc, ok := c.(*ssa.Call)
		cal := c.Common().StaticCallee()
		if !ok || cal == nil || !isInteger(cc.Type()) {
			continue
		}
		id, has := fa.A.byKey["v:"+fa.vkey(cc)]
		if !has {
			continue
		}
		if strings.HasSuffix(cal.Name(), "Length") || strings.HasSuffix(cal.Name(), "LengthNocopy") {
			if l := calleeLinear(fa, cc); l != nil {
				sub[id] = l
			}
			continue
		}
		switch cal.Name() {
		case "WriteStringNocopy", "WriteBinaryNocopy":
			if d := fa.sliceDesc(cc.Common().Args[3]); d != nil {
				sub[id] = d.Len.addConst(4)
			}
		case "WriteString", "WriteBinary":
			if d := fa.sliceDesc(cc.Common().Args[2]); d != nil {
				sub[id] = d.Len.addConst(4)
			}
		case "WriteFieldBegin":
			sub[id] = linConst(3)
		case "WriteFieldStop", "WriteByte", "WriteBool":
			sub[id] = linConst(1)
		case "WriteI16":
			sub[id] = linConst(2)
		case "WriteI32":
			sub[id] = linConst(4)
		case "WriteI64", "WriteDouble":
			sub[id] = linConst(8)
		case "WriteMapBegin":
			sub[id] = linConst(6)
		case "WriteListBegin", "WriteSetBegin":
			sub[id] = linConst(5)
		case "FastWrite", "FastWriteNocopy":
			// delegation: same receiver and buffer
		}
	}
	return l.substAll(sub)
}

// ---------------- C15 ----------------

func checkC15(P *Program, r *Result, tier string) {
	r.Explanation = "Rules on the no-copy write path: NIL-SAFE (WriteDirect is invoked only where the writer is proved non-nil; otherwise the copying function is called on the same arguments), " +
		"HEADER (on the direct path the 4-byte length is stored at offset 0 and 4 is returned), REMAIN (the remaining-capacity argument equals len(buf) − 4 and the payload argument is exactly v), " +
		"THRESHOLD (the copying function is used for every length below the threshold constant), CALLERS (the generated writers pass an un-capped b[off:] at the running cursor and advance by the result), LEN (the *LengthNocopy functions equal the copying lengths)."
	A := newAnalysis(P)
	for _, n := range []string{"WriteBinaryNocopy", "WriteStringNocopy"} {
		fn := P.Method(relThrift, "BinaryProtocol", n)
		if !r.require("thrift.BinaryProtocol."+n, fn != nil) {
			continue
		}
		r.Funcs[shortName(fn)] = true
		fa := A.fa(fn)
		buf, w, v := fn.Params[1], fn.Params[2], fn.Params[3]
		var direct *ssa.Call
		for _, c := range callsIn(fn) {
			if isInvokeOf(c, "WriteDirect") {
				direct = c.(*ssa.Call)
			}
		}
		if !r.require(n+": call of WriteDirect", direct != nil) {
			continue
		}
		r.add("NIL-SAFE", shortName(fn), "call", "WriteDirect only with a non-nil writer", P.pos(instrPos(direct)), direct.Common().Value == ssa.Value(w) && guardedNonNil(direct, w), "")
		// payload and remaining capacity
		pay := direct.Common().Args[0]
		payOK := pay == ssa.Value(v)
		if c := staticCallNamed(pay, "StringToBinary"); c != nil && c.Common().Args[0] == ssa.Value(v) {
			payOK = true
		}
		r.add("REMAIN", shortName(fn), "arg", "the direct writer receives exactly the payload v (zero-copy view)", P.pos(instrPos(direct)), payOK, "")
		bd := fa.sliceDesc(buf)
		rem := substWriteResults(fa, fa.expand(direct.Common().Args[1]))
		r.add("REMAIN", shortName(fn), "arg", "remaining capacity = len(buf) − 4 (the position right after the length prefix)", P.pos(instrPos(direct)), rem.equal(bd.Len.addConst(-4)), "argument is "+A.linString(rem))
		// header on the direct path
		hdr := false
		for _, c := range callsIn(fn) {
			cc, ok := c.(*ssa.Call)
			cal := c.Common().StaticCallee()
			// the big-endian store itself, or the codec's own 4-byte writer (whose layout is C01's subject)
			if !ok || cal == nil || !(cal.Name() == "PutUint32" || (cal.Name() == "WriteI32" && isBinaryProtocolMethod(cal))) || !instrDominates(cc, direct) || len(cc.Common().Args) < 3 {
				continue
			}
			d := fa.sliceDesc(cc.Common().Args[1])
			vd := fa.sliceDesc(v)
			if d != nil && d.Root == ssa.Value(buf) && d.Off.isConst() && d.Off.C.Sign() == 0 {
				if cv, isCv := cc.Common().Args[2].(*ssa.Convert); isCv && fa.expand(cv.X).equal(vd.Len) {
					hdr = true
				}
			}
		}
		r.add("HEADER", shortName(fn), "store", "BE32(len(v)) is stored at offset 0 before the direct write", P.pos(instrPos(direct)), hdr, "")
		ret4 := false
		for _, ret := range returnsOf(fn) {
			if instrDominates(direct, ret) {
				if k, ok := constInt(ret.Results[0]); ok && k == 4 {
					ret4 = true
				} else if l := substWriteResults(fa, fa.expand(ret.Results[0])); l.isConst() && l.C.Cmp(bi(4)) == 0 {
					ret4 = true // what the 4-byte writer reported
				}
			}
		}
		r.add("HEADER", shortName(fn), "return", "the direct path reports 4 bytes written to the linear buffer", P.pos(instrPos(direct)), ret4, "")
		// copying path: every block that is not on the direct path stores exactly the copying writer's bytes
		// (length prefix, payload) and reports 4 + len(v) — whether by calling the copying writer or inline
		copyName := strings.TrimSuffix(n, "Nocopy")
		L := newLayouts(P)
		wV, _ := typeWidth(v.Type())
		// one summary per way out that is not the direct one (the copying call may be repeated under several guards)
		want := thriftBinarySpec()["Binary"].writer
		okCopy, dCopy := true, ""
		nCopy := 0
		for _, ret := range returnsOf(fn) {
			rb := ret.Block()
			if rb == direct.Block() || direct.Block().Dominates(rb) {
				continue
			}
			nCopy++
			sum := L.inplaceWriterOn(fn, buf, map[*ssa.Parameter]*bx{v: {op: "arg", k: 0, w: wV}}, func(b *ssa.BasicBlock) bool {
				if b == direct.Block() || direct.Block().Dominates(b) {
					return false
				}
				return b == rb || b.Dominates(rb)
			})
			got, bad := sum.canon()
			if bad != "" {
				okCopy, dCopy = false, bad
			} else if d := firstDiff(got, want); d != "" {
				okCopy, dCopy = false, d
			} else if sum.total.String() != "4+len(arg0)" {
				okCopy, dCopy = false, "the copying path reports "+sum.total.String()+" bytes"
			}
		}
		if nCopy == 0 {
			okCopy, dCopy = false, "no way out other than the direct path"
		}
		r.add("NIL-SAFE", shortName(fn), "call", "otherwise the bytes of the copying "+copyName+" are stored (4-byte length, payload) and 4+len(v) is returned", P.pos(fn.Pos()), okCopy, dCopy)
		// threshold: on the direct path len(v) ≥ threshold; on the nil-writer path the copy is taken
		vd := fa.sliceDesc(v)
		th := fa.prove(ineqGE(vd.Len, linConst(4096)), direct.Block(), rootCtx)
		r.add("THRESHOLD", shortName(fn), "guard", "the direct path is taken only for len(v) ≥ the no-copy threshold (4096)", P.pos(instrPos(direct)), th, "")
	}
	directSites(P, A, r)
	// CALLERS
	for _, typ := range []string{"Base", "BaseResp"} {
		fn := P.Method(relBase, typ, "FastWriteNocopy")
		if !r.require("base."+typ+".FastWriteNocopy", fn != nil) {
			continue
		}
		r.Funcs[shortName(fn)] = true
		fa := A.fa(fn)
		bad, pairs, calls := cursorPaths(P, fa, cursorSpec{Buf: fn.Params[1], Family: binaryFamily(false), AllowConst: true})
		detail, pos := "", P.pos(fn.Pos())
		if len(bad) > 0 {
			detail, pos = bad[0].Detail, bad[0].Pos
		}
		r.add("CALLERS", shortName(fn), "paths", fmt.Sprintf("all %d write calls take an un-capped b[off:] at the running cursor and the cursor advances by their result (%d pairs)", calls, pairs), pos, len(bad) == 0 && calls >= 3, detail)
		// the copying entry point is the same walk: same branch conditions, same amount written on each
		if cp := P.Method(relBase, typ, "FastWrite"); cp != nil {
			a, b := lengthPaths(P, A, cp, 0), lengthPaths(P, A, fn, 0)
			ok := len(a) > 0 && len(a) == len(b)
			d := ""
			if !ok {
				d = fmt.Sprintf("%d path classes in FastWrite, %d in FastWriteNocopy", len(a), len(b))
			}
			for k, va := range a {
				vb, has := b[k]
				if !has {
					ok, d = false, "path class "+k+" only exists in FastWrite"
				} else if !va.equal(vb) {
					ok, d = false, "on path class "+k+": FastWrite advances by "+A.linString(va)+" but FastWriteNocopy (no writer attached) by "+A.linString(vb)
				}
			}
			r.add("CALLERS", typ, "siblings", "FastWrite and FastWriteNocopy without a direct writer take the same branches and write the same amount on each", P.pos(cp.Pos()), ok, d)
		}
	}
	// LEN
	for _, pair := range [][2]string{{"StringLengthNocopy", "StringLength"}, {"BinaryLengthNocopy", "BinaryLength"}} {
		f1, f2 := P.Method(relThrift, "BinaryProtocol", pair[0]), P.Method(relThrift, "BinaryProtocol", pair[1])
		if !r.require("thrift.BinaryProtocol."+pair[0]+"/"+pair[1], f1 != nil && f2 != nil) {
			continue
		}
		form := func(fn *ssa.Function) string {
			fa := A.fa(fn)
			ret := singleReturn(fn)
			if ret == nil {
				return "?"
			}
			l := fa.expand(ret.Results[0])
			d := fa.sliceDesc(fn.Params[1])
			if l.equal(d.Len.addConst(4)) {
				return "4+len(v)"
			}
			return A.linString(l)
		}
		a, b := form(f1), form(f2)
		r.add("LEN", shortName(f1), "return", "the no-copy length equals the copying length (4 + len(v))", P.pos(f1.Pos()), a == b && a == "4+len(v)", a+" vs "+b)
	}
	r.assume("what a real NocopyWriter does with (slice, remainCap) is outside the repository; the rules fix exactly what the library tells it")
}

func init() {
	register("C11", "other", checkC11)
	register("C15", "other", checkC15)
}

// calleeLinear expresses the single integer result of a static callee as a
// linear form over the caller's arguments (constants and lengths of string or
// slice parameters only); nil when the callee is not of that shape.
func calleeLinear(fa *FA, c *ssa.Call) *Lin {
	cal := c.Common().StaticCallee()
	if cal == nil || len(cal.Blocks) == 0 {
		return nil
	}
	ret := singleReturn(cal)
	if ret == nil || len(ret.Results) != 1 {
		return nil
	}
	cfa := fa.A.fa(cal)
	l := cfa.expand(ret.Results[0])
	out := linConst(0)
	out.C.Set(l.C)
	for _, id := range l.atoms() {
		found := false
		for i, p := range cal.Params {
			if !isSliceOrString(p.Type()) {
				continue
			}
			if d := cfa.sliceDesc(p); d != nil && d.Len.equal(linAtom(id)) {
				if ad := fa.sliceDesc(c.Common().Args[i]); ad != nil {
					out = out.add(ad.Len.scale(l.T[id]))
					found = true
				}
			}
		}
		if !found {
			return nil
		}
	}
	return out
}

// directSites: WriteDirect tells the outside where a piece belongs only through
// its remaining-capacity argument, so every other place in the library that
// invokes it must follow the convention the two Nocopy writers follow: a
// non-nil writer, the 4-byte big-endian length of the payload stored in the
// linear buffer, and a remaining capacity that is the room right behind it.
func directSites(P *Program, A *Analysis, r *Result) {
	known := map[*ssa.Function]bool{}
	for _, n := range []string{"WriteBinaryNocopy", "WriteStringNocopy"} {
		if fn := P.Method(relThrift, "BinaryProtocol", n); fn != nil {
			known[fn] = true
		}
	}
	var fns []*ssa.Function
	for fn := range P.AllFuncs {
		if !inRepo(fn) || fn.Blocks == nil || fn.Synthetic != "" || known[fn] || strings.Contains(fnPkgPath(fn), "/internal/") {
			continue
		}
		fns = append(fns, fn)
	}
	sort.Slice(fns, func(i, j int) bool { return fns[i].Pos() < fns[j].Pos() })
	for _, fn := range fns {
		for _, c := range callsIn(fn) {
			direct, ok := c.(*ssa.Call)
			if !ok || !isInvokeOf(c, "WriteDirect") || len(c.Common().Args) != 2 {
				continue
			}
			if n, ok := direct.Common().Value.Type().(*types.Named); !ok || n.Obj().Name() != "NocopyWriter" {
				continue
			}
			r.Funcs[shortName(fn)] = true
			fa := A.fa(fn)
			pos := P.pos(instrPos(direct))
			r.add("NIL-SAFE", shortName(fn), "call", "WriteDirect only with a non-nil writer", pos, guardedNonNil(direct, direct.Common().Value), "")
			pay := direct.Common().Args[0]
			if sc := staticCallNamed(pay, "StringToBinary"); sc != nil {
				pay = sc.Common().Args[0]
			}
			pd := fa.sliceDesc(pay)
			rem := fa.expand(direct.Common().Args[1])
			okRem, detail := false, "no 4-byte length prefix of the payload found in the linear buffer"
			if pd != nil && pd.Len != nil {
				for _, c2 := range callsIn(fn) {
					cc, ok := c2.(*ssa.Call)
					cal := c2.Common().StaticCallee()
					if !ok || cal == nil {
						continue
					}
					args := c2.Common().Args
					var dst, val ssa.Value
					switch {
					case cal.Name() == "PutUint32" && fnPkgPath(cal) == "encoding/binary" && len(args) == 3:
						dst, val = args[1], args[2]
					case cal.Name() == "WriteI32" && inRepo(cal) && len(args) == 3:
						dst, val = args[1], args[2]
					default:
						continue
					}
					if cv, isCv := val.(*ssa.Convert); isCv {
						val = cv.X
					}
					if !(instrDominates(cc, direct) || instrDominates(direct, cc)) || !fa.proveEq(fa.expand(val), pd.Len, direct.Block()) {
						continue
					}
					d := fa.sliceDesc(dst)
					if d == nil || d.Root == nil || d.Off == nil {
						continue
					}
					if _, isParam := d.Root.(*ssa.Parameter); !isParam {
						continue
					}
					bd := fa.sliceDesc(d.Root)
					want := bd.Len.sub(d.Off).addConst(-4)
					if fa.proveEq(substWriteResults(fa, rem), substWriteResults(fa, want), direct.Block()) {
						okRem, detail = true, ""
					} else {
						detail = "the prefix is stored at offset " + A.linString(d.Off) + " but the remaining capacity passed is " + A.linString(rem)
					}
				}
			}
			r.add("REMAIN", shortName(fn), "arg", "remaining capacity = the room right behind the payload's 4-byte length prefix", pos, okRem, detail)
			th := pd != nil && pd.Len != nil && fa.prove(ineqGE(pd.Len, linConst(4096)), direct.Block(), rootCtx)
			r.add("THRESHOLD", shortName(fn), "guard", "the direct path is taken only for len(v) ≥ the no-copy threshold (4096)", pos, th, "")
		}
	}
}

// coverRule: every byte the in-place writer counts is a byte it stored. The
// value returned is walked back through its additions: an amount that is a
// constant k needs stores covering [cursor, cursor+k) of the buffer that
// dominate the addition; any other amount must be what a call reports that
// was handed the buffer at that very cursor.
func coverRule(P *Program, r *Result, rule string, fa *FA, fn *ssa.Function, buf *ssa.Parameter) {
	type write struct {
		off *Lin
		w   int64
		in  ssa.Instruction
	}
	var writes []write
	for _, b := range fn.Blocks {
		for _, in := range b.Instrs {
			switch x := in.(type) {
			case *ssa.Store:
				if ia, ok := x.Addr.(*ssa.IndexAddr); ok {
					if d := fa.sliceDesc(ia.X); d != nil && d.Root == ssa.Value(buf) && d.Off != nil {
						writes = append(writes, write{d.Off.add(fa.expand(ia.Index)), 1, in})
					}
				}
			case *ssa.Call:
				if n := isBigEndianPut(x.Common().StaticCallee()); n > 0 && len(x.Common().Args) >= 2 {
					if d := fa.sliceDesc(x.Common().Args[1]); d != nil && d.Root == ssa.Value(buf) && d.Off != nil {
						writes = append(writes, write{d.Off, int64(n), in})
					}
				}
			}
		}
	}
	// calls that were handed the buffer from some offset on and report how far they wrote
	type wcall struct {
		off *Lin
		ret *Lin
		in  ssa.Instruction
	}
	var wcalls []wcall
	for _, c := range callsIn(fn) {
		cc, ok := c.(*ssa.Call)
		if !ok || !isInteger(cc.Type()) {
			continue
		}
		if _, isB := cc.Common().Value.(*ssa.Builtin); isB {
			continue
		}
		for _, a := range cc.Common().Args {
			if !isByteSlice(a.Type()) {
				continue
			}
			if d := fa.sliceDesc(a); d != nil && d.Root == ssa.Value(buf) && d.Off != nil {
				wcalls = append(wcalls, wcall{d.Off, fa.expand(cc), cc})
			}
		}
	}
	windowStarts := []*Lin{linConst(0)}
	for _, b := range fn.Blocks {
		for _, in := range b.Instrs {
			if sl, ok := in.(*ssa.Slice); ok && isByteSlice(sl.Type()) && sl.Low != nil {
				// a window that code goes on to work in (indexed or sliced again), not just an argument b[off:]
				workedIn := false
				if refs := sl.Referrers(); refs != nil {
					for _, ref := range *refs {
						switch u := ref.(type) {
						case *ssa.IndexAddr:
							workedIn = workedIn || u.X == ssa.Value(sl)
						case *ssa.Slice:
							workedIn = workedIn || u.X == ssa.Value(sl)
						}
					}
				}
				if !workedIn {
					continue
				}
				if d := fa.sliceDesc(sl); d != nil && d.Root == ssa.Value(buf) && d.Off != nil && !d.Off.isConst() {
					dup := false
					for _, k := range windowStarts {
						if k.equal(d.Off) {
							dup = true
						}
					}
					if !dup && len(windowStarts) < 24 {
						windowStarts = append(windowStarts, d.Off)
					}
				}
			}
		}
	}
	seen := map[ssa.Value]bool{}
	n := 0
	var walk func(v ssa.Value)
	walk = func(v ssa.Value) {
		if seen[v] {
			return
		}
		seen[v] = true
		switch x := v.(type) {
		case *ssa.Phi:
			for _, e := range x.Edges {
				walk(e)
			}
		case *ssa.BinOp:
			if x.Op != token.ADD {
				return
			}
			// the whole sum: one operand is the cursor as it was, the rest is what was added to it
			var leaves []ssa.Value
			var flat func(y ssa.Value)
			flat = func(y ssa.Value) {
				if bo, ok := y.(*ssa.BinOp); ok && bo.Op == token.ADD {
					flat(bo.X)
					flat(bo.Y)
					return
				}
				leaves = append(leaves, y)
			}
			flat(x)
			var others []ssa.Value // neither a constant nor what a call reports
			for _, l := range leaves {
				if _, isC := l.(*ssa.Const); isC {
					continue
				}
				if _, isCall := asCallValue(l); isCall {
					continue
				}
				others = append(others, l)
			}
			n++
			pos := P.pos(instrPos(x))
			total := fa.expand(x)
			okCover, detail := false, ""
			// one of the other operands is the cursor as it was (or there is none: the count starts at 0); any further
			// one is the count reported by a part that worked on a window of the buffer starting where it was reached
			tryWith := func(base ssa.Value) bool {
				bl := linConst(0)
				if base != nil {
					bl = fa.expand(base)
				}
				delta := total.sub(bl)
				var parts []*Lin
				for _, o := range others {
					if o != base {
						parts = append(parts, fa.expand(o))
					}
				}
				for _, k := range windowStarts {
					at := linConst(0)
					used := make([]bool, len(parts))
					for step := 0; step < 64; step++ {
						if at.equal(delta) {
							return true
						}
						moved := false
						for pi, pl := range parts {
							if used[pi] {
								continue
							}
							here := k.add(bl).add(at)
							for _, ws := range windowStarts[1:] { // a real window b[k:], not the buffer itself
								if ws.equal(here) {
									used[pi] = true
									at = at.add(pl)
									moved = true
									break
								}
							}
							if moved {
								break
							}
						}
						if moved {
							continue
						}
						for _, w := range writes {
							if !instrDominates(w.in, x) {
								continue
							}
							d := at.sub(w.off.sub(k).sub(bl))
							if j, isK := d.constVal(); isK && j.IsInt64() && j.Int64() >= 0 && j.Int64() < w.w {
								at = at.addConst(w.w - j.Int64())
								moved = true
								break
							}
						}
						if moved {
							continue
						}
						for _, c := range wcalls {
							if !instrDominates(c.in, x) {
								continue
							}
							if c.off.sub(k).sub(bl).equal(at) {
								at = at.add(c.ret)
								moved = true
								break
							}
						}
						if moved {
							continue
						}
						if !moved {
							if detail == "" {
								detail = "nothing is stored at cursor + " + fa.A.linString(at) + " although " + fa.A.linString(delta) + " bytes are counted"
							}
							break
						}
					}
				}
				return false
			}
			if tryWith(nil) {
				okCover = true
			}
			for _, o := range others {
				if !okCover && tryWith(o) {
					okCover = true
				}
			}
			if okCover {
				detail = ""
			}
			bases := others
			r.add(rule, shortName(fn), "cover", "every byte the cursor moves over was stored, or written by a call handed the buffer at that position", pos, okCover, detail)
			for _, b := range bases {
				walk(b)
			}
		}
	}
	for _, ret := range returnsOf(fn) {
		if len(ret.Results) > 0 {
			walk(ret.Results[0])
		}
	}
	r.require(shortName(fn)+": cursor additions on the way to the returned count", n > 0)
}

func asCallValue(v ssa.Value) (*ssa.Call, bool) {
	switch x := v.(type) {
	case *ssa.Call:
		return x, true
	case *ssa.Extract:
		c, ok := x.Tuple.(*ssa.Call)
		return c, ok
	}
	return nil, false
}
