package main

// Memory versioning for cells with a canonical address (locals whose address
// is taken, cells behind pointer parameters, fields of the receiver, globals).
// A load whose reaching definition is a store is the stored value; otherwise it
// is an atom for that version (entry, clobber by a call, or a join).

import (
	"fmt"
	"go/token"
	"go/types"
	"os"
	"sort"
	"strings"

	"golang.org/x/tools/go/ssa"
)

type memKind int

const (
	mEntry memKind = iota
	mStore
	mClobber
	mPhi
)

type MemVer struct {
	Kind  memKind
	Key   string
	Val   ssa.Value       // mStore
	Instr ssa.Instruction // mStore, mClobber
	Block *ssa.BasicBlock // mPhi
	id    int
}

func (v *MemVer) String() string {
	switch v.Kind {
	case mEntry:
		return v.Key + "@entry"
	case mStore:
		return fmt.Sprintf("%s@store%d", v.Key, v.id)
	case mClobber:
		return fmt.Sprintf("%s@clobber%d", v.Key, v.id)
	}
	return fmt.Sprintf("%s@phi.b%d", v.Key, v.Block.Index)
}

type MemSSA struct {
	fn       *ssa.Function
	keys     []string
	keyType  map[string]types.Type
	in       map[*ssa.BasicBlock]map[string]*MemVer
	out      map[*ssa.BasicBlock]map[string]*MemVer
	phis     map[string]*MemVer // block index + key
	entry    map[string]*MemVer
	atInstr  map[ssa.Instruction]map[string]*MemVer // version before instruction (loads, calls, returns)
	nextID   int
	stores   map[ssa.Instruction]*MemVer
	clobbers map[string]*MemVer
	escaped  map[*ssa.Alloc]bool
}

func retainsParam(callee *ssa.Function, idx int, depth int) bool {
	if callee == nil || callee.Blocks == nil || depth > 2 {
		return true
	}
	if idx >= len(callee.Params) {
		return true
	}
	p := callee.Params[idx]
	return valueRetained(p, depth)
}

func valueRetained(p ssa.Value, depth int) bool {
	refs := p.Referrers()
	if refs == nil {
		return false
	}
	for _, r := range *refs {
		switch r := r.(type) {
		case *ssa.Store:
			if r.Val == p {
				return true
			}
		case *ssa.UnOp, *ssa.DebugRef:
		case *ssa.FieldAddr:
			if valueRetained(r, depth) {
				return true
			}
		case *ssa.IndexAddr:
			if valueRetained(r, depth) {
				return true
			}
		case *ssa.Slice:
			if valueRetained(r, depth) {
				return true
			}
		case ssa.CallInstruction:
			com := r.Common()
			if bi, ok := com.Value.(*ssa.Builtin); ok {
				switch bi.Name() {
				case "append", "copy", "len", "cap":
					continue // elements are copied, the argument is not kept
				}
			}
			cal := com.StaticCallee()
			args := com.Args
			for i, a := range args {
				if a == p {
					if cal == nil {
						return true
					}
					pi := i
					if retainsParam(cal, pi, depth+1) {
						return true
					}
				}
			}
			if com.Value == p && com.IsInvoke() {
				return true
			}
		default:
			return true
		}
	}
	return false
}

func newMemSSA(fn *ssa.Function) *MemSSA {
	m := &MemSSA{fn: fn, keyType: map[string]types.Type{}, in: map[*ssa.BasicBlock]map[string]*MemVer{},
		out: map[*ssa.BasicBlock]map[string]*MemVer{}, phis: map[string]*MemVer{}, entry: map[string]*MemVer{},
		atInstr: map[ssa.Instruction]map[string]*MemVer{}, stores: map[ssa.Instruction]*MemVer{},
		clobbers: map[string]*MemVer{}, escaped: map[*ssa.Alloc]bool{}}
	// escaped allocs
	for _, b := range fn.Blocks {
		for _, in := range b.Instrs {
			if al, ok := in.(*ssa.Alloc); ok {
				if valueRetained(al, 0) {
					m.escaped[al] = true
				}
			}
		}
	}
	ks := map[string]bool{}
	for _, b := range fn.Blocks {
		for _, in := range b.Instrs {
			switch in := in.(type) {
			case *ssa.UnOp:
				if in.Op.String() == "*" {
					if k := m.addrKey(in.X); k != "" {
						ks[k] = true
						m.keyType[k] = deref(in.X.Type())
					}
				}
			case *ssa.Store:
				if k := m.addrKey(in.Addr); k != "" {
					ks[k] = true
					m.keyType[k] = deref(in.Addr.Type())
				}
			case *ssa.Call:
				// fields a callee is known to leave at a constant are worth tracking here too
				cal := in.Common().StaticCallee()
				if cal == nil || !inRepo(cal) || cal.Blocks == nil || cal == fn || len(in.Common().Args) == 0 {
					continue
				}
				base := m.addrKey(in.Common().Args[0])
				if base == "" {
					continue
				}
				st, ok := deref(in.Common().Args[0].Type()).Underlying().(*types.Struct)
				if !ok {
					continue
				}
				for f := range finalConstStores(cal) {
					for i := 0; i < st.NumFields(); i++ {
						if canonFieldName(in.Common().Args[0].Type(), i) == f {
							ks[base+"."+f] = true
							m.keyType[base+"."+f] = st.Field(i).Type()
						}
					}
				}
			}
		}
	}
	for k := range ks {
		m.keys = append(m.keys, k)
	}
	sort.Strings(m.keys)
	m.solve()
	return m
}

// addrKey canonicalises an address; "" if the address is not tracked.
func (m *MemSSA) addrKey(v ssa.Value) string {
	switch v := v.(type) {
	case *ssa.Alloc:
		if m.escaped[v] {
			return ""
		}
		return "A:" + v.Name()
	case *ssa.Parameter:
		if _, ok := v.Type().Underlying().(*types.Pointer); ok {
			return "P:" + v.Name()
		}
	case *ssa.FieldAddr:
		k := m.addrKey(v.X)
		if k == "" {
			return ""
		}
		st, ok := deref(v.X.Type()).Underlying().(*types.Struct)
		if !ok {
			return ""
		}
		_ = st
		return k + "." + canonFieldName(v.X.Type(), v.Field)
	case *ssa.IndexAddr:
		if c, ok := v.Index.(*ssa.Const); ok {
			if _, isArr := deref(v.X.Type()).Underlying().(*types.Array); isArr {
				k := m.addrKey(v.X)
				if k == "" {
					return ""
				}
				return fmt.Sprintf("%s[%s]", k, c.Value.ExactString())
			}
		}
	case *ssa.Global:
		return "G:" + v.Pkg.Pkg.Path() + "." + v.Name()
	}
	return ""
}

func related(a, b string) bool {
	if a == b {
		return true
	}
	if strings.HasPrefix(a, b) && (a[len(b)] == '.' || a[len(b)] == '[') {
		return true
	}
	if strings.HasPrefix(b, a) && (b[len(a)] == '.' || b[len(a)] == '[') {
		return true
	}
	return false
}

func (m *MemSSA) clobberVer(in ssa.Instruction, key string) *MemVer {
	id := fmt.Sprintf("%p|%s", in, key)
	if v, ok := m.clobbers[id]; ok {
		return v
	}
	m.nextID++
	if os.Getenv("MEM_DEBUG") != "" && strings.Contains(m.fn.String(), os.Getenv("MEM_DEBUG")) {
		fmt.Printf("CLOBBER %s by %v (%T)\n", key, in, in)
	}
	v := &MemVer{Kind: mClobber, Key: key, Instr: in, id: m.nextID}
	m.clobbers[id] = v
	return v
}

// transfer applies instruction in to cur (mutating it).
func (m *MemSSA) transfer(in ssa.Instruction, cur map[string]*MemVer) {
	switch in := in.(type) {
	case *ssa.Store:
		// *p = *p with nothing in between (what go/ssa emits for "return namedResult, err"): no change
		if ld, ok := in.Val.(*ssa.UnOp); ok && ld.Op == token.MUL && ld.X == in.Addr && ld.Block() == in.Block() {
			quiet, started := true, false
			for _, x := range in.Block().Instrs {
				if x == ssa.Instruction(ld) {
					started = true
					continue
				}
				if x == ssa.Instruction(in) {
					break
				}
				if !started {
					continue
				}
				switch x.(type) {
				case *ssa.Store, ssa.CallInstruction, *ssa.MapUpdate, *ssa.Send:
					quiet = false
				}
			}
			if quiet {
				return
			}
		}
		k := m.addrKey(in.Addr)
		if k != "" {
			for _, k2 := range m.keys {
				if k2 == k {
					v, ok := m.stores[in]
					if !ok {
						m.nextID++
						v = &MemVer{Kind: mStore, Key: k, Val: in.Val, Instr: in, id: m.nextID}
						m.stores[in] = v
					}
					cur[k2] = v
				} else if related(k, k2) {
					cur[k2] = m.clobberVer(in, k2)
				}
			}
			return
		}
		// a store into an element of an array that is itself a tracked cell changes (part of) that array only
		for a := in.Addr; a != nil; {
			var base ssa.Value
			switch x := a.(type) {
			case *ssa.FieldAddr:
				a = x.X
				continue
			case *ssa.IndexAddr:
				if _, isArr := deref(x.X.Type()).Underlying().(*types.Array); isArr {
					base = x.X
				}
			}
			if base == nil {
				break
			}
			if kb := m.addrKey(base); kb != "" {
				for _, k2 := range m.keys {
					if related(kb, k2) {
						cur[k2] = m.clobberVer(in, k2)
					}
				}
				return
			}
			a = base
		}
		// a store into (part of) a local allocation cannot alias parameter or global cells
		for a := in.Addr; a != nil; {
			switch x := a.(type) {
			case *ssa.FieldAddr:
				a = x.X
				continue
			case *ssa.IndexAddr:
				a = x.X
				continue
			case *ssa.Alloc:
				return
			}
			break
		}
		// store through an untracked pointer: may alias tracked cells of the same type
		// that are not private locals
		t := in.Val.Type()
		for _, k2 := range m.keys {
			if strings.HasPrefix(k2, "A:") {
				continue
			}
			if types.Identical(m.keyType[k2], t) {
				cur[k2] = m.clobberVer(in, k2)
			}
		}
	case ssa.CallInstruction:
		com := in.Common()
		if _, isBuiltin := com.Value.(*ssa.Builtin); isBuiltin {
			return
		}
		args := com.Args
		var roots []string
		for _, a := range args {
			if k := m.addrKey(a); k != "" {
				roots = append(roots, k)
			}
		}
		if !com.IsInvoke() {
			// closures may write captured variables; captured allocs are "escaped" already
		}
		pure := isPureCallee(com)
		// repository callees: only what their effect summary says they write
		var effKeys []string
		var effElem []types.Type
		useEff := false
		if cal := com.StaticCallee(); cal != nil && inRepo(cal) && cal.Blocks != nil && globalEffects != nil {
			useEff = true
			for _, e := range globalEffects.of(cal) {
				k := e.Key
				if strings.HasPrefix(k, "P:") {
					rest := k[2:]
					name, tail := rest, ""
					if i := strings.IndexAny(rest, ".[*{"); i >= 0 {
						name, tail = rest[:i], rest[i:]
					}
					idx := -1
					for i, p := range cal.Params {
						if p.Name() == name {
							idx = i
						}
					}
					if idx < 0 || idx >= len(args) {
						k = "?"
					} else if base := m.addrKey(args[idx]); base != "" {
						k = base + tail
					} else if pb := pathOf(args[idx]); privatePath(pb) {
						continue
					} else {
						k = "?"
						// a store into the elements of a slice argument can only change memory of the element type
						if strings.HasPrefix(tail, "[") && !strings.ContainsAny(tail[1:], ".*{") {
							if st, ok := e.In.(*ssa.Store); ok {
								effElem = append(effElem, st.Val.Type())
								continue
							}
							if cp, ok := e.In.(*ssa.Call); ok {
								if b, isB := cp.Call.Value.(*ssa.Builtin); isB && b.Name() == "copy" {
									if sl, isSl := cp.Call.Args[0].Type().Underlying().(*types.Slice); isSl {
										effElem = append(effElem, sl.Elem())
										continue
									}
								}
							}
						}
					}
				}
				effKeys = append(effKeys, k)
			}
		}
		// fields the callee leaves at a known constant on every path
		must := map[string]*ssa.Const{}
		if cal := com.StaticCallee(); cal != nil && inRepo(cal) && cal.Blocks != nil && len(args) > 0 && cal != m.fn {
			if base := m.addrKey(args[0]); base != "" {
				for f, c := range finalConstStores(cal) {
					must[base+"."+f] = c
				}
			}
		}
		for _, k2 := range m.keys {
			if c, ok := must[k2]; ok {
				id := fmt.Sprintf("%p|must|%s", in, k2)
				v, have := m.clobbers[id]
				if !have {
					m.nextID++
					v = &MemVer{Kind: mStore, Key: k2, Val: c, Instr: in, id: m.nextID}
					m.clobbers[id] = v
				}
				cur[k2] = v
				continue
			}
			hit := false
			if useEff {
				for _, e := range effKeys {
					if e == "?" {
						if !strings.HasPrefix(k2, "A:") {
							hit = true
						}
						continue
					}
					// strip element/deref suffixes: a write through the cell's content does not change the cell
					if strings.ContainsAny(e, "[*{") {
						continue
					}
					if related(e, k2) {
						hit = true
					}
				}
				if !strings.HasPrefix(k2, "A:") {
					for _, t := range effElem {
						if types.Identical(m.keyType[k2], t) {
							hit = true
						}
					}
				}
				if hit {
					cur[k2] = m.clobberVer(in, k2)
				}
				continue
			}
			for _, r := range roots {
				if related(r, k2) && (k2 == r || strings.HasPrefix(k2, r)) {
					hit = true
				}
			}
			if strings.HasPrefix(k2, "G:") && !pure {
				hit = true
			}
			if hit {
				cur[k2] = m.clobberVer(in, k2)
			}
		}
	}
}

// isPureCallee recognises callees that write no repository state.
func isPureCallee(com *ssa.CallCommon) bool {
	cal := com.StaticCallee()
	if cal == nil {
		return false
	}
	if cal.Pkg != nil {
		switch cal.Pkg.Pkg.Path() {
		case "encoding/binary", "math", "math/bits", "errors", "fmt", "unsafe", "strings", "bytes":
			return true
		}
	}
	return false
}

// globalEffects, when set, refines which cells a call into the repository clobbers.
var globalEffects *Effects

func copyVers(m map[string]*MemVer) map[string]*MemVer {
	n := make(map[string]*MemVer, len(m))
	for k, v := range m {
		n[k] = v
	}
	return n
}

func (m *MemSSA) solve() {
	if len(m.fn.Blocks) == 0 {
		return
	}
	for _, k := range m.keys {
		m.entry[k] = &MemVer{Kind: mEntry, Key: k}
	}
	rpo := m.fn.DomPreorder() // dominators first; good enough for iteration
	for changed := true; changed; {
		changed = false
		for _, b := range rpo {
			var in map[string]*MemVer
			if b.Index == 0 {
				in = copyVers(m.entry)
			} else {
				in = map[string]*MemVer{}
				for _, k := range m.keys {
					pk := fmt.Sprintf("%d|%s", b.Index, k)
					if ph, ok := m.phis[pk]; ok {
						in[k] = ph
						continue
					}
					var v *MemVer
					differ := false
					for _, p := range b.Preds {
						o := m.out[p]
						if o == nil {
							continue
						}
						if v == nil {
							v = o[k]
						} else if o[k] != v {
							differ = true
						}
					}
					if differ {
						ph := &MemVer{Kind: mPhi, Key: k, Block: b}
						m.phis[pk] = ph
						in[k] = ph
					} else if v != nil {
						in[k] = v
					} else {
						in[k] = m.entry[k]
					}
				}
			}
			old := m.in[b]
			same := old != nil
			if same {
				for _, k := range m.keys {
					if old[k] != in[k] {
						same = false
						break
					}
				}
			}
			if same && m.out[b] != nil {
				continue
			}
			changed = true
			m.in[b] = in
			cur := copyVers(in)
			for _, ins := range b.Instrs {
				switch x := ins.(type) {
				case *ssa.UnOp:
					if x.Op.String() == "*" {
						m.atInstr[ins] = copyVers(cur)
					}
				case ssa.CallInstruction:
					m.atInstr[ins] = copyVers(cur)
				case *ssa.Return:
					m.atInstr[ins] = copyVers(cur)
				}
				m.transfer(ins, cur)
			}
			m.out[b] = cur
		}
	}
	m.dropTrivialPhis()
}

// dropTrivialPhis replaces every memory phi all of whose incoming versions are
// one and the same version (or the phi itself) by that version: such phis are
// left behind by the iteration order and would make one cell look like two.
func (m *MemSSA) dropTrivialPhis() {
	repl := map[*MemVer]*MemVer{}
	resolve := func(v *MemVer) *MemVer {
		for v != nil {
			w, ok := repl[v]
			if !ok {
				return v
			}
			v = w
		}
		return v
	}
	for changed := true; changed; {
		changed = false
		for _, ph := range m.phis {
			if _, done := repl[ph]; done {
				continue
			}
			var only *MemVer
			trivial := true
			for _, p := range ph.Block.Preds {
				o := m.out[p]
				if o == nil {
					continue
				}
				in := resolve(o[ph.Key])
				if in == nil || in == ph {
					continue
				}
				if only == nil {
					only = in
				} else if only != in {
					trivial = false
				}
			}
			if trivial && only != nil {
				repl[ph] = only
				changed = true
			}
		}
	}
	if len(repl) == 0 {
		return
	}
	fix := func(mp map[string]*MemVer) {
		for k, v := range mp {
			if w := resolve(v); w != v {
				mp[k] = w
			}
		}
	}
	for _, mp := range m.in {
		fix(mp)
	}
	for _, mp := range m.out {
		fix(mp)
	}
	for _, mp := range m.atInstr {
		fix(mp)
	}
	for k, ph := range m.phis {
		if _, gone := repl[ph]; gone {
			delete(m.phis, k)
		}
	}
}

// versionAt returns the version of key that reaches instruction in (nil if untracked).
func (m *MemSSA) versionAt(in ssa.Instruction, key string) *MemVer {
	if mp, ok := m.atInstr[in]; ok {
		return mp[key]
	}
	// replay block
	b := in.Block()
	cur := copyVers(m.in[b])
	for _, x := range b.Instrs {
		if x == in {
			return cur[key]
		}
		m.transfer(x, cur)
	}
	return nil
}

// versionAfter returns the version of key right after instruction in.
func (m *MemSSA) versionAfter(in ssa.Instruction, key string) *MemVer {
	b := in.Block()
	cur := copyVers(m.in[b])
	for _, x := range b.Instrs {
		m.transfer(x, cur)
		if x == in {
			return cur[key]
		}
	}
	return nil
}

// phiIncoming returns the version of key at the end of pred i of the phi's block.
func (m *MemSSA) phiIncoming(ph *MemVer, pred int) *MemVer {
	p := ph.Block.Preds[pred]
	if o := m.out[p]; o != nil {
		return o[ph.Key]
	}
	return nil
}

// finalConstStores: for a repository function with a pointer receiver/first
// parameter p, the fields p.f that hold one and the same constant (nil, 0, …)
// at every return because the function stored it there on every path.
var (
	finalStoreMemo = map[*ssa.Function]map[string]*ssa.Const{}
	finalStoreBusy = map[*ssa.Function]bool{}
)

func finalConstStores(fn *ssa.Function) map[string]*ssa.Const {
	if m, ok := finalStoreMemo[fn]; ok {
		return m
	}
	out := map[string]*ssa.Const{}
	if fn == nil || fn.Blocks == nil || len(fn.Params) == 0 || finalStoreBusy[fn] || !inRepo(fn) {
		return out
	}
	if _, isPtr := fn.Params[0].Type().Underlying().(*types.Pointer); !isPtr {
		finalStoreMemo[fn] = out
		return out
	}
	finalStoreBusy[fn] = true
	defer delete(finalStoreBusy, fn)
	m := newMemSSA(fn)
	pre := "P:" + fn.Params[0].Name() + "."
	rets := returnsOf(fn)
	for _, k := range m.keys {
		if !strings.HasPrefix(k, pre) || strings.ContainsAny(k[len(pre):], ".[*{") {
			continue
		}
		var c *ssa.Const
		ok := len(rets) > 0
		for _, ret := range rets {
			v := m.versionAt(ret, k)
			if v == nil || v.Kind != mStore {
				ok = false
				break
			}
			cv, isC := v.Val.(*ssa.Const)
			if !isC {
				ok = false
				break
			}
			if c == nil {
				c = cv
			} else if !(c.Value == nil && cv.Value == nil) && !(c.Value != nil && cv.Value != nil && c.Value.ExactString() == cv.Value.ExactString()) {
				ok = false
				break
			}
		}
		if ok && c != nil {
			out[k[len(pre):]] = c
		}
	}
	finalStoreMemo[fn] = out
	return out
}
