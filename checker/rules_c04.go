package main

// C04 — buffered reader: cursor arithmetic, purity of Peek, error discipline,
// window preservation.

import (
	"fmt"
	"go/token"
	"go/types"
	"strings"

	"golang.org/x/tools/go/ssa"
)

const relBufiox = "bufiox"

// recvFieldOf returns the name of the receiver field an address denotes
// ("" if it is not a field of fn's first parameter).
func recvFieldOf(fn *ssa.Function, addr ssa.Value) string {
	if len(fn.Params) == 0 {
		return ""
	}
	p := pathOf(addr)
	pre := "P:" + fn.Params[0].Name() + "."
	if strings.HasPrefix(p, pre) {
		return p[len(pre):]
	}
	return ""
}

func storesTo(fn *ssa.Function, field string) []*ssa.Store {
	var out []*ssa.Store
	for _, b := range fn.Blocks {
		for _, in := range b.Instrs {
			if st, ok := in.(*ssa.Store); ok && recvFieldOf(fn, st.Addr) == field {
				out = append(out, st)
			}
		}
	}
	return out
}

func isLoadOfField(fn *ssa.Function, v ssa.Value, field string) bool {
	ld, ok := v.(*ssa.UnOp)
	return ok && ld.Op == token.MUL && recvFieldOf(fn, ld.X) == field
}

// cellAt returns the integer value of receiver field `field` as seen right
// before instruction in.
func cellIntAt(fa *FA, in ssa.Instruction, field string) *Lin {
	key := "P:" + fa.fn.Params[0].Name() + "." + field
	ver := fa.mem.versionAt(in, key)
	if ver == nil {
		ver = fa.mem.entry[key]
		if ver == nil {
			return nil
		}
	}
	var t types.Type = types.Typ[types.Int]
	if kt, ok := fa.mem.keyType[key]; ok {
		t = kt
	}
	return fa.cellValue(ver, t)
}

func cellIntEntry(fa *FA, field string) *Lin {
	key := "P:" + fa.fn.Params[0].Name() + "." + field
	ver := fa.mem.entry[key]
	if ver == nil {
		return nil
	}
	return fa.cellValue(ver, fa.mem.keyType[key])
}

// findLoad returns some load of the receiver's slice field that sees the same
// memory version as instruction in (used to describe "the current r.buf").
func cellSliceAt(fa *FA, in ssa.Instruction, field string) *SliceDesc {
	key := "P:" + fa.fn.Params[0].Name() + "." + field
	ver := fa.mem.versionAt(in, key)
	if ver == nil {
		return nil
	}
	// any load of that field serves as type carrier
	for _, b := range fa.fn.Blocks {
		for _, x := range b.Instrs {
			if ld, ok := x.(*ssa.UnOp); ok && ld.Op == token.MUL && recvFieldOf(fa.fn, ld.X) == field {
				return fa.cellSlice(ver, ld)
			}
		}
	}
	return nil
}

func (fa *FA) proveEq(a, b *Lin, blk *ssa.BasicBlock) bool {
	return fa.prove(ineqLE(a, b), blk, rootCtx) && fa.prove(ineqLE(b, a), blk, rootCtx)
}

// readerFuncs: the fill routine and everything the exported reader methods reach inside bufiox.
func readerMethods(P *Program, r *Result) map[string]*ssa.Function {
	out := map[string]*ssa.Function{}
	for _, n := range []string{"Next", "Peek", "Skip", "ReadBinary", "ReadLen", "Release"} {
		f := P.Method(relBufiox, "DefaultReader", n)
		if r.require("bufiox.DefaultReader."+n, f != nil) {
			out[n] = f
		}
	}
	return out
}

func ioReadCalls(fn *ssa.Function) []*ssa.Call {
	var out []*ssa.Call
	for _, c := range callsIn(fn) {
		if cc, ok := c.(*ssa.Call); ok && isInvokeOf(c, "Read") {
			sig := cc.Common().Signature()
			if sig.Params().Len() == 1 && isByteSlice(sig.Params().At(0).Type()) {
				out = append(out, cc)
			}
		}
	}
	return out
}

func checkC04(P *Program, r *Result, tier string) {
	r.Explanation = "Rules on bufiox.DefaultReader (which BytesReader embeds), decided with memory-versioned receiver fields and linear facts: " +
		"CURSOR (Next/Peek return buf[ri:ri+n]; Next/Skip advance ri by exactly n; ReadBinary copies from buf[ri:ri+m], advances by the m it returns; ReadLen returns ri; Release zeroes ri on every path), " +
		"PEEK-PURE (no store to ri reachable from Peek/ReadLen), FAIL-PURE (no store to ri/buf on the short path), SHORT⇒ERR (every short count of the fill routine is returned with r.err provably non-nil, and the methods surface exactly r.err), " +
		"CLAMP (ReadBinary's count ≤ len(bs); error iff short), STICKY (no source Read once r.err is set; a Read error is stored before returning), ROOM (the grown buffer can hold ri+n bytes), " +
		"WINDOW (every other store to buf/ri extends the unread window by exactly the bytes the source reported or preserves its content and length)."
	ms := readerMethods(P, r)
	if len(r.Fatal) > 0 {
		return
	}
	A := newAnalysis(P)
	E := globalEffects
	// fill routines: functions reachable from Next that call io.Reader.Read
	scope := P.reachable([]*ssa.Function{ms["Next"], ms["Peek"], ms["Skip"], ms["ReadBinary"], ms["Release"], ms["ReadLen"]}, func(f *ssa.Function) bool { return fnPkgPath(f) != modPath+"/"+relBufiox })
	var fills []*ssa.Function
	for _, f := range scope {
		if len(ioReadCalls(f)) > 0 {
			fills = append(fills, f)
		}
	}
	r.require("fill routine (a function reachable from DefaultReader.Next that calls io.Reader.Read)", len(fills) > 0)
	for _, f := range scope {
		r.Funcs[shortName(f)] = true
	}

	// ---- CURSOR ----
	for _, name := range []string{"Next", "Peek", "Skip"} {
		fn := ms[name]
		fa := A.fa(fn)
		n := fa.expand(fn.Params[1])
		nSucc := 0
		for _, rc := range retCasesErr(fn) {
			if !readerCaseSucceeds(fa, rc) {
				continue // error path: FAIL-PURE / SHORT⇒ERR
			}
			nSucc++
			ret, res, blk := rc.ret, rc.results, rc.at.Block()
			ri0 := cellIntEntry(fa, "ri")
			riX := cellAtCase(fa, rc, "ri")
			if ri0 == nil {
				ri0 = riX
			}
			if name != "Skip" {
				d := fa.sliceDesc(res[0])
				ok := d != nil && d.Root != nil && isLoadOfField(fn, d.Root, "buf")
				detail := ""
				if !ok {
					detail = "result is not a slice of r.buf"
				} else {
					ok = fa.proveEq(d.Off, ri0, blk) && fa.proveEq(d.Len, n, blk)
					if !ok {
						detail = "offset must equal ri (on entry) and length n"
					}
				}
				r.add("CURSOR", shortName(fn), "return", "success result is buf[ri : ri+n]", P.pos(instrPos(ret)), ok, detail)
			}
			want := ri0
			what := "ri unchanged"
			if name != "Peek" {
				want = ri0.add(n)
				what = "ri advanced by exactly n"
			}
			r.add("CURSOR", shortName(fn), "return", what, P.pos(instrPos(ret)), riX != nil && fa.proveEq(riX, want, blk), "")
		}
		r.require(name+": a way out that can succeed", nSucc > 0)
	}
	if fn := ms["ReadBinary"]; fn != nil {
		fa := A.fa(fn)
		availFacts(fa, fn, append(append([]*ssa.Function{}, fills...), availWrappers(scope, fills)...))
		bs := fa.sliceDesc(fn.Params[1])
		for _, ret := range returnsOf(fn) {
			m := fa.expand(ret.Results[0])
			ri0, riX := cellIntEntry(fa, "ri"), cellIntAt(fa, ret, "ri")
			r.add("CURSOR", shortName(fn), "return", "ri advanced by exactly the returned count", P.pos(instrPos(ret)), ri0 != nil && riX != nil && fa.proveEq(riX, ri0.add(m), ret.Block()), "")
			r.add("CLAMP", shortName(fn), "return", "returned count ≤ len(bs)", P.pos(instrPos(ret)), fa.prove(ineqLE(m, bs.Len), ret.Block(), rootCtx), "")
			// copied bytes: a copy(bs, buf[ri:ri+m]) dominates the return
			copied := false
			for _, c := range callsIn(fn) {
				cc, ok := c.(*ssa.Call)
				if !ok || builtinCall(cc, "copy") == nil || !instrDominates(cc, ret) {
					continue
				}
				dst, src := fa.sliceDesc(cc.Common().Args[0]), fa.sliceDesc(cc.Common().Args[1])
				if dst == nil || src == nil || dst.Root != ssa.Value(fn.Params[1]) || src.Root == nil || !isLoadOfField(fn, src.Root, "buf") {
					continue
				}
				// the count reported is the length of the window copied, or what copy itself reports having taken from its start
				if fa.proveEq(dst.Off, linConst(0), cc.Block()) && fa.proveEq(src.Off, ri0, cc.Block()) && (fa.proveEq(src.Len, m, ret.Block()) || fa.proveEq(fa.expand(cc), m, ret.Block())) {
					copied = true
				}
				// … or the bound sits on the destination: copy(bs[:m], buf[ri:]) with at least m bytes behind the cursor
				if fa.proveEq(dst.Off, linConst(0), cc.Block()) && fa.proveEq(src.Off, ri0, cc.Block()) && fa.proveEq(dst.Len, m, ret.Block()) && fa.prove(ineqGE(src.Len, m), cc.Block(), rootCtx) {
					copied = true
				}
			}
			r.add("CURSOR", shortName(fn), "return", "the returned count of bytes was copied from buf[ri:ri+m] to bs[0:]", P.pos(instrPos(ret)), copied, "")
			// err is r.err exactly when short: every way of reaching the return either carries nil with m ≥ len(bs)
			// or the stored error with m < len(bs)
			okErr := true
			ncase := 0
			for _, rc := range retCases(fn) {
				if rc.ret != ret {
					continue
				}
				ncase++
				ctx := rootCtx
				blk := rc.at.Block()
				if iff, isIf := rc.at.(*ssa.If); isIf && rc.pred >= 0 {
					ef := &edgeFacts{}
					fa.edgeCond(iff.Block(), ret.Block(), ef)
					ctx = rootCtx.with(ef.ineq, ef.neq)
				}
				mv := fa.expand(rc.results[0])
				ev := rc.results[1]
				switch {
				case isNilConst(ev):
					if !fa.prove(ineqGE(mv, bs.Len), blk, ctx) {
						okErr = false
					}
				case isLoadOfField(fn, ev, "err"):
					if !fa.prove(ineqLT(mv, bs.Len), blk, ctx) {
						okErr = false
					}
				default:
					okErr = false
				}
			}
			if ncase == 0 {
				okErr = false
			}
			r.add("CLAMP", shortName(fn), "return", "error is r.err exactly when fewer than len(bs) bytes are reported", P.pos(instrPos(ret)), okErr, "")
		}
	}
	if fn := ms["ReadLen"]; fn != nil {
		ok := false
		if ret := singleReturn(fn); ret != nil && isLoadOfField(fn, ret.Results[0], "ri") {
			ok = true
		}
		r.add("CURSOR", shortName(fn), "return", "ReadLen returns ri", P.pos(fn.Pos()), ok, "")
	}
	if fn := ms["Release"]; fn != nil {
		fa := A.fa(fn)
		for _, ret := range returnsOf(fn) {
			riX := cellIntAt(fa, ret, "ri")
			r.add("CURSOR", shortName(fn), "return", "Release leaves ri = 0", P.pos(instrPos(ret)), riX != nil && fa.proveEq(riX, linConst(0), ret.Block()), "")
		}
	}

	// ---- PEEK-PURE ----
	for _, name := range []string{"Peek", "ReadLen"} {
		fn := ms[name]
		bad := ""
		for _, e := range E.of(fn) {
			if e.Key == "P:"+fn.Params[0].Name()+".ri" || e.Key == "?" {
				bad = fmt.Sprintf("store to %s at %s (%s)", e.Key, P.pos(instrPos(e.In)), e.Via)
			}
		}
		r.add("PEEK-PURE", shortName(fn), "effects", "no store to the read position is reachable", P.pos(fn.Pos()), bad == "", bad)
	}

	// ---- FAIL-PURE and error surfaced ----
	for _, name := range []string{"Next", "Peek", "Skip"} {
		fn := ms[name]
		fa := A.fa(fn)
		for _, rc := range retCasesErr(fn) {
			if readerCaseSucceeds(fa, rc) {
				continue
			}
			ret, res, blk := rc.ret, rc.results, rc.at.Block()
			// no store to ri/buf since function entry on this path
			ri0, riX := cellIntEntry(fa, "ri"), cellAtCase(fa, rc, "ri")
			same := ri0 == nil || (riX != nil && fa.proveEq(riX, ri0, blk))
			r.add("FAIL-PURE", shortName(fn), "return", "failure consumes nothing (ri as on entry)", P.pos(instrPos(ret)), same, "")
			if name != "Skip" {
				d := fa.sliceDesc(res[0])
				nilRes := d != nil && d.Len.isConst() && d.Len.C.Sign() == 0
				r.add("FAIL-PURE", shortName(fn), "return", "failure returns no bytes", P.pos(instrPos(ret)), nilRes, "")
			}
		}
		// the error on the short path is r.err
		var acq *ssa.Call
		for _, c := range callsIn(fn) {
			if cc, ok := c.(*ssa.Call); ok && cc.Common().StaticCallee() != nil && len(cc.Common().Args) == 2 && cc.Common().Args[1] == ssa.Value(fn.Params[1]) && isInteger(cc.Type()) {
				acq = cc
			}
		}
		if r.require(name+": call of the fill routine with n", acq != nil) {
			m := fa.expand(acq)
			n := fa.expand(fn.Params[1])
			okShort := false
			for _, b := range fn.Blocks {
				for _, in := range b.Instrs {
					if ld, ok := in.(*ssa.UnOp); ok && ld.Op == token.MUL && recvFieldOf(fn, ld.X) == "err" {
						// this load feeds the returned error on a path where n > m
						if fa.prove(ineqLT(m, n), ld.Block(), rootCtx) {
							okShort = true
						}
					}
				}
			}
			r.add("SHORT⇒ERR", shortName(fn), "return", "when fewer than n bytes are available the stored source error r.err is returned", P.pos(fn.Pos()), okShort, "")
		}
	}

	// the wrappers between the exported methods and the fill routines report a count under the same bound
	for _, fn := range availWrappers(scope, fills) {
		fa := A.fa(fn)
		for _, ret := range returnsOf(fn) {
			v := fa.expand(ret.Results[0])
			bd, rx := cellSliceAt(fa, ret, "buf"), cellIntAt(fa, ret, "ri")
			okAvail := bd != nil && rx != nil && fa.prove(ineqLE(v, bd.Len.sub(rx)), ret.Block(), rootCtx)
			if c := asCall(ret.Results[0]); !okAvail && c != nil {
				for _, g := range fills {
					if c.Common().StaticCallee() == g {
						okAvail = true
					}
				}
			}
			r.add("SHORT⇒ERR", shortName(fn), "avail", "the count reported is never more than the bytes buffered behind the cursor", P.pos(instrPos(ret)), okAvail, "")
		}
	}
	// ---- SHORT⇒ERR in the fill routine, STICKY, ROOM ----
	for _, fn := range fills {
		fa := A.fa(fn)
		n := fa.expand(fn.Params[1])
		for _, ret := range returnsOf(fn) {
			// never more than is buffered: what the callers slice (buf[ri:ri+n]) lies inside the buffer's length
			if isInteger(ret.Results[0].Type()) {
				v := fa.expand(ret.Results[0])
				bd, rx := cellSliceAt(fa, ret, "buf"), cellIntAt(fa, ret, "ri")
				okAvail := bd != nil && rx != nil && fa.prove(ineqLE(v, bd.Len.sub(rx)), ret.Block(), rootCtx)
				// a tail call of another fill routine hands on that routine's own guarantee
				if c := asCall(ret.Results[0]); !okAvail && c != nil {
					for _, g := range fills {
						if c.Common().StaticCallee() == g && g != fn {
							okAvail = true
						}
					}
				}
				r.add("SHORT⇒ERR", shortName(fn), "avail", "the count reported is never more than the bytes buffered behind the cursor", P.pos(instrPos(ret)), okAvail, "")
			}
			v := fa.expand(ret.Results[0])
			ok := fa.prove(ineqGE(v, n), ret.Block(), rootCtx)
			how := "returns at least the request"
			if !ok {
				key := "P:" + fn.Params[0].Name() + ".err"
				ver := fa.mem.versionAt(ret, key)
				if ver == nil {
					ver = fa.mem.entry[key]
				}
				if ver != nil {
					ok = fa.prove(ineqGE(fa.cellNil(ver), linConst(1)), ret.Block(), rootCtx)
					how = "r.err is provably non-nil here"
				}
			}
			r.add("SHORT⇒ERR", shortName(fn), "return", "a short count is returned only with r.err != nil", P.pos(instrPos(ret)), ok, how)
		}
		for _, rc := range ioReadCalls(fn) {
			// dominated by r.err == nil with no store to r.err in between
			key := "P:" + fn.Params[0].Name() + ".err"
			ver := fa.mem.versionAt(rc, key)
			ok := ver != nil && fa.prove(ineqLE(fa.cellNil(ver), linConst(0)), rc.Block(), rootCtx)
			r.add("STICKY", shortName(fn), "call", "the source is read only while r.err == nil", P.pos(instrPos(rc)), ok, "")
			// a non-nil error is stored to r.err before the function returns
			ev := resultValue(rc, 1)
			stored := false
			if ev != nil {
				stored = true
				_, neq := nilTests(ev)
				if len(neq) == 0 {
					stored = false
				}
				for _, t := range neq {
					for _, ce := range testsOf(t) {
						blk := ce.If.Block().Succs[0]
						if !ce.Truth {
							blk = ce.If.Block().Succs[1]
						}
						// the value stored is the source's error, possibly through a join that carries it on every
						// edge coming from this branch (err kept in a local and stored in a shared tail)
						carries := func(v ssa.Value) bool {
							if v == ev {
								return true
							}
							ph, isPhi := v.(*ssa.Phi)
							if !isPhi {
								return false
							}
							n := 0
							for i, p := range ph.Block().Preds {
								if p == blk || blk.Dominates(p) {
									if ph.Edges[i] != ev {
										return false
									}
									n++
								}
							}
							return n > 0
						}
						leak, _ := exitsWithout(blk.Instrs[0], func(in ssa.Instruction) bool {
							st, ok := in.(*ssa.Store)
							return ok && recvFieldOf(fn, st.Addr) == "err" && carries(st.Val)
						})
						if st, ok := blk.Instrs[0].(*ssa.Store); ok && recvFieldOf(fn, st.Addr) == "err" && carries(st.Val) {
							leak = false
						}
						if leak {
							stored = false
						}
					}
				}
			}
			// ... and no way out of the function after the read skips the test altogether (bytes that satisfy the request
			// may arrive together with the error that ends the stream)
			if stored && ev != nil {
				_, neq := nilTests(ev)
				eq, _ := nilTests(ev)
				isTest := func(in ssa.Instruction) bool {
					iff, ok := in.(*ssa.If)
					if !ok {
						return false
					}
					for _, t := range append(append([]*ssa.BinOp{}, neq...), eq...) {
						if iff.Cond == ssa.Value(t) {
							return true
						}
					}
					return false
				}
				if leak, at := exitsWithout(rc, isTest); leak {
					stored = false
					_ = at
				}
			}
			r.add("STICKY", shortName(fn), "call", "an error of the source is stored in r.err before returning", P.pos(instrPos(rc)), stored, "")
			// PROGRESS: a give-up counter of the read loop is restarted whenever the source delivered bytes
			// (otherwise a stream that keeps making progress but inserts empty reads is cut off)
			cnt := resultValue(rc, 0)
			for _, hb := range fn.Blocks {
				if !hb.Dominates(rc.Block()) || !inLoop(hb) {
					continue
				}
				for _, in := range hb.Instrs {
					ph, isPhi := in.(*ssa.Phi)
					if !isPhi {
						break
					}
					if !isInteger(ph.Type()) || !comparedWithConst(ph) {
						continue
					}
					// a counter: starts at a constant, some back edge increments it
					isCounterLike := false
					for _, e := range ph.Edges {
						if bo, ok := e.(*ssa.BinOp); ok && (bo.Op == token.ADD || bo.Op == token.SUB) && bo.X == ssa.Value(ph) {
							isCounterLike = true
						}
					}
					if !isCounterLike {
						continue
					}
					// the value it starts from (0 for a counter that counts up, the allowance for one that counts down)
					start, haveStart := int64(0), false
					for i, p := range hb.Preds {
						if !hb.Dominates(p) {
							if k, isC := constInt(ph.Edges[i]); isC {
								start, haveStart = k, true
							}
						}
					}
					if !haveStart {
						continue
					}
					okReset, detail := false, "no back edge of the read loop restarts the counter after a non-empty read"
					for i, p := range hb.Preds {
						if !hb.Dominates(p) {
							continue // entry edge
						}
						progress := false
						for _, dc := range blockConds(p, hb, 0) {
							if bo, ok := dc.Cond.(*ssa.BinOp); ok && cnt != nil && bo.X == cnt {
								if k, isC := constInt(bo.Y); isC && k == 0 && ((bo.Op == token.GTR && dc.Truth) || (bo.Op == token.LEQ && !dc.Truth) || (bo.Op == token.EQL && !dc.Truth) || (bo.Op == token.NEQ && dc.Truth)) {
									progress = true
								}
							}
						}
						if !progress {
							continue
						}
						if k, isC := constInt(ph.Edges[i]); isC && k == start {
							okReset, detail = true, ""
						} else {
							okReset, detail = false, "after a read that delivered bytes the loop continues with the counter not restarted"
							break
						}
					}
					r.add("PROGRESS", shortName(fn), "loop", "the empty-read counter that ends the fill loop is restarted by every read that delivers bytes", P.pos(instrPos(rc)), okReset, detail)
				}
			}
			// WINDOW/extend: the target is buf[len:cap] and the buffer is extended by exactly the reported count
			tgt := fa.sliceDesc(rc.Common().Args[0])
			cur := cellSliceAt(fa, rc, "buf")
			okT := tgt != nil && cur != nil && tgt.Root != nil && isLoadOfField(fn, tgt.Root, "buf") && fa.proveEq(tgt.Off, cur.Len, rc.Block()) && fa.prove(ineqLE(tgt.Off.add(tgt.Len), cur.Cap), rc.Block(), rootCtx)
			r.add("WINDOW", shortName(fn), "call", "the source writes into buf[len:cap] only (after the unread window)", P.pos(instrPos(rc)), okT, "")
			cnt = resultValue(rc, 0)
			ext := false
			for _, st := range storesTo(fn, "buf") {
				if !instrDominates(rc, st) || st.Block() != rc.Block() {
					continue
				}
				d := fa.sliceDesc(st.Val)
				if d != nil && cnt != nil && cur != nil && d.Root != nil && isLoadOfField(fn, d.Root, "buf") &&
					fa.proveEq(d.Off, linConst(0), st.Block()) && fa.proveEq(d.Len, cur.Len.add(fa.expand(cnt)), st.Block()) {
					ext = true
				}
			}
			r.add("WINDOW", shortName(fn), "store", "after a Read the buffer grows by exactly the count it reported", P.pos(instrPos(rc)), ext, "")
		}
		// ROOM: every buffer obtained for growth can hold ri+n bytes
		for _, c := range callsIn(fn) {
			cc, ok := c.(*ssa.Call)
			if !ok || !isCallTo(c, pkgMcache, "Malloc") {
				continue
			}
			size := fa.expand(cc.Common().Args[0])
			if cst, isC := size.constVal(); isC && cst.Sign() == 0 {
				// Malloc(0, capacity): the capacity is the variadic element
				capV := mallocCapArg(cc)
				if capV == nil {
					continue
				}
				size = fa.expand(capV)
			}
			ri := cellIntAt(fa, cc, "ri")
			ok = ri != nil && (fa.prove(ineqGE(size.sub(ri), n), cc.Block(), rootCtx))
			if !ok {
				// first allocation: the buffer is empty (cap == 0); growth follows if it is still too small
				if cur := cellSliceAt(fa, cc, "buf"); cur != nil && cur.Cap != nil && fa.prove(ineqLE(cur.Cap, linConst(0)), cc.Block(), rootCtx) && fa.prove(ineqGE(size, n), cc.Block(), rootCtx) {
					ok = true
				}
			}
			r.add("ROOM", shortName(fn), "call", "the new buffer holds the consumed prefix plus the n requested bytes", P.pos(instrPos(cc)), ok, "")
		}
	}

	// ---- WINDOW: the remaining stores to buf ----
	for _, fn := range scope {
		if fn.Name() == "reset" {
			continue
		}
		fa := A.fa(fn)
		for _, c := range callsIn(fn) {
			if cc, ok := c.(*ssa.Call); ok {
				fa.externalAllocFacts(cc)
			}
		}
		for _, st := range storesTo(fn, "buf") {
			kind, ok, detail := classifyBufStore(fa, st)
			if kind == "extend" {
				continue // checked with its Read call above
			}
			r.add("WINDOW", shortName(fn), "store", "store to buf preserves the unread window ("+kind+")", P.pos(instrPos(st)), ok, detail)
		}
	}
	ringRule(P, r, "RING")
	r.assume("io.Reader.Read(p) writes only into p and reports 0 ≤ n ≤ len(p) (io.Reader contract)")
	r.assume("mcache.Malloc(size, cap...) returns a slice of the requested length whose capacity is at least the request")
	r.assume("the class invariant ri ≤ len(buf) ≤ cap(buf) is not mechanised; Go's own bounds checks guard the slice expressions")
}

func mallocCapArg(c *ssa.Call) ssa.Value {
	if len(c.Common().Args) < 2 {
		return nil
	}
	sl, ok := c.Common().Args[1].(*ssa.Slice)
	if !ok {
		return nil
	}
	al, ok := sl.X.(*ssa.Alloc)
	if !ok {
		return nil
	}
	for _, ref := range *al.Referrers() {
		if ia, ok := ref.(*ssa.IndexAddr); ok {
			for _, r2 := range *ia.Referrers() {
				if st, ok := r2.(*ssa.Store); ok && st.Addr == ia {
					return st.Val
				}
			}
		}
	}
	return nil
}

// classifyBufStore recognises the window-preserving forms of a store to the
// reader's buf field.
func classifyBufStore(fa *FA, st *ssa.Store) (kind string, ok bool, detail string) {
	fn := fa.fn
	blk := st.Block()
	cur := cellSliceAt(fa, st, "buf")
	ri := cellIntAt(fa, st, "ri")
	riZeroAfter := func() bool {
		leak, _ := exitsWithout(st, func(in ssa.Instruction) bool {
			s2, ok := in.(*ssa.Store)
			if !ok || recvFieldOf(fn, s2.Addr) != "ri" {
				return false
			}
			c, isC := s2.Val.(*ssa.Const)
			return isC && c.Value != nil && c.Int64() == 0
		})
		return !leak
	}
	// the cursor may already have been moved when the store happens (unread := buf[ri:]; ri = 0; …; buf = unread):
	// windows are compared with the cursor as it was where the value was formed, and ri must be 0 at every exit
	riZeroAtExits := func() bool {
		okAll, any := true, false
		for _, ret := range returnsOf(fn) {
			if ret.Block() != blk && !reachesWithout(st, ret, func(ssa.Instruction) bool { return false }) {
				continue
			}
			any = true
			rx := cellIntAt(fa, ret, "ri")
			if rx == nil || !fa.proveEq(rx, linConst(0), ret.Block()) {
				okAll = false
			}
		}
		return okAll && any
	}
	riAt := func(v ssa.Value) *Lin {
		if in, ok := v.(ssa.Instruction); ok && in.Block() != nil {
			return cellIntAt(fa, in, "ri")
		}
		return ri
	}
	curAt := func(v ssa.Value) *SliceDesc {
		if in, ok := v.(ssa.Instruction); ok && in.Block() != nil {
			return cellSliceAt(fa, in, "buf")
		}
		return cur
	}
	if isNilConst(st.Val) {
		if cur != nil && ri != nil && fa.prove(ineqLE(cur.Len.sub(ri), linConst(0)), blk, rootCtx) {
			return "empty window dropped", true, ""
		}
		// … or the window taken earlier (unread := buf[ri:]) is known to be empty here
		for _, b := range fn.Blocks {
			for _, in := range b.Instrs {
				sl, ok := in.(*ssa.Slice)
				if !ok || sl.High != nil || !instrDominates(sl, st) {
					continue
				}
				d := fa.sliceDesc(sl)
				if d == nil || !isLoadOfField(fn, d.Root, "buf") {
					continue
				}
				r0, c0 := riAt(sl), curAt(sl)
				if r0 != nil && c0 != nil && fa.proveEq(d.Off, r0, sl.Block()) && fa.prove(ineqLE(d.Len, linConst(0)), blk, rootCtx) && fa.proveEq(d.Len, c0.Len.sub(r0), sl.Block()) {
					return "empty window dropped", true, ""
				}
			}
		}
		return "drop", false, "the buffer is dropped although unread bytes may remain"
	}
	d := fa.sliceDesc(st.Val)
	if d == nil || d.Root == nil {
		return "unknown", false, "unrecognised value"
	}
	if isLoadOfField(fn, d.Root, "buf") {
		// re-slice of the current buffer
		if fa.proveEq(d.Off, linConst(0), blk) {
			// extension after a Read, or truncation after compaction
			if sl, isSl := st.Val.(*ssa.Slice); isSl && sl.High != nil {
				if cp := builtinCall(sl.High, "copy"); cp != nil {
					dst, src := fa.sliceDesc(cp.Common().Args[0]), fa.sliceDesc(cp.Common().Args[1])
					if dst != nil && src != nil && isLoadOfField(fn, dst.Root, "buf") && isLoadOfField(fn, src.Root, "buf") &&
						fa.proveEq(dst.Off, linConst(0), blk) && ri != nil && fa.proveEq(src.Off, ri, blk) && cur != nil && fa.proveEq(src.Len, cur.Len.sub(ri), blk) && riZeroAfter() {
						return "compaction to offset 0, ri := 0", true, ""
					}
					// the source window may have been taken before the cursor was reset
					if dst != nil && src != nil && isLoadOfField(fn, dst.Root, "buf") && isLoadOfField(fn, src.Root, "buf") && fa.proveEq(dst.Off, linConst(0), blk) {
						if sv, isIn := cp.Common().Args[1].(ssa.Instruction); isIn {
							r0, c0 := riAt(cp.Common().Args[1]), curAt(cp.Common().Args[1])
							if r0 != nil && c0 != nil && fa.proveEq(src.Off, r0, sv.Block()) && fa.proveEq(src.Len, c0.Len.sub(r0), sv.Block()) && riZeroAtExits() {
								return "compaction to offset 0 of the window taken earlier, ri = 0 at exit", true, ""
							}
						}
					}
					return "compaction", false, "copy(buf, buf[ri:]) with buf = buf[:copied] and ri = 0 expected"
				}
			}
			return "extend", true, ""
		}
		if ri != nil && fa.proveEq(d.Off, ri, blk) && cur != nil && fa.proveEq(d.Len, cur.Len.sub(ri), blk) && riZeroAfter() {
			return "re-slice buf[ri:], ri := 0", true, ""
		}
		if r0, c0 := riAt(st.Val), curAt(st.Val); r0 != nil && c0 != nil {
			vb := st.Val.(ssa.Instruction).Block()
			if fa.proveEq(d.Off, r0, vb) && fa.proveEq(d.Len, c0.Len.sub(r0), vb) && riZeroAtExits() {
				return "re-slice buf[ri:] taken earlier, ri = 0 at exit", true, ""
			}
		}
		return "re-slice", false, "offset/length do not describe the unread window"
	}
	// a different buffer
	if c := asCall(d.Root); c != nil && isCallTo(c, pkgMcache, "Malloc") {
		if cur != nil && cur.Cap != nil && fa.prove(ineqLE(cur.Cap, linConst(0)), blk, rootCtx) {
			return "first allocation of an empty buffer", true, ""
		}
		// relocation: new length = ri + copied, copy(new[ri:], old[ri:])
		if sl, isSl := st.Val.(*ssa.Slice); isSl && sl.High != nil && ri != nil {
			hi := fa.expand(sl.High)
			for _, ci := range callsIn(fn) {
				cp, okc := ci.(*ssa.Call)
				if !okc || builtinCall(cp, "copy") == nil || !instrDominates(cp, st) {
					continue
				}
				dst, src := fa.sliceDesc(cp.Common().Args[0]), fa.sliceDesc(cp.Common().Args[1])
				if dst == nil || src == nil || dst.Root != d.Root || !isLoadOfField(fn, src.Root, "buf") {
					continue
				}
				if fa.proveEq(dst.Off, ri, blk) && fa.proveEq(src.Off, ri, blk) && fa.proveEq(src.Len, cur.Len.sub(ri), blk) && fa.proveEq(d.Off, linConst(0), blk) {
					// the new length is the cursor plus what was copied; or the old length, when the copy is known to be complete
					if fa.proveEq(hi, ri.add(fa.expand(cp)), blk) {
						return "relocation with copy at the same offset", true, ""
					}
					if fa.proveEq(hi, ri.add(src.Len), blk) && dst.Len != nil && fa.prove(ineqLE(src.Len, dst.Len), cp.Block(), rootCtx) {
						return "relocation with a complete copy at the same offset", true, ""
					}
				}
			}
			return "relocation", false, "the unread window buf[ri:] must be copied to the same offset of the new buffer and the new length be ri + copied"
		}
	}
	return "unknown", false, "store of a value from " + fmt.Sprint(rootsOf(st.Val))
}

func init() { register("C04", "other", checkC04) }

// comparedWithConst: v is compared with an integer constant somewhere (a loop bound).
func comparedWithConst(v ssa.Value) bool {
	refs := v.Referrers()
	if refs == nil {
		return false
	}
	for _, r := range *refs {
		if bo, ok := r.(*ssa.BinOp); ok {
			switch bo.Op {
			case token.LSS, token.LEQ, token.GTR, token.GEQ:
				if _, isC := bo.Y.(*ssa.Const); isC && bo.X == v {
					return true
				}
			case token.ADD, token.SUB:
				// the counter is stepped first and the stepped value is what is compared (i++; if i >= max …)
				if _, isC := bo.Y.(*ssa.Const); isC && bo.X == v {
					if _, isPhi := v.(*ssa.Phi); isPhi && comparedWithConst(bo) {
						return true
					}
				}
			}
		}
	}
	return false
}

// readerCaseSucceeds: on this way out the error handed back is nil (a nil constant, a value tested nil on the way, or
// proved nil). Everything else is treated as a failure, which owes FAIL-PURE.
func readerCaseSucceeds(fa *FA, rc retCase) bool {
	if success, known := caseSuccess(rc); known {
		return success
	}
	return fa.prove(ineqLE(fa.nilExpand(rc.results[len(rc.results)-1]), linConst(0)), rc.at.Block(), rootCtx)
}

// availWrappers: functions of the reader, other than the fill routines, of shape (r, n int) int that hand on a fill
// routine's count.
func availWrappers(scope, fills []*ssa.Function) []*ssa.Function {
	isFill := map[*ssa.Function]bool{}
	for _, f := range fills {
		isFill[f] = true
	}
	var out []*ssa.Function
	for _, f := range scope {
		if isFill[f] || len(f.Params) != 2 || !isInteger(f.Params[1].Type()) || !typeIsPtrTo(f.Params[0].Type(), "DefaultReader") {
			continue
		}
		res := f.Signature.Results()
		if res.Len() != 1 || !isInteger(res.At(0).Type()) {
			continue
		}
		calls := false
		for _, c := range callsIn(f) {
			if isFill[c.Common().StaticCallee()] {
				calls = true
			}
		}
		if calls {
			out = append(out, f)
		}
	}
	return out
}

// availFacts: what the avail obligations establish for the fill routines and their wrappers is made available where
// they are called: the count they hand back is at most len(buf) − ri as both are right after the call.
func availFacts(fa *FA, fn *ssa.Function, fns []*ssa.Function) {
	is := map[*ssa.Function]bool{}
	for _, f := range fns {
		is[f] = true
	}
	for _, c := range callsIn(fn) {
		cc, ok := c.(*ssa.Call)
		if !ok || !is[cc.Common().StaticCallee()] || len(cc.Common().Args) != 2 || cc.Common().Args[0] != ssa.Value(fn.Params[0]) {
			continue
		}
		blk := cc.Block()
		idx := instrIndex(cc)
		if idx+1 >= len(blk.Instrs) {
			continue
		}
		next := blk.Instrs[idx+1]
		bd, rx := cellSliceAt(fa, next, "buf"), cellIntAt(fa, next, "ri")
		if bd == nil || rx == nil {
			continue
		}
		v := fa.expand(cc)
		if id, isAtom := singleAtom(v); isAtom {
			a := fa.A.at(id)
			a.Facts = append(a.Facts, ineqLE(v, bd.Len.sub(rx)))
		}
	}
}
