package main

// C18 (exception helpers), C19 (apache bridge), C20 (zero-copy conversions).

import (
	"fmt"
	"go/constant"
	"go/token"
	"go/types"
	"os"
	"path/filepath"
	"strings"

	"golang.org/x/tools/go/ssa"
)

// ---- small SSA pattern helpers ----

func stripIface(v ssa.Value) ssa.Value {
	for {
		switch x := v.(type) {
		case *ssa.MakeInterface:
			v = x.X
		case *ssa.ChangeInterface:
			v = x.X
		default:
			return v
		}
	}
}

func asCall(v ssa.Value) *ssa.Call {
	c, _ := v.(*ssa.Call)
	return c
}

func builtinCall(v ssa.Value, name string) *ssa.Call {
	c := asCall(v)
	if c == nil {
		return nil
	}
	if b, ok := c.Common().Value.(*ssa.Builtin); ok && b.Name() == name {
		return c
	}
	return nil
}

func staticCallNamed(v ssa.Value, name string) *ssa.Call {
	c := asCall(v)
	if c == nil {
		return nil
	}
	if cal := c.Common().StaticCallee(); cal != nil && cal.Name() == name {
		return c
	}
	return nil
}

func strConcat(v ssa.Value) (a, b ssa.Value, ok bool) {
	bo, isB := v.(*ssa.BinOp)
	if !isB || bo.Op != token.ADD || !isString(bo.Type()) {
		return nil, nil, false
	}
	return bo.X, bo.Y, true
}

// hasSideEffects reports whether fn contains stores to non-local memory or calls
// other than the allowed builtins.
func sideEffectsOf(fn *ssa.Function, allowBuiltins map[string]bool) []string {
	var out []string
	for _, b := range fn.Blocks {
		for _, in := range b.Instrs {
			switch x := in.(type) {
			case *ssa.Store:
				if _, ok := x.Addr.(*ssa.Alloc); !ok {
					if k := pathOf(x.Addr); !strings.HasPrefix(k, "A:") {
						out = append(out, "store to "+k)
					}
				}
			case ssa.CallInstruction:
				if bi, ok := x.Common().Value.(*ssa.Builtin); ok && allowBuiltins[bi.Name()] {
					continue
				}
				out = append(out, "call "+calleeFullName(x))
			case *ssa.MapUpdate, *ssa.Send, *ssa.Go, *ssa.Defer, *ssa.Panic:
				out = append(out, fmt.Sprintf("%T", in))
			}
		}
	}
	return out
}

func singleReturn(fn *ssa.Function) *ssa.Return {
	rs := returnsOf(fn)
	if len(rs) == 1 {
		return rs[0]
	}
	return nil
}

// ---------------- C20 ----------------

func checkC20Variant(P *Program, r *Result, variant string) {
	b2s := P.Func("unsafex", "BinaryToString")
	s2b := P.Func("unsafex", "StringToBinary")
	if !r.require("unsafex.BinaryToString ("+variant+")", b2s != nil && b2s.Blocks != nil) || !r.require("unsafex.StringToBinary ("+variant+")", s2b != nil && s2b.Blocks != nil) {
		return
	}
	allow := map[string]bool{"len": true, "String": true, "Slice": true, "SliceData": true, "StringData": true}
	pos := func(fn *ssa.Function) string { return P.pos(fn.Pos()) }
	type verdict struct {
		ptr, ln, pure bool
		detail        string
	}
	good := func(v verdict) bool { return v.ptr && v.ln && v.pure }
	castOfAllocHolding := func(v ssa.Value, p *ssa.Parameter, elemName string) (*ssa.Alloc, bool) {
		// v = convert *T <- unsafe.Pointer(convert unsafe.Pointer <- *X (alloc)), the alloc initialised with p (if p != nil)
		cv, ok := v.(*ssa.Convert)
		if !ok {
			return nil, false
		}
		if pt, ok := cv.Type().Underlying().(*types.Pointer); !ok || !strings.HasSuffix(pt.Elem().String(), elemName) {
			return nil, false
		}
		cv2, ok := cv.X.(*ssa.Convert)
		if !ok || !isUnsafePointer(cv2.Type()) {
			return nil, false
		}
		al, ok := cv2.X.(*ssa.Alloc)
		if !ok {
			return nil, false
		}
		if p == nil {
			return al, true
		}
		for _, ref := range *al.Referrers() {
			if st, ok := ref.(*ssa.Store); ok && st.Addr == al && st.Val == ssa.Value(p) {
				return al, true
			}
		}
		return nil, false
	}
	// ---- BinaryToString: either unsafe.String(unsafe.SliceData(b), len(b)) or the (data, len) prefix of b's header read as a string
	b2sBuiltin := func(fn *ssa.Function) verdict {
		v := verdict{detail: "result is not unsafe.String(unsafe.SliceData(b), len(b))"}
		if ret := singleReturn(fn); ret != nil && len(ret.Results) == 1 {
			if c := builtinCall(ret.Results[0], "String"); c != nil {
				if d := builtinCall(c.Common().Args[0], "SliceData"); d != nil && d.Common().Args[0] == ssa.Value(fn.Params[0]) {
					v.ptr = true
				}
				if l := builtinCall(c.Common().Args[1], "len"); l != nil && l.Common().Args[0] == ssa.Value(fn.Params[0]) {
					v.ln = true
				}
			}
		}
		se := sideEffectsOf(fn, allow)
		v.pure = len(se) == 0
		if !v.pure {
			v.detail = strings.Join(se, "; ")
		}
		return v
	}
	b2sHeader := func(fn *ssa.Function) verdict {
		v := verdict{detail: "result is not the (data, len) header prefix of b read as a string"}
		if ret := singleReturn(fn); ret != nil && len(ret.Results) == 1 {
			if ld, ok := ret.Results[0].(*ssa.UnOp); ok && ld.Op == token.MUL {
				if _, ok := castOfAllocHolding(ld.X, fn.Params[0], "string"); ok {
					v.ptr, v.ln = true, true
				}
			}
		}
		se := sideEffectsOf(fn, allow)
		v.pure = len(se) == 0
		if !v.pure {
			v.detail = strings.Join(se, "; ")
		}
		return v
	}
	// ---- StringToBinary: unsafe.Slice(unsafe.StringData(s), len(s)), or a 3-word header whose data/len are s's and whose cap is len(s)
	s2bBuiltin := func(fn *ssa.Function) verdict {
		v := verdict{detail: "result is not unsafe.Slice(unsafe.StringData(s), len(s))"}
		if ret := singleReturn(fn); ret != nil && len(ret.Results) == 1 {
			res := ret.Results[0]
			// x[:len(s)] / x[:len(s):len(s)] of a slice that already has length and capacity len(s) is x
			for {
				sl, ok := res.(*ssa.Slice)
				if !ok || sl.Low != nil || sl.High == nil {
					break
				}
				isLen := func(x ssa.Value) bool {
					l := builtinCall(x, "len")
					return l != nil && l.Common().Args[0] == ssa.Value(fn.Params[0])
				}
				if !isLen(sl.High) || (sl.Max != nil && !isLen(sl.Max)) {
					break
				}
				res = sl.X
			}
			if c := builtinCall(res, "Slice"); c != nil {
				if d := builtinCall(c.Common().Args[0], "StringData"); d != nil && d.Common().Args[0] == ssa.Value(fn.Params[0]) {
					v.ptr = true
				}
				if l := builtinCall(c.Common().Args[1], "len"); l != nil && l.Common().Args[0] == ssa.Value(fn.Params[0]) {
					v.ln = true
				}
			}
		}
		se := sideEffectsOf(fn, allow)
		v.pure = len(se) == 0
		if !v.pure {
			v.detail = strings.Join(se, "; ")
		}
		return v
	}
	s2bHeader := func(fn *ssa.Function) verdict {
		v := verdict{detail: "result header is not filled from s with capacity len(s)"}
		isLenS := func(x ssa.Value) bool {
			l := builtinCall(x, "len")
			return l != nil && l.Common().Args[0] == ssa.Value(fn.Params[0])
		}
		isDataS := func(x ssa.Value) bool {
			for {
				cv, ok := x.(*ssa.Convert)
				if !ok {
					break
				}
				x = cv.X
			}
			d := builtinCall(x, "StringData")
			return d != nil && d.Common().Args[0] == ssa.Value(fn.Params[0])
		}
		var hdrStore, dataStore, lenStore, capStore bool
		var extra []string
		var resAlloc *ssa.Alloc
		for _, b := range fn.Blocks {
			for _, in := range b.Instrs {
				switch x := in.(type) {
				case *ssa.Store:
					if al, ok := castOfAllocHolding(x.Addr, nil, "string"); ok && x.Val == ssa.Value(fn.Params[0]) {
						hdrStore = true
						resAlloc = al
						continue
					}
					if fa, ok := x.Addr.(*ssa.FieldAddr); ok {
						if al, ok := castOfAllocHolding(fa.X, nil, "sliceHeader"); ok {
							st := deref(fa.X.Type()).Underlying().(*types.Struct)
							if st.NumFields() == 3 {
								if resAlloc == nil {
									resAlloc = al
								}
								switch {
								case fa.Field == 2 && isLenS(x.Val):
									capStore = true
									continue
								case fa.Field == 1 && isLenS(x.Val):
									lenStore = true
									continue
								case fa.Field == 0 && isDataS(x.Val):
									dataStore = true
									continue
								}
							}
						}
					}
					if _, ok := x.Addr.(*ssa.Alloc); ok {
						continue // zero-initialisation / spill of the result variable
					}
					extra = append(extra, "store")
				case ssa.CallInstruction:
					if bi, ok := x.Common().Value.(*ssa.Builtin); !ok || (bi.Name() != "len" && bi.Name() != "StringData") {
						extra = append(extra, "call "+calleeFullName(x))
					}
				}
			}
		}
		retOK := false
		if ret := singleReturn(fn); ret != nil && len(ret.Results) == 1 && resAlloc != nil {
			if ld, ok := ret.Results[0].(*ssa.UnOp); ok && ld.Op == token.MUL && ld.X == ssa.Value(resAlloc) {
				retOK = true
			}
		}
		v.ptr = retOK && (hdrStore || (dataStore && lenStore))
		v.ln = retOK && capStore && (hdrStore || lenStore)
		v.pure = len(extra) == 0
		if !v.pure {
			v.detail = strings.Join(extra, "; ")
		}
		return v
	}
	pick := func(vs ...verdict) verdict {
		for _, v := range vs {
			if good(v) {
				v.detail = ""
				return v
			}
		}
		return vs[0]
	}
	{
		fn := b2s
		v := pick(b2sBuiltin(fn), b2sHeader(fn))
		r.add("PTR", shortName(fn)+"@"+variant, "return", "the result's data pointer is b's data pointer, no offset", pos(fn), v.ptr, v.detail)
		r.add("LEN", shortName(fn)+"@"+variant, "return", "the result's length is len(b)", pos(fn), v.ln, v.detail)
		r.add("PURE", shortName(fn)+"@"+variant, "body", "no other effect", pos(fn), v.pure, v.detail)
	}
	{
		fn := s2b
		v := pick(s2bBuiltin(fn), s2bHeader(fn))
		r.add("PTR", shortName(fn)+"@"+variant, "return", "the result's data pointer is s's data pointer, no offset", pos(fn), v.ptr, v.detail)
		r.add("LEN", shortName(fn)+"@"+variant, "return", "the result's length and capacity are len(s)", pos(fn), v.ln, v.detail)
		r.add("PURE", shortName(fn)+"@"+variant, "body", "no other effect", pos(fn), v.pure, v.detail)
	}
}

func checkC20(P *Program, r *Result, tier string) {
	r.Level = "proof"
	r.Explanation = "Both build variants of unsafex are loaded (the excluded one through an in-memory overlay that swaps the build constraints). " +
		"For each of the two functions the body is proved to be exactly the builtin composition unsafe.String(unsafe.SliceData(b), len(b)) resp. unsafe.Slice(unsafe.StringData(s), len(s)) " +
		"(or, before go1.21, the header reinterpretation with Cap := len(s)): data pointer = the argument's data pointer with no offset (PTR), length = len(argument) (LEN), no other effect (PURE). " +
		"By the Go specification of these builtins this gives equal content and length, shared memory and cap == len for every input, including empty and nil."
	checkC20Variant(P, r, "go1.21")
	// the other variant
	dir := filepath.Join(P.Repo, "unsafex")
	readSrc := func(name string) ([]byte, error) {
		if b, ok := runOverlay[name]; ok {
			return b, nil
		}
		return os.ReadFile(name)
	}
	f121, e1 := readSrc(filepath.Join(dir, "unsafex_go121.go"))
	f100, e2 := readSrc(filepath.Join(dir, "unsafex_go100.go"))
	if e1 != nil || e2 != nil {
		r.fatal("cannot read unsafex sources: %v %v", e1, e2)
		return
	}
	swap := func(src []byte, from, to string) ([]byte, bool) {
		s := string(src)
		if !strings.Contains(s, from) {
			return nil, false
		}
		return []byte(strings.Replace(s, from, to, 1)), true
	}
	o121, ok1 := swap(f121, "//go:build go1.21", "//go:build !go1.21")
	o100, ok2 := swap(f100, "//go:build !go1.21", "//go:build go1.21")
	if !ok1 || !ok2 {
		r.fatal("build constraints of the unsafex variants not recognised")
		return
	}
	P2, err := loadProgram(LoadOpts{Repo: P.Repo, Patterns: []string{"./unsafex"}, Overlay: map[string][]byte{
		filepath.Join(dir, "unsafex_go121.go"): o121,
		filepath.Join(dir, "unsafex_go100.go"): o100,
	}})
	if err != nil {
		r.fatal("loading the pre-go1.21 variant: %v", err)
		return
	}
	r.Configs = append(r.Configs, "linux/amd64, unsafex pre-go1.21 variant (overlay)")
	checkC20Variant(P2, r, "pre-go1.21")
	r.Trusted = append(r.Trusted, "slice header layout {data,len,cap} and string header layout {data,len} of the gc toolchain (pre-go1.21 variant only)")
	r.assume("the semantics of unsafe.String, unsafe.Slice, unsafe.StringData, unsafe.SliceData are those of the Go specification")
}

// ---------------- C19 ----------------

func checkC19(P *Program, r *Result, tier string) {
	r.Explanation = "Structural rules on protocol/thrift/apache: the pointer reinterpretation *bytes.Buffer → *bufferTransport is layout-safe (one embedded field at offset 0, equal size) and NewBufferTransport returns exactly that cast of its argument (LAYOUT-CAST); " +
		"RemainingBytes/Close delegate to Len/Reset of that same buffer (DELEGATE); defaultTransport.RemainingBytes returns the readable length exactly when it is ≥ 1 and max-uint64 on every other path (REMAINING); " +
		"each dispatch function tests its own callback variable for nil, returns a non-nil package error if unset, otherwise the callback's result on its own parameters in order (DISPATCH)."
	const rel = "protocol/thrift/apache"
	sp := P.pkg(rel)
	if !r.require("package apache", sp != nil) {
		return
	}
	// LAYOUT-CAST
	bt := sp.Type("bufferTransport")
	if r.require("apache.bufferTransport", bt != nil) {
		st, _ := bt.Type().Underlying().(*types.Struct)
		ok := st != nil && st.NumFields() == 1 && st.Field(0).Embedded() && st.Field(0).Type().String() == "bytes.Buffer"
		detail := ""
		if ok {
			sz := types.SizesFor("gc", "amd64")
			if sz.Sizeof(bt.Type()) != sz.Sizeof(st.Field(0).Type()) || sz.Offsetsof([]*types.Var{st.Field(0)})[0] != 0 {
				ok = false
				detail = "size or offset differs"
			}
		} else {
			detail = "bufferTransport must consist of exactly one embedded bytes.Buffer"
		}
		r.add("LAYOUT-CAST", "apache.bufferTransport", "type", "single embedded bytes.Buffer at offset 0, same size", P.pos(bt.Pos()), ok, detail)
	}
	if fn := P.Func(rel, "NewBufferTransport"); r.require("apache.NewBufferTransport", fn != nil) {
		ok := false
		detail := "result must be (*bufferTransport)(unsafe.Pointer(buf))"
		if ret := singleReturn(fn); ret != nil {
			v := stripIface(ret.Results[0])
			if c1, ok1 := v.(*ssa.Convert); ok1 && typeIsPtrTo(c1.Type(), "bufferTransport") {
				if c2, ok2 := c1.X.(*ssa.Convert); ok2 && isUnsafePointer(c2.Type()) && c2.X == ssa.Value(fn.Params[0]) {
					ok = true
					detail = ""
				}
			}
		}
		r.add("LAYOUT-CAST", shortName(fn), "return", "returns the reinterpreted argument itself (no copy)", P.pos(fn.Pos()), ok, detail)
		se := sideEffectsOf(fn, nil)
		r.add("LAYOUT-CAST", shortName(fn), "body", "no other effect", P.pos(fn.Pos()), len(se) == 0, strings.Join(se, "; "))
	}
	if fn := P.Func(rel, "NewDefaultTransport"); r.require("apache.NewDefaultTransport", fn != nil) {
		// the *bytes.Buffer branch goes through NewBufferTransport on the asserted value
		ok := false
		isAsserted := func(v ssa.Value) bool {
			ex, isEx := v.(*ssa.Extract)
			if !isEx || ex.Index != 0 {
				return false
			}
			ta, isTA := ex.Tuple.(*ssa.TypeAssert)
			return isTA && ta.X == ssa.Value(fn.Params[0])
		}
		for _, c := range callsIn(fn) {
			if cal := c.Common().StaticCallee(); cal != nil && cal.Name() == "NewBufferTransport" && isAsserted(c.Common().Args[0]) {
				ok = true
			}
		}
		// or the same reinterpretation written out in place
		for _, ret := range returnsOf(fn) {
			v := stripIface(ret.Results[0])
			if c1, ok1 := v.(*ssa.Convert); ok1 && typeIsPtrTo(c1.Type(), "bufferTransport") {
				if c2, ok2 := c1.X.(*ssa.Convert); ok2 && isUnsafePointer(c2.Type()) && isAsserted(c2.X) {
					ok = true
				}
			}
		}
		r.add("LAYOUT-CAST", shortName(fn), "call", "a *bytes.Buffer argument is wrapped by NewBufferTransport (same buffer)", P.pos(fn.Pos()), ok, "")
	}
	// DELEGATE
	bufField := func(fn *ssa.Function, v ssa.Value) bool {
		fa, ok := v.(*ssa.FieldAddr)
		return ok && fa.X == ssa.Value(fn.Params[0]) && fa.Field == 0
	}
	if fn := P.Method(rel, "bufferTransport", "RemainingBytes"); r.require("bufferTransport.RemainingBytes", fn != nil) {
		ok := false
		if ret := singleReturn(fn); ret != nil {
			if cv, isC := ret.Results[0].(*ssa.Convert); isC {
				if c := staticCallNamed(cv.X, "Len"); c != nil && fnPkgPath(c.Common().StaticCallee()) == "bytes" && bufField(fn, c.Common().Args[0]) {
					ok = true
				}
			}
		}
		r.add("DELEGATE", shortName(fn), "return", "uint64(p.Buffer.Len())", P.pos(fn.Pos()), ok, "")
	}
	if fn := P.Method(rel, "bufferTransport", "Close"); r.require("bufferTransport.Close", fn != nil) {
		ok := false
		for _, c := range callsIn(fn) {
			if cal := c.Common().StaticCallee(); cal != nil && cal.Name() == "Reset" && fnPkgPath(cal) == "bytes" && bufField(fn, c.Common().Args[0]) {
				// on every path: each return is dominated by the call
				ok = true
				for _, ret := range returnsOf(fn) {
					if !instrDominates(c.(*ssa.Call), ret) {
						ok = false
					}
				}
			}
		}
		retNil := true
		for _, ret := range returnsOf(fn) {
			if !isNilConst(ret.Results[0]) {
				retNil = false
			}
		}
		r.add("DELEGATE", shortName(fn), "call", "Close resets the underlying buffer on every path and returns nil", P.pos(fn.Pos()), ok && retNil, "")
	}
	// SHADOW: "both handles are one object" also means that an operation of bytes.Buffer invoked through the transport
	// is that operation: a method declared on bufferTransport under the name of a bytes.Buffer method must be a plain
	// delegation (same arguments in order, results handed back unchanged, nothing else)
	{
		bufMethods := map[string]bool{}
		if sp := P.pkg(rel); sp != nil {
			if t := sp.Type("bufferTransport"); t != nil {
				if st, ok := t.Type().Underlying().(*types.Struct); ok {
					for i := 0; i < st.NumFields(); i++ {
						if f := st.Field(i); f.Embedded() {
							ms := types.NewMethodSet(types.NewPointer(f.Type()))
							for k := 0; k < ms.Len(); k++ {
								bufMethods[ms.At(k).Obj().Name()] = true
							}
						}
					}
				}
			}
		}
		for _, m := range P.methodsNamed(rel, "bufferTransport", func(n string) bool { return bufMethods[n] }) {
			if m.Synthetic != "" || fnPkgPath(m) != modPath+"/"+rel {
				continue // promoted through embedding: it is the buffer's own method
			}
			ok, detail := false, "the method does more than call the buffer's method of the same name"
			if len(m.Blocks) == 1 {
				if ret, isRet := m.Blocks[0].Instrs[len(m.Blocks[0].Instrs)-1].(*ssa.Return); isRet {
					var call *ssa.Call
					ncalls := 0
					for _, c := range callsIn(m) {
						ncalls++
						call, _ = c.(*ssa.Call)
					}
					if ncalls == 1 && call != nil && call.Common().StaticCallee() != nil && call.Common().StaticCallee().Name() == m.Name() && fnPkgPath(call.Common().StaticCallee()) == "bytes" {
						argsOK := len(call.Common().Args) == len(m.Params)
						for i := 1; argsOK && i < len(m.Params); i++ {
							if call.Common().Args[i] != ssa.Value(m.Params[i]) {
								argsOK = false
							}
						}
						resOK := true
						for i, rv := range ret.Results {
							if rv != ssa.Value(call) && resultValue(call, i) != rv {
								resOK = false
							}
						}
						if argsOK && resOK {
							ok, detail = true, ""
						}
					}
				}
			}
			r.add("DELEGATE", shortName(m), "shadow", "a bytes.Buffer method redeclared on the transport is a plain delegation to the buffer", P.pos(m.Pos()), ok, detail)
		}
	}
	// REMAINING
	if fn := P.Method(rel, "defaultTransport", "RemainingBytes"); r.require("defaultTransport.RemainingBytes", fn != nil) {
		// the method may hand its wrapped value to a package function that does the work
		handedOff := false
		if ret := singleReturn(fn); ret != nil && len(fn.Blocks) == 1 {
			if c := asCall(ret.Results[0]); c != nil {
				if cal := c.Common().StaticCallee(); cal != nil && inRepo(cal) && cal.Blocks != nil && len(c.Common().Args) == 1 {
					if _, isField := c.Common().Args[0].(*ssa.Field); isField {
						r.Funcs[shortName(fn)] = true
						fn = cal
						handedOff = true
					} else if ld, isLd := c.Common().Args[0].(*ssa.UnOp); isLd && recvFieldOf(fn, ld.X) != "" {
						r.Funcs[shortName(fn)] = true
						fn = cal
						handedOff = true
					}
				}
			}
		}
		A := newAnalysis(P)
		fa := A.fa(fn)
		fa.noGeneralize = true
		var nVal ssa.Value
		for _, c := range callsIn(fn) {
			if isInvokeOf(c, "ReadableLen") {
				nVal = c.(*ssa.Call)
			}
		}
		if r.require("ReadableLen call in defaultTransport.RemainingBytes", nVal != nil) {
			n := fa.expand(nVal)
			// the length asked is that of the wrapped object as it is now: the receiver of ReadableLen is a
			// type assertion, made in this call, of the value the transport wraps
			var ta *ssa.TypeAssert
			recv := nVal.(*ssa.Call).Call.Value
			if ex, ok := recv.(*ssa.Extract); ok {
				ta, _ = ex.Tuple.(*ssa.TypeAssert)
			} else {
				ta, _ = recv.(*ssa.TypeAssert)
			}
			wrapped := ta != nil && isWrappedValue(fn, ta.X, handedOff)
			// or the assertion was made once, when the transport was built, and kept in a field of its own
			cachedField := -1
			if ta == nil && !handedOff {
				if fi, ok := recvStructField(fn, recv); ok && cachedAssertion(P, fn, fi) {
					wrapped, cachedField = true, fi
				}
			}
			r.add("REMAINING", shortName(fn), "source", "ReadableLen is asked of the wrapped object itself, looked up at the time of the call", P.pos(instrPos(nVal.(*ssa.Call))), wrapped, "")
			for _, ret := range returnsOf(fn) {
				v := ret.Results[0]
				if cst, ok := v.(*ssa.Const); ok {
					isMax := cst.Value != nil && constant.Compare(constant.ToInt(cst.Value), token.EQL, constant.MakeUint64(^uint64(0)))
					// every edge into this block that depends on n must have n ≤ 0
					edgesOK := true
					for _, p := range ret.Block().Preds {
						ef := &edgeFacts{}
						fa.edgeCond(p, ret.Block(), ef)
						g := fa.gamma(p)
						touches := false
						for _, f := range ef.ineq {
							for id := range n.T {
								if f.has(id) {
									touches = true
								}
							}
						}
						if touches {
							facts := append(append([]*Lin{}, g.ineq...), ef.ineq...)
							if !entails(fa.closeFacts(facts, nil, nil, ineqLE(n, linConst(0))), ineqLE(n, linConst(0))) {
								edgesOK = false
							}
						} else if cachedField >= 0 {
							// the other way to "unknown": nothing was cached because the wrapped object has no ReadableLen
							q := p
							for len(q.Succs) == 1 && len(q.Preds) == 1 && len(q.Instrs) == 1 {
								q = q.Preds[0]
							}
							okEdge := false
							if iff, isIf := q.Instrs[len(q.Instrs)-1].(*ssa.If); isIf {
								if bo, isBo := iff.Cond.(*ssa.BinOp); isBo && (bo.Op == token.NEQ || bo.Op == token.EQL) {
									for _, pair := range [][2]ssa.Value{{bo.X, bo.Y}, {bo.Y, bo.X}} {
										if c, isC := pair[1].(*ssa.Const); isC && c.Value == nil {
											if fi, ok := recvStructField(fn, pair[0]); ok && fi == cachedField {
												okEdge = true
											}
										}
									}
								}
							}
							if !okEdge {
								edgesOK = false
							}
						} else if ta != nil && ta.CommaOk {
							// the other way to "unknown": the wrapped object has no ReadableLen
							q := p
							for len(q.Succs) == 1 && len(q.Preds) == 1 && len(q.Instrs) == 1 {
								q = q.Preds[0]
							}
							iff, isIf := q.Instrs[len(q.Instrs)-1].(*ssa.If)
							okEdge := false
							if isIf {
								if ex, isEx := iff.Cond.(*ssa.Extract); isEx && ex.Tuple == ssa.Value(ta) && ex.Index == 1 {
									okEdge = true
								}
							}
							if !okEdge {
								edgesOK = false
							}
						}
					}
					r.add("REMAINING", shortName(fn), "return", "constant result is max uint64 and is reached from the length test only when n ≤ 0", P.pos(instrPos(ret)), isMax && edgesOK, "")
					continue
				}
				cv, ok := v.(*ssa.Convert)
				good := ok && cv.X == nVal && fa.prove(ineqGE(n, linConst(1)), ret.Block(), rootCtx)
				r.add("REMAINING", shortName(fn), "return", "uint64(n) is returned only where n ≥ 1", P.pos(instrPos(ret)), good, "")
			}
		}
	}
	// DISPATCH
	regs := map[string]string{}
	for _, name := range []string{"RegisterCheckTStruct", "RegisterThriftRead", "RegisterThriftWrite"} {
		fn := P.Func(rel, name)
		if !r.require("apache."+name, fn != nil) {
			continue
		}
		ok := false
		for _, b := range fn.Blocks {
			for _, in := range b.Instrs {
				if st, isSt := in.(*ssa.Store); isSt {
					if k := pathOf(st.Addr); strings.HasPrefix(k, "G:") && !strings.ContainsAny(k, "*[{") && st.Val == ssa.Value(fn.Params[0]) {
						regs[k] = name
						ok = true
					}
				}
			}
		}
		r.add("DISPATCH", shortName(fn), "store", "stores its argument in a callback variable", P.pos(fn.Pos()), ok, "")
	}
	usedG := map[string]string{}
	for _, name := range []string{"CheckTStruct", "ThriftRead", "ThriftWrite"} {
		fn := P.Func(rel, name)
		if !r.require("apache."+name, fn != nil) {
			continue
		}
		g := ""
		okNilRet, okCall := false, false
		detail := ""
		stray := ""
		for _, rc := range retCases(fn) {
			ret := rc.ret
			v := rc.results[0]
			if c := asCall(v); c != nil && !c.Common().IsInvoke() {
				// dynamic call of the loaded callback with the parameters in order
				ld, isLd := c.Common().Value.(*ssa.UnOp)
				if !isLd || ld.Op != token.MUL {
					detail = "result is not a call of the registered callback"
					continue
				}
				gg := pathOf(ld.X)
				if !strings.HasPrefix(gg, "G:") || strings.ContainsAny(gg, "*[{") {
					continue
				}
				argsOK := len(c.Common().Args) == len(fn.Params)
				for i := range fn.Params {
					if argsOK && c.Common().Args[i] != ssa.Value(fn.Params[i]) {
						argsOK = false
					}
				}
				// only reached when the same variable was tested non-nil
				tested := false
				for _, b := range fn.Blocks {
					for _, in := range b.Instrs {
						if l2, ok := in.(*ssa.UnOp); ok && l2.Op == token.MUL && pathOf(l2.X) == gg && guardedNonNil(c, l2) {
							tested = true
						}
					}
				}
				if argsOK && tested {
					okCall = true
					g = gg
				} else {
					detail = "callback call not guarded by its own nil test or arguments not passed through in order"
					stray = "the return at " + P.pos(instrPos(ret)) + " answers with another callback's result, or without handing on the arguments in order"
				}
				continue
			}
			// error return: a non-nil package-level error, reached when the callback is nil
			if ld, isLd := v.(*ssa.UnOp); isLd && ld.Op == token.MUL {
				if eg, isG := ld.X.(*ssa.Global); isG && newAnalysis(P).nonNilGlobal(eg) {
					okNilRet = true
					continue
				}
			}
			// anything else answers without asking the registered callback
			stray = "the return at " + P.pos(instrPos(ret)) + " is neither the callback's own result nor the not-registered error"
		}
		if stray != "" {
			okCall = false
			detail = stray
		}
		if g != "" {
			if prev, dup := usedG[g]; dup {
				okCall = false
				detail = "shares its callback variable with " + prev
			}
			usedG[g] = name
			if regs[g] == "" {
				okCall = false
				detail = "callback variable is not set by any Register function"
			}
		}
		r.add("DISPATCH", shortName(fn), "return", "unregistered ⇒ specific non-nil error", P.pos(fn.Pos()), okNilRet, "")
		r.add("DISPATCH", shortName(fn), "call", "registered ⇒ result of own callback on own parameters", P.pos(fn.Pos()), okCall, detail)
	}
	r.assume("bytes.Buffer's methods operate on the receiver they are given (standard library)")
}

func callsIn(fn *ssa.Function) []ssa.CallInstruction {
	var out []ssa.CallInstruction
	for _, b := range fn.Blocks {
		for _, in := range b.Instrs {
			if c, ok := in.(ssa.CallInstruction); ok {
				out = append(out, c)
			}
		}
	}
	return out
}

// ---------------- C18 ----------------

// errorTextOf reports whether v is the Error() text of the error value orig
// (or of the value asserted from it).
func errorTextOf(v ssa.Value, orig ssa.Value, asserted ssa.Value) bool {
	c := asCall(v)
	if c == nil {
		return false
	}
	com := c.Common()
	if com.IsInvoke() {
		return com.Method.Name() == "Error" && (com.Value == orig || com.Value == asserted)
	}
	cal := com.StaticCallee()
	if cal == nil || cal.Name() != "Error" {
		return false
	}
	return derivesFrom(com.Args[0], asserted) || derivesFrom(com.Args[0], orig)
}

// derivesFrom: v is base, or a field address / embedded-struct address of base.
func derivesFrom(v, base ssa.Value) bool {
	for v != nil {
		if v == base {
			return true
		}
		switch x := v.(type) {
		case *ssa.FieldAddr:
			v = x.X
		case *ssa.ChangeType:
			v = x.X
		case *ssa.MakeInterface:
			v = x.X
		default:
			return false
		}
	}
	return false
}

func typeIDOf(v ssa.Value, asserted ssa.Value) bool {
	c := asCall(v)
	if c == nil {
		return false
	}
	com := c.Common()
	if com.IsInvoke() {
		return (com.Method.Name() == "TypeId" || com.Method.Name() == "TypeID") && com.Value == asserted
	}
	cal := com.StaticCallee()
	if cal == nil || (cal.Name() != "TypeID" && cal.Name() != "TypeId") {
		return false
	}
	return derivesFrom(com.Args[0], asserted)
}

func checkC18(P *Program, r *Result, tier string) {
	r.Explanation = "Structural rules on protocol/thrift/exception.go: for every exception kind PrependError's branch taken when the concrete type assertion succeeds returns the constructor of the same kind applied to the asserted value's type id and prepend + its Error() text; the TypeId interface is consulted only after the three concrete assertions failed and yields an application exception; the fall-through is errors.New(prepend + err.Error()) (PREPEND). " +
		"NewProtocolExceptionWithErr returns the asserted *ProtocolException itself, otherwise a new protocol exception that stores the argument in the field Unwrap returns (WRAP). " +
		"Is returns true only under type-id ∧ text equality and otherwise exactly errors.Is(wrapped, target) (IS)."
	const rel = "protocol/thrift"
	// the constructors keep the type id and the text they are given, and looking at an exception changes nothing
	for _, n := range []string{"NewApplicationException", "NewTransportException", "NewProtocolException"} {
		ctor := P.Func(rel, n)
		if !r.require("thrift."+n, ctor != nil && len(ctor.Params) == 2) {
			continue
		}
		r.Funcs[shortName(ctor)] = true
		for fi, field := range []string{"t", "m"} {
			vals := fieldInits(ctor, field, 0)
			ok := len(vals) > 0
			for _, v := range vals {
				if v != ssa.Value(ctor.Params[fi]) {
					ok = false
				}
			}
			r.add("PREPEND", shortName(ctor), "ctor", "the constructor stores its argument "+ctor.Params[fi].Name()+" unchanged in field "+field, P.pos(ctor.Pos()), ok, "")
		}
	}
	for _, m := range []struct{ typ, name string }{{"ApplicationException", "Error"}, {"ApplicationException", "Msg"}, {"ApplicationException", "TypeId"}, {"ApplicationException", "TypeID"}, {"ApplicationException", "String"}, {"ProtocolException", "Unwrap"}, {"ProtocolException", "Is"}} {
		mf := P.Method(rel, m.typ, m.name)
		if mf == nil {
			continue
		}
		r.Funcs[shortName(mf)] = true
		bad := ""
		for _, e := range globalEffects.of(mf) {
			if strings.HasPrefix(e.Key, "P:") || strings.HasPrefix(e.Key, "G:") || strings.HasPrefix(e.Key, "?") {
				bad = "writes " + e.Key + " at " + P.pos(instrPos(e.In))
			}
		}
		r.add("IS", shortName(mf), "pure", "looking at an exception (its text, type id, cause, a comparison) changes nothing", P.pos(mf.Pos()), bad == "", bad)
	}
	fn := P.Func(rel, "PrependError")
	if r.require("thrift.PrependError", fn != nil) {
		prepend, errp := ssa.Value(fn.Params[0]), ssa.Value(fn.Params[1])
		var asserts []*ssa.TypeAssert
		for _, b := range fn.Blocks {
			for _, in := range b.Instrs {
				if ta, ok := in.(*ssa.TypeAssert); ok {
					asserts = append(asserts, ta)
					r.add("PREPEND", shortName(fn), "assert", "assertion is on the error argument, comma-ok", P.pos(instrPos(ta)), ta.X == errp && ta.CommaOk, "")
				}
			}
		}
		kinds := map[string]string{"TransportException": "NewTransportException", "ProtocolException": "NewProtocolException", "ApplicationException": "NewApplicationException"}
		seenKinds := map[string]bool{}
		var ifaceAssert *ssa.TypeAssert
		okVal := func(ta *ssa.TypeAssert, idx int) ssa.Value {
			for _, ref := range *ta.Referrers() {
				if ex, ok := ref.(*ssa.Extract); ok && ex.Index == idx {
					return ex
				}
			}
			return nil
		}
		var concreteOKs []ssa.Value
		for _, ta := range asserts {
			tname := ""
			if pt, ok := ta.AssertedType.(*types.Pointer); ok {
				if n, ok := pt.Elem().(*types.Named); ok {
					tname = n.Obj().Name()
				}
			}
			val, okv := okVal(ta, 0), okVal(ta, 1)
			if tname == "" {
				ifaceAssert = ta
				continue
			}
			ctor := kinds[tname]
			seenKinds[tname] = true
			concreteOKs = append(concreteOKs, okv)
			// find the return guarded by okv == true
			found := false
			good := false
			detail := ""
			for _, ret := range returnsOf(fn) {
				if okv == nil || !guardedBy(ret, okv, true) {
					continue
				}
				// innermost: not guarded by a later assertion
				tA, mA, built := excBuilt(ret.Results[0], tname, ctor)
				if !built || mA == nil {
					if found {
						continue
					}
					detail = "success branch does not return " + ctor + "(…)"
					found = true
					continue
				}
				found = true
				a, b, isCat := strConcat(mA)
				good = typeIDOf(tA, val) && isCat && a == prepend && errorTextOf(b, errp, val)
				if !good {
					detail = "arguments must be (asserted.TypeID(), prepend + asserted.Error())"
				} else {
					detail = ""
				}
				break
			}
			r.add("PREPEND", shortName(fn), "branch", "*"+tname+" ⇒ "+ctor+"(t.TypeID(), prepend+t.Error())", P.pos(instrPos(ta)), found && good, detail)
		}
		for k := range kinds {
			if !seenKinds[k] {
				// a kind without a branch of its own is fine when the interface branch catches it and builds the same kind
				shared := false
				if ifaceAssert != nil && kinds[k] == "NewApplicationException" {
					if tp := P.tpkg(rel); tp != nil {
						if obj := tp.Types.Scope().Lookup(k); obj != nil {
							if it, isI := ifaceAssert.AssertedType.Underlying().(*types.Interface); isI && types.Implements(types.NewPointer(obj.Type()), it) {
								shared = true
							}
						}
					}
				}
				r.add("PREPEND", shortName(fn), "branch", "*"+k+" has its own branch or shares the branch of its kind", P.pos(fn.Pos()), shared, "no type assertion to *"+k)
			}
		}
		if ifaceAssert != nil {
			val, okv := okVal(ifaceAssert, 0), okVal(ifaceAssert, 1)
			after := true
			for _, o := range concreteOKs {
				if o == nil || !guardedBy(ifaceAssert, o, false) {
					after = false
				}
			}
			good := false
			for _, ret := range returnsOf(fn) {
				if okv != nil && guardedBy(ret, okv, true) {
					if tA, mA, built := excBuilt(ret.Results[0], "ApplicationException", "NewApplicationException"); built && mA != nil {
						a, b, isCat := strConcat(mA)
						good = typeIDOf(tA, val) && isCat && a == prepend && errorTextOf(b, errp, val)
					}
				}
			}
			r.add("PREPEND", shortName(fn), "branch", "TypeId interface consulted only after the concrete assertions failed", P.pos(instrPos(ifaceAssert)), after, "")
			r.add("PREPEND", shortName(fn), "branch", "foreign exception ⇒ NewApplicationException(t.TypeId(), prepend+t.Error())", P.pos(instrPos(ifaceAssert)), good, "")
		} else {
			r.add("PREPEND", shortName(fn), "branch", "foreign exception with TypeId ⇒ application exception", P.pos(fn.Pos()), false, "no interface assertion")
		}
		// fall-through
		good := false
		for _, ret := range returnsOf(fn) {
			if c := staticCallNamed(stripIface(ret.Results[0]), "New"); c != nil && fnPkgPath(c.Common().StaticCallee()) == "errors" {
				a, b, isCat := strConcat(c.Common().Args[0])
				allFailed := true
				for _, ta := range asserts {
					if o := okVal(ta, 1); o == nil || !guardedBy(ret, o, false) {
						allFailed = false
					}
				}
				good = isCat && a == prepend && errorTextOf(b, errp, nil) && allFailed
			}
		}
		r.add("PREPEND", shortName(fn), "return", "plain error ⇒ errors.New(prepend+err.Error()) after all assertions failed", P.pos(fn.Pos()), good, "")
		// no other way out: every result is a freshly built error (one of the branches above)
		stray := ""
		for _, ret := range returnsOf(fn) {
			v := stripIface(ret.Results[0])
			var srcs []ssa.Value
			if ph, isPhi := v.(*ssa.Phi); isPhi {
				for _, e := range ph.Edges {
					srcs = append(srcs, stripIface(e))
				}
			} else {
				srcs = []ssa.Value{v}
			}
			for _, sv := range srcs {
				c := asCall(sv)
				if al, isAl := sv.(*ssa.Alloc); isAl && strings.HasSuffix(deref(al.Type()).String(), "Exception") {
					continue // a composite literal of one of the exception kinds (its fields are checked by the branch rules)
				}
				if c == nil || c.Common().StaticCallee() == nil || !strings.HasPrefix(c.Common().StaticCallee().Name(), "New") {
					stray = "the return at " + P.pos(instrPos(ret)) + " hands back something that is not built by one of the branches (e.g. the argument itself, without the prefix)"
				}
			}
		}
		r.add("PREPEND", shortName(fn), "return", "every result is built by one of the branches: the prefix is never dropped", P.pos(fn.Pos()), stray == "", stray)
	}
	wrapHelperRule(P, r, rel)
	if fn := P.Method(rel, "ProtocolException", "Unwrap"); r.require("ProtocolException.Unwrap", fn != nil) {
		ok := false
		if ret := singleReturn(fn); ret != nil {
			if ld, isLd := ret.Results[0].(*ssa.UnOp); isLd && ld.Op == token.MUL && pathOf(ld.X) == "P:"+fn.Params[0].Name()+".err" {
				ok = true
			}
		}
		r.add("WRAP", shortName(fn), "return", "Unwrap returns the wrapped-cause field", P.pos(fn.Pos()), ok, "")
	}
	if fn := P.Method(rel, "ProtocolException", "Is"); r.require("ProtocolException.Is", fn != nil) {
		recv, target := ssa.Value(fn.Params[0]), ssa.Value(fn.Params[1])
		trueOK, elseOK := false, false
		detail := ""
		trueOK, detail = isTrueOnlyUnderEquality(fn, 0)
		for _, rc := range retCases(fn) {
			v := rc.results[0]
			if c := staticCallNamed(v, "Is"); c != nil && fnPkgPath(c.Common().StaticCallee()) == "errors" {
				ld, isLd := c.Common().Args[0].(*ssa.UnOp)
				if isLd && pathOf(ld.X) == "P:"+recv.Name()+".err" && c.Common().Args[1] == target {
					elseOK = true
				}
			}
		}
		r.add("IS", shortName(fn), "return", "true only under (type id ∧ error text) equality", P.pos(fn.Pos()), trueOK, detail)
		r.add("IS", shortName(fn), "return", "otherwise exactly errors.Is(wrapped cause, target)", P.pos(fn.Pos()), elseOK, "")
	}
}

func init() {
	register("C18", "other", checkC18)
	register("C19", "other", checkC19)
	register("C20", "proof", checkC20)
}

// excBuilt: v is a freshly built exception of the given kind — a call of its constructor or a composite
// literal / new object whose type-id (int32) and message (string) fields are stored before use. It returns
// the two values (nil message = the empty string of the zero value).
func excBuilt(v ssa.Value, kind, ctor string) (tArg, mArg ssa.Value, ok bool) {
	v = stripIface(v)
	if c := staticCallNamed(v, ctor); c != nil && len(c.Common().Args) >= 2 {
		return c.Common().Args[0], c.Common().Args[1], true
	}
	al, isAl := v.(*ssa.Alloc)
	if !isAl || !typeIsPtrTo(al.Type(), kind) || al.Referrers() == nil {
		return nil, nil, false
	}
	for _, rf := range *al.Referrers() {
		fa, isFA := rf.(*ssa.FieldAddr)
		if !isFA || fa.Referrers() == nil {
			continue
		}
		for _, r2 := range *fa.Referrers() {
			st, isSt := r2.(*ssa.Store)
			if !isSt || st.Addr != ssa.Value(fa) {
				continue
			}
			if b, isB := st.Val.Type().Underlying().(*types.Basic); isB {
				switch b.Kind() {
				case types.Int32:
					tArg = st.Val
				case types.String:
					mArg = st.Val
				}
			}
		}
	}
	return tArg, mArg, tArg != nil
}

// wrapHelperRule: NewProtocolExceptionWithErr returns a *ProtocolException
// argument itself and wraps everything else keeping the argument as the cause
// (shared by C18 and C17: the stream reader's errors all pass through it).
func wrapHelperRule(P *Program, r *Result, rel string) {
	// WRAP
	if fn := P.Func(rel, "NewProtocolExceptionWithErr"); r.require("thrift.NewProtocolExceptionWithErr", fn != nil) {
		errp := ssa.Value(fn.Params[0])
		var ta *ssa.TypeAssert
		for _, b := range fn.Blocks {
			for _, in := range b.Instrs {
				if x, ok := in.(*ssa.TypeAssert); ok && x.X == errp && x.CommaOk && typeIsPtrTo(x.AssertedType, "ProtocolException") {
					ta = x
				}
			}
		}
		idOK, wrapOK := false, false
		allWrap, nOther := true, 0
		detail := ""
		if ta == nil {
			detail = "no direct comma-ok assertion of the argument to *ProtocolException"
		} else {
			var val, okv ssa.Value
			for _, ref := range *ta.Referrers() {
				if ex, ok := ref.(*ssa.Extract); ok {
					if ex.Index == 0 {
						val = ex
					} else {
						okv = ex
					}
				}
			}
			for _, rc := range retCases(fn) {
				ret := rc.ret
				res0 := rc.results[0]
				if res0 == val && okv != nil && caseGuardedBy(rc, okv, true) {
					idOK = true
				}
				if okv != nil && caseGuardedBy(rc, okv, false) {
					// new exception whose err field holds the argument — on every such way out
					nOther++
					wrapOK = false
					var obj ssa.Value
					if c := staticCallNamed(res0, "NewProtocolException"); c != nil {
						obj = c
					} else if al, isAl := res0.(*ssa.Alloc); isAl && typeIsPtrTo(al.Type(), "ProtocolException") {
						obj = al
					}
					if obj != nil && obj.Referrers() != nil {
						for _, ref := range *obj.Referrers() {
							if fa, ok := ref.(*ssa.FieldAddr); ok {
								st := deref(fa.X.Type()).Underlying().(*types.Struct)
								if st != nil && canonFieldName(fa.X.Type(), fa.Field) == "err" {
									for _, r2 := range *fa.Referrers() {
										if s, ok := r2.(*ssa.Store); ok && s.Val == errp && instrDominates(s, rc.at) {
											wrapOK = true
										}
									}
								}
							}
						}
					}
					if !wrapOK {
						allWrap = false
						detail = "the return at " + P.pos(instrPos(ret)) + " builds a protocol exception that does not carry the argument as its cause"
					}
				}
			}
			wrapOK = allWrap && nOther > 0
		}
		r.add("WRAP", shortName(fn), "return", "identity on errors that already are *ProtocolException", P.pos(fn.Pos()), idOK, detail)
		r.add("WRAP", shortName(fn), "return", "otherwise the argument is stored in the wrapped-cause field of a new protocol exception", P.pos(fn.Pos()), wrapOK, detail)
	}
}

// isTrueOnlyUnderEquality: every way fn (a method with the receiver first and the
// target error second) can yield true implies TypeId() == recv.t and Error() ==
// recv.m for the target; boolean helpers on the same receiver are followed.
func isTrueOnlyUnderEquality(fn *ssa.Function, depth int) (bool, string) {
	if fn == nil || fn.Blocks == nil || depth > 2 || len(fn.Params) < 2 {
		return false, "not understood"
	}
	recv := fn.Params[0]
	classify := func(bo *ssa.BinOp) (id, txt bool) {
		for _, pair := range [][2]ssa.Value{{bo.X, bo.Y}, {bo.Y, bo.X}} {
			c := asCall(pair[0])
			ld, isLd := pair[1].(*ssa.UnOp)
			if c == nil || !c.Common().IsInvoke() || !isLd {
				continue
			}
			p := pathOf(ld.X)
			if !strings.HasPrefix(p, "P:"+recv.Name()+".") {
				continue
			}
			if c.Common().Method.Name() == "TypeId" && strings.HasSuffix(p, ".t") {
				id = true
			}
			if c.Common().Method.Name() == "Error" && strings.HasSuffix(p, ".m") {
				txt = true
			}
		}
		return
	}
	any := false
	for _, rc := range retCases(fn) {
		v := rc.results[0]
		idEq, txtEq := false, false
		note := func(c ssa.Value, truth bool) {
			if bo, ok := c.(*ssa.BinOp); ok && ((bo.Op == token.EQL && truth) || (bo.Op == token.NEQ && !truth)) {
				i, t := classify(bo)
				idEq = idEq || i
				txtEq = txtEq || t
			}
			// the result of a boolean helper on the same receiver and target
			if cc, ok := c.(*ssa.Call); ok && truth {
				cal := cc.Common().StaticCallee()
				if cal != nil && cal != fn && inRepo(cal) && len(cc.Common().Args) >= 2 && cc.Common().Args[0] == ssa.Value(recv) && cc.Common().Args[1] == ssa.Value(fn.Params[1]) {
					if ok2, _ := isTrueOnlyUnderEquality(cal, depth+1); ok2 {
						idEq, txtEq = true, true
					}
				}
			}
		}
		for _, dc := range caseConds(rc) {
			note(dc.Cond, dc.Truth)
		}
		switch x := v.(type) {
		case *ssa.Const:
			if x.Value == nil || !constant.BoolVal(x.Value) {
				continue // a false result needs no justification
			}
		case *ssa.BinOp:
			// "target == nil" where nothing is wrapped is errors.Is(nil, target) spelled out: the delegation clause
			if (x.Op == token.EQL || x.Op == token.NEQ) && (isNilConst(x.X) || isNilConst(x.Y)) {
				tv := x.X
				if isNilConst(tv) {
					tv = x.Y
				}
				if tv == ssa.Value(fn.Params[1]) {
					wrappedNil := false
					for _, dc := range caseConds(rc) {
						if bo, ok := dc.Cond.(*ssa.BinOp); ok && (isNilConst(bo.X) || isNilConst(bo.Y)) && (bo.Op == token.EQL) == dc.Truth {
							cv := bo.X
							if isNilConst(cv) {
								cv = bo.Y
							}
							if ld, isLd := cv.(*ssa.UnOp); isLd && ld.Op == token.MUL && strings.HasPrefix(pathOf(ld.X), "P:"+recv.Name()+".") && isErrorType(ld.Type()) {
								wrappedNil = true
							}
						}
					}
					if wrappedNil {
						continue
					}
				}
			}
			note(x, true)
		case *ssa.Phi:
			// a && b compiled to a value: every operand that can make it true counts
			for _, dc := range condImplies(x, true, 0) {
				note(dc.Cond, dc.Truth)
			}
		case *ssa.Call:
			cal := x.Common().StaticCallee()
			if cal != nil && cal != fn && len(x.Common().Args) >= 2 && x.Common().Args[0] == ssa.Value(recv) && x.Common().Args[1] == ssa.Value(fn.Params[1]) && inRepo(cal) {
				if ok, _ := isTrueOnlyUnderEquality(cal, depth+1); ok {
					idEq, txtEq = true, true
				}
			} else {
				continue // e.g. errors.Is(cause, target): judged by the other obligation
			}
		default:
			continue
		}
		any = true
		if !(idEq && txtEq) {
			return false, "the 'true' result must be guarded by TypeId()==e.t and Error()==e.m"
		}
	}
	// a test of a boolean helper's result that leads to `return true`
	if !any {
		return false, "no path yields true under the equality conditions"
	}
	return true, ""
}

// isWrappedValue: v is the interface value the transport wraps (its embedded
// io.ReadWriter field read from the receiver, or the parameter it was handed as).
func isWrappedValue(fn *ssa.Function, v ssa.Value, handedOff bool) bool {
	if len(fn.Params) == 0 {
		return false
	}
	if handedOff {
		return v == ssa.Value(fn.Params[0])
	}
	isEmbedded := func(st types.Type, i int) bool {
		if p, ok := st.Underlying().(*types.Pointer); ok {
			st = p.Elem()
		}
		s, ok := st.Underlying().(*types.Struct)
		if !ok || i >= s.NumFields() || !types.IsInterface(s.Field(i).Type()) {
			return false
		}
		// the embedded interface, or — when the type embeds none — the field that holds an io.ReadWriter
		if s.Field(i).Embedded() {
			return true
		}
		for k := 0; k < s.NumFields(); k++ {
			if s.Field(k).Embedded() && types.IsInterface(s.Field(k).Type()) {
				return false
			}
		}
		if n, ok := s.Field(i).Type().(*types.Named); ok && n.Obj().Pkg() != nil {
			return n.Obj().Pkg().Path() == "io" && n.Obj().Name() == "ReadWriter"
		}
		return false
	}
	switch x := v.(type) {
	case *ssa.Field:
		return x.X == ssa.Value(fn.Params[0]) && isEmbedded(x.X.Type(), x.Field)
	case *ssa.UnOp:
		fa, ok := x.X.(*ssa.FieldAddr)
		if !ok || x.Op != token.MUL || !isEmbedded(fa.X.Type(), fa.Field) {
			return false
		}
		if fa.X == ssa.Value(fn.Params[0]) {
			return true
		}
		// a value receiver spilled to a local
		if al, ok := fa.X.(*ssa.Alloc); ok {
			n, fromParam := 0, false
			for _, u := range *al.Referrers() {
				if st, ok := u.(*ssa.Store); ok && st.Addr == ssa.Value(al) {
					n++
					fromParam = st.Val == ssa.Value(fn.Params[0])
				}
			}
			return n == 1 && fromParam
		}
	}
	return false
}

// recvStructField: v is field number fi read from the (value or pointer) receiver of fn.
func recvStructField(fn *ssa.Function, v ssa.Value) (int, bool) {
	if len(fn.Params) == 0 {
		return 0, false
	}
	fromRecv := func(x ssa.Value) bool {
		if x == ssa.Value(fn.Params[0]) {
			return true
		}
		if al, ok := x.(*ssa.Alloc); ok {
			return spilledParam(al) == fn.Params[0]
		}
		return false
	}
	switch x := v.(type) {
	case *ssa.Field:
		if fromRecv(x.X) {
			return x.Field, true
		}
	case *ssa.UnOp:
		if fa, ok := x.X.(*ssa.FieldAddr); ok && x.Op == token.MUL && fromRecv(fa.X) {
			return fa.Field, true
		}
	}
	return 0, false
}

// cachedAssertion: field fi of fn's receiver type is only ever set — in the same
// block as the embedded interface field of the same object, hence whenever that
// one is set — to the comma-ok type assertion of the very value stored there.
func cachedAssertion(P *Program, fn *ssa.Function, fi int) bool {
	rt := fn.Params[0].Type()
	if p, ok := rt.Underlying().(*types.Pointer); ok {
		rt = p.Elem()
	}
	st, ok := rt.Underlying().(*types.Struct)
	if !ok {
		return false
	}
	emb := -1
	for i := 0; i < st.NumFields(); i++ {
		if st.Field(i).Embedded() && types.IsInterface(st.Field(i).Type()) {
			emb = i
		}
	}
	if emb < 0 || emb == fi {
		return false
	}
	n := 0
	for _, f := range repoFuncs(P) {
		for _, b := range f.Blocks {
			for _, in := range b.Instrs {
				s, ok := in.(*ssa.Store)
				if !ok {
					continue
				}
				fa, ok := s.Addr.(*ssa.FieldAddr)
				if !ok || fa.Field != fi {
					continue
				}
				pt, ok := fa.X.Type().Underlying().(*types.Pointer)
				if !ok || !types.Identical(pt.Elem(), rt) {
					continue
				}
				n++
				ex, ok := s.Val.(*ssa.Extract)
				if !ok || ex.Index != 0 {
					return false
				}
				ta, ok := ex.Tuple.(*ssa.TypeAssert)
				if !ok || !ta.CommaOk {
					return false
				}
				// the embedded field of the same object gets the asserted value, in this block
				same := false
				for _, in2 := range b.Instrs {
					if s2, ok := in2.(*ssa.Store); ok {
						if fa2, ok := s2.Addr.(*ssa.FieldAddr); ok && fa2.X == fa.X && fa2.Field == emb && s2.Val == ta.X {
							same = true
						}
					}
				}
				if !same {
					return false
				}
			}
		}
	}
	return n > 0
}
