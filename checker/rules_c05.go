package main

// C05 — buffered writer: regions are consecutive, growth parks the old buffer,
// Flush stitches and writes exactly once, errors stick.

import (
	"fmt"
	"go/token"
	"go/types"
	"strings"

	"golang.org/x/tools/go/ssa"
)

func writerMethods(P *Program, r *Result) map[string]*ssa.Function {
	out := map[string]*ssa.Function{}
	for _, n := range []string{"Malloc", "WriteBinary", "WrittenLen", "Flush"} {
		f := P.Method(relBufiox, "DefaultWriter", n)
		if r.require("bufiox.DefaultWriter."+n, f != nil) {
			out[n] = f
		}
	}
	return out
}

func ioWriteCalls(fn *ssa.Function) []*ssa.Call {
	var out []*ssa.Call
	for _, c := range callsIn(fn) {
		if cc, ok := c.(*ssa.Call); ok && isInvokeOf(c, "Write") {
			sig := cc.Common().Signature()
			if sig.Params().Len() == 1 && isByteSlice(sig.Params().At(0).Type()) {
				out = append(out, cc)
			}
		}
	}
	return out
}

func inLoop(b *ssa.BasicBlock) bool {
	// b is in a cycle iff it can reach itself
	seen := map[*ssa.BasicBlock]bool{}
	var walk func(x *ssa.BasicBlock) bool
	walk = func(x *ssa.BasicBlock) bool {
		for _, s := range x.Succs {
			if s == b {
				return true
			}
			if !seen[s] {
				seen[s] = true
				if walk(s) {
					return true
				}
			}
		}
		return false
	}
	return walk(b)
}

// externalAllocFacts: summaries of the allocator entry points (checked against
// the dependency sources in the thorough tier).
func (fa *FA) externalAllocFacts(c *ssa.Call) {
	A := fa.A
	cal := c.Common().StaticCallee()
	if cal == nil {
		return
	}
	args := c.Common().Args
	l := linAtom(fa.lenAtom(c, aLen))
	cp := linAtom(fa.lenAtom(c, aCap))
	la := A.at(fa.lenAtom(c, aLen))
	switch {
	case fnPkgPath(cal) == pkgMcache && cal.Name() == "Malloc":
		size := fa.expand(args[0])
		la.Facts = append(la.Facts, ineqLE(l, size), ineqLE(size, l), ineqLE(size, cp))
		if cv := mallocCapArg(c); cv != nil {
			A.at(fa.lenAtom(c, aCap)).Facts = append(A.at(fa.lenAtom(c, aCap)).Facts, ineqLE(fa.expand(cv), cp))
		}
	case fnPkgPath(cal) == pkgDirtmake && cal.Name() == "Bytes":
		ln, cpv := fa.expand(args[0]), fa.expand(args[1])
		la.Facts = append(la.Facts, ineqLE(l, ln), ineqLE(ln, l))
		A.at(fa.lenAtom(c, aCap)).Facts = append(A.at(fa.lenAtom(c, aCap)).Facts, ineqLE(cp, cpv), ineqLE(cpv, cp))
	default:
		// a thin wrapper: every return hands back an allocator call on the wrapper's own parameters
		if li, ci, ok := allocWrapper(cal, 0); ok {
			size := fa.expand(args[li])
			la.Facts = append(la.Facts, ineqLE(l, size), ineqLE(size, l), ineqLE(size, cp))
			if ci >= 0 {
				A.at(fa.lenAtom(c, aCap)).Facts = append(A.at(fa.lenAtom(c, aCap)).Facts, ineqLE(fa.expand(args[ci]), cp))
			}
		}
	}
}

// allocWrapper recognises a repository function all of whose returns are direct
// calls of mcache.Malloc / dirtmake.Bytes (or of another such wrapper) on its own
// parameters; it reports which parameter is the length and which the capacity
// lower bound (-1 if none is common to all returns).
func allocWrapper(fn *ssa.Function, depth int) (lenIdx, capIdx int, ok bool) {
	if fn == nil || fn.Blocks == nil || depth > 2 || !inRepo(fn) {
		return 0, 0, false
	}
	rets := returnsOf(fn)
	if len(rets) == 0 || len(rets[0].Results) != 1 {
		return 0, 0, false
	}
	paramIdx := func(v ssa.Value) int {
		for i, p := range fn.Params {
			if ssa.Value(p) == v {
				return i
			}
		}
		return -1
	}
	lenIdx, capIdx = -2, -2
	for _, ret := range rets {
		c := asCall(ret.Results[0])
		if c == nil {
			return 0, 0, false
		}
		cal := c.Common().StaticCallee()
		args := c.Common().Args
		li, ci := -1, -1
		switch {
		case cal != nil && fnPkgPath(cal) == pkgMcache && cal.Name() == "Malloc":
			li = paramIdx(args[0])
			if cv := mallocCapArg(c); cv != nil {
				ci = paramIdx(cv)
			}
		case cal != nil && fnPkgPath(cal) == pkgDirtmake && cal.Name() == "Bytes":
			li, ci = paramIdx(args[0]), paramIdx(args[1])
		default:
			wl, wc, wok := allocWrapper(cal, depth+1)
			if !wok {
				return 0, 0, false
			}
			li = paramIdx(args[wl])
			if wc >= 0 {
				ci = paramIdx(args[wc])
			}
		}
		if li < 0 {
			return 0, 0, false
		}
		if lenIdx == -2 {
			lenIdx, capIdx = li, ci
		} else {
			if lenIdx != li {
				return 0, 0, false
			}
			if capIdx != ci {
				capIdx = -1
			}
		}
	}
	return lenIdx, capIdx, true
}

func checkC05(P *Program, r *Result, tier string) {
	r.Explanation = "Rules on bufiox.DefaultWriter (embedded by BytesWriter), decided with memory-versioned receiver fields and linear facts: " +
		"CURSOR (Malloc returns buf[len:len+n] and extends by n; WriteBinary copies into buf[len:cap] and extends by the copied count; WrittenLen = len(buf)), " +
		"ROOM (acquire leaves len+n ≤ cap on every path), GROW (a replaced non-empty buffer keeps its length and is parked for Flush on every path — never copied eagerly, regions may be filled later), " +
		"STITCH (Flush copies every parked buffer to the same offset, advancing by the copied count, before the sink call), " +
		"ONCE (no sink call outside Flush; a single one, not in a loop, on the whole buffer, followed by buf = pendingBuf = nil on success), STICKY (w.err tested first and returned; a sink error is stored), PUBLISH (the bytes-backed sink publishes exactly its argument)."
	ms := writerMethods(P, r)
	if len(r.Fatal) > 0 {
		return
	}
	A := newAnalysis(P)
	inBufiox := func(f *ssa.Function) bool { return fnPkgPath(f) != modPath+"/"+relBufiox }
	scope := P.reachable([]*ssa.Function{ms["Malloc"], ms["WriteBinary"], ms["WrittenLen"], ms["Flush"]}, inBufiox)
	for _, f := range scope {
		r.Funcs[shortName(f)] = true
	}
	// the acquire routines: reachable from Malloc, take an int, store to buf
	var acquires []*ssa.Function
	for _, f := range P.reachable([]*ssa.Function{ms["Malloc"]}, inBufiox) {
		if f != ms["Malloc"] && len(f.Params) >= 2 && isInteger(f.Params[1].Type()) && typeIsPtrTo(f.Params[0].Type(), "DefaultWriter") {
			acquires = append(acquires, f)
		}
	}
	r.require("writer acquire routine(s)", len(acquires) > 0)

	// what the acquire routines guarantee (proved below as ROOM: they return with len+n ≤ cap for their own n) is
	// made available where they are called: the buffer as it is right after acquire(k) has room for k more bytes
	roomFacts := func(fa *FA, fn *ssa.Function) {
		key := "P:" + fn.Params[0].Name() + ".buf"
		var carrier ssa.Value
		for _, b := range fn.Blocks {
			for _, in := range b.Instrs {
				if ld, ok := in.(*ssa.UnOp); ok && ld.Op == token.MUL && recvFieldOf(fn, ld.X) == "buf" && carrier == nil {
					carrier = ld
				}
			}
		}
		if carrier == nil {
			return
		}
		for _, c := range callsIn(fn) {
			cc, ok := c.(*ssa.Call)
			if !ok {
				continue
			}
			isAcq := false
			for _, g := range acquires {
				if cc.Common().StaticCallee() == g {
					isAcq = true
				}
			}
			if !isAcq || len(cc.Common().Args) < 2 || cc.Common().Args[0] != ssa.Value(fn.Params[0]) {
				continue
			}
			blk := cc.Block()
			idx := instrIndex(cc)
			if idx+1 >= len(blk.Instrs) {
				continue
			}
			ver := fa.mem.versionAt(blk.Instrs[idx+1], key)
			if ver == nil || ver.Kind != mClobber {
				continue
			}
			d := fa.cellSlice(ver, carrier)
			if d == nil || d.Cap == nil {
				continue
			}
			if id, isAtom := singleAtom(d.Cap); isAtom {
				a := fa.A.at(id)
				room := ineqLE(d.Len.add(fa.expand(cc.Common().Args[1])), d.Cap)
				if ei := errIndex(cc.Common().StaticCallee()); ei >= 0 {
					// only where the routine reported no error
					if ev := resultValue(cc, ei); ev != nil {
						fa.A.addTrig(a, fa.A.newTrigger("room-if-nil", []*Lin{ineqLE(fa.nilExpand(ev), linConst(0))}, []*Lin{room}))
					}
				} else {
					a.Facts = append(a.Facts, room)
				}
			}
		}
	}
	// ---- CURSOR ----
	if fn := ms["Malloc"]; fn != nil {
		fa := A.fa(fn)
		n := fa.expand(fn.Params[1])
		nSucc := 0
		for _, rc := range retCasesErr(fn) {
			// a way out that is not known to report an error is a success: every merged exit is split per incoming edge
			if success, known := caseSuccess(rc); known && !success {
				continue
			} else if !known && fa.prove(ineqGE(fa.nilExpand(rc.results[len(rc.results)-1]), linConst(1)), rc.at.Block(), rootCtx) {
				continue
			}
			nSucc++
			ret, res, at, blk := rc.ret, rc.results, rc.at, rc.at.Block()
			_ = at
			d := fa.sliceDesc(res[0])
			// the buffer as it was right after acquire = the base of the returned slice
			ok := d != nil && d.Root != nil && isLoadOfField(fn, d.Root, "buf")
			var base *SliceDesc
			if ok {
				base = fa.sliceDesc(d.Root)
				ok = fa.proveEq(d.Off, base.Len, blk) && fa.proveEq(d.Len, n, blk)
			}
			r.add("CURSOR", shortName(fn), "return", "region is buf[len : len+n]", P.pos(instrPos(ret)), ok, "")
			ext := false
			if base != nil {
				if cur := cellSliceAt(fa, at, "buf"); cur != nil {
					ext = fa.proveEq(cur.Len, base.Len.add(n), blk) && fa.proveEq(cur.Off, base.Off, blk)
					if cur.Root != base.Root {
						// same backing buffer: the store re-slices a load of the same version
						ext = ext && isLoadOfField(fn, cur.Root, "buf")
					}
				}
			}
			r.add("CURSOR", shortName(fn), "return", "buffer extended by exactly n (next region starts where this one ends)", P.pos(instrPos(ret)), ext, "")
		}
		r.require("Malloc: a way out that can succeed", nSucc > 0)
	}
	if fn := ms["WriteBinary"]; fn != nil {
		fa := A.fa(fn)
		roomFacts(fa, fn)
		bs := fa.sliceDesc(fn.Params[1])
		nSucc := 0
		for _, rc := range retCasesErr(fn) {
			// a way out that is not known to report an error is a success: every merged exit is split per incoming edge
			if success, known := caseSuccess(rc); known && !success {
				continue
			} else if !known && fa.prove(ineqGE(fa.nilExpand(rc.results[len(rc.results)-1]), linConst(1)), rc.at.Block(), rootCtx) {
				continue
			}
			nSucc++
			ret, res, at, blk := rc.ret, rc.results, rc.at, rc.at.Block()
			_ = at
			cp := builtinCall(res[0], "copy")
			ok := false
			roomDetail := ""
			ext := false
			full := false
			if cp != nil {
				dst, src := fa.sliceDesc(cp.Common().Args[0]), fa.sliceDesc(cp.Common().Args[1])
				if dst != nil && src != nil && dst.Root != nil && isLoadOfField(fn, dst.Root, "buf") && src.Root == ssa.Value(fn.Params[1]) {
					base := fa.sliceDesc(dst.Root)
					// the destination is all the room that is left, or exactly the payload's size (room for it
					// is what the acquire routine guarantees: ROOM)
					ok = fa.proveEq(dst.Off, base.Len, cp.Block()) && fa.proveEq(src.Off, linConst(0), cp.Block()) && fa.proveEq(src.Len, bs.Len, cp.Block()) &&
						(fa.proveEq(dst.Len, base.Cap.sub(base.Len), cp.Block()) || fa.proveEq(dst.Len, bs.Len, cp.Block()))
					// … and the whole payload fits: room for len(bs) was acquired on every way here
					if ok && !fa.prove(ineqLE(bs.Len, base.Cap.sub(base.Len)), cp.Block(), rootCtx) {
						ok = false
						roomDetail = "room for the whole payload is not guaranteed where it is copied (copy would silently truncate)"
					}
					if cur := cellSliceAt(fa, at, "buf"); cur != nil {
						ext = fa.proveEq(cur.Len, base.Len.add(fa.expand(cp)), blk)
					}
					_ = full
				}
			}
			if k, isC := constInt(res[0]); cp == nil && isC && k == 0 {
				// nothing written and 0 reported: exact for an empty payload with the buffer untouched
				key := "P:" + fn.Params[0].Name() + ".buf"
				if fa.prove(ineqLE(bs.Len, linConst(0)), blk, rootCtx) && fa.mem.versionAt(at, key) == fa.mem.entry[key] {
					r.add("CURSOR", shortName(fn), "return", "an empty payload leaves the buffer as it is and reports 0", P.pos(instrPos(ret)), true, "")
					continue
				}
			}
			if cp == nil {
				// the same effect written as an in-place append: buf = append(buf, bs[:n]...) with n ≤ cap−len proved
				for _, st := range storesTo(fn, "buf") {
					ap := builtinCall(st.Val, "append")
					if ap == nil || !instrDominates(st, at) || !isLoadOfField(fn, ap.Common().Args[0], "buf") {
						continue
					}
					base := fa.sliceDesc(ap.Common().Args[0])
					src := fa.sliceDesc(ap.Common().Args[1])
					if base == nil || src == nil || base.Cap == nil || src.Root != ssa.Value(fn.Params[1]) {
						continue
					}
					noRealloc := fa.prove(ineqLE(base.Len.add(src.Len), base.Cap), st.Block(), rootCtx)
					fromStart := fa.proveEq(src.Off, linConst(0), st.Block())
					count := fa.proveEq(fa.expand(res[0]), src.Len, blk)
					// n = min(len(bs), cap−len): either everything, or exactly the room that is left
					full := fa.prove(ineqLE(src.Len, bs.Len), st.Block(), rootCtx)
					// … and it is one of the two, on every way the count is computed
					if id, isAtom := singleAtom(src.Len); isAtom && fa.A.at(id).Phi != nil {
						a := fa.A.at(id)
						for i := range a.Phi.Block.Preds {
							in := a.Phi.In(i)
							if !in.equal(bs.Len) && !in.equal(base.Cap.sub(base.Len)) {
								full = false
							}
						}
					} else if !src.Len.equal(bs.Len) {
						full = false
					}
					ok = noRealloc && fromStart && full
					ext = count
				}
			}
			r.add("CURSOR", shortName(fn), "return", "payload copied into buf[len:cap] from bs[0:]", P.pos(instrPos(ret)), ok, roomDetail)
			r.add("CURSOR", shortName(fn), "return", "buffer extended by exactly the copied count", P.pos(instrPos(ret)), ext, "")
		}
		r.require("WriteBinary: a way out that can succeed", nSucc > 0)
	}
	if fn := ms["WrittenLen"]; fn != nil {
		ok := false
		if ret := singleReturn(fn); ret != nil {
			if l := builtinCall(ret.Results[0], "len"); l != nil && isLoadOfField(fn, l.Common().Args[0], "buf") {
				ok = true
			}
		}
		r.add("CURSOR", shortName(fn), "return", "WrittenLen = len(buf)", P.pos(fn.Pos()), ok, "")
	}

	// ---- ROOM / GROW in the acquire routines ----
	for _, fn := range acquires {
		fa := A.fa(fn)
		for _, c := range callsIn(fn) {
			if cc, ok := c.(*ssa.Call); ok {
				fa.externalAllocFacts(cc)
			}
		}
		n := fa.expand(fn.Params[1])
		key := "P:" + fn.Params[0].Name() + ".buf"
		for _, ret := range returnsOf(fn) {
			// an acquire routine that can refuse (it reports an error) promises room only when it reports none
			if nr := len(ret.Results); nr > 0 && isErrorType(ret.Results[nr-1].Type()) {
				if fa.prove(ineqGE(fa.nilExpand(ret.Results[nr-1]), linConst(1)), ret.Block(), rootCtx) {
					continue
				}
			}
			// one case per way of reaching the return (a join is split into its incoming edges)
			type rcase struct {
				ver  *MemVer
				blk  *ssa.BasicBlock
				ctx  *pctx
				what string
			}
			var cases []rcase
			ver := fa.mem.versionAt(ret, key)
			if ver != nil && ver.Kind == mPhi && ver.Block == ret.Block() {
				for i, p := range ret.Block().Preds {
					e := &edgeFacts{}
					fa.edgeCond(p, ret.Block(), e)
					cases = append(cases, rcase{fa.mem.phiIncoming(ver, i), p, rootCtx.with(e.ineq, e.neq), fmt.Sprintf(" (reached from block %d)", p.Index)})
				}
			} else if len(ret.Block().Preds) > 1 && len(ret.Block().Instrs) == 1 {
				for _, p := range ret.Block().Preds {
					e := &edgeFacts{}
					fa.edgeCond(p, ret.Block(), e)
					cases = append(cases, rcase{ver, p, rootCtx.with(e.ineq, e.neq), fmt.Sprintf(" (reached from block %d)", p.Index)})
				}
			} else {
				cases = append(cases, rcase{ver, ret.Block(), rootCtx, ""})
			}
			for _, rc := range cases {
				// the buffer was last set by another acquire routine called with the same n: its post-condition carries over
				if rc.ver != nil && rc.ver.Kind == mClobber {
					if cc, ok := rc.ver.Instr.(*ssa.Call); ok {
						deleg := false
						for _, a := range acquires {
							if cc.Common().StaticCallee() == a && len(cc.Common().Args) >= 2 && cc.Common().Args[1] == ssa.Value(fn.Params[1]) && cc.Common().Args[0] == ssa.Value(fn.Params[0]) {
								deleg = true
							}
						}
						if deleg {
							r.add("ROOM", shortName(fn), "return", "delegates to the slow path with the same n (its post-condition carries over)", P.pos(instrPos(ret)), true, "")
							continue
						}
					}
				}
				// a routine that never touches the buffer itself and ends on a call of an acquire routine with its own n
				if rc.ver == nil {
					deleg := false
					for _, c := range callsIn(fn) {
						cc, isCall := c.(*ssa.Call)
						if !isCall || !instrDominates(cc, ret) || len(cc.Common().Args) < 2 || cc.Common().Args[1] != ssa.Value(fn.Params[1]) || cc.Common().Args[0] != ssa.Value(fn.Params[0]) {
							continue
						}
						isAcq := false
						for _, a := range acquires {
							if cc.Common().StaticCallee() == a && a != fn {
								isAcq = true
							}
						}
						if !isAcq {
							continue
						}
						later := reachesWithout(cc, ret, func(in ssa.Instruction) bool {
							_, isC := in.(ssa.CallInstruction)
							_, isS := in.(*ssa.Store)
							return isC || isS
						})
						if later {
							deleg = true
						}
					}
					if deleg {
						r.add("ROOM", shortName(fn), "return", "delegates to the slow path with the same n (its post-condition carries over)", P.pos(instrPos(ret)), true, "")
						continue
					}
				}
				var cur *SliceDesc
				if rc.ver != nil && rc.ver.Kind == mStore {
					cur = fa.sliceDesc(rc.ver.Val)
				}
				if rc.ver != nil && cur == nil {
					for _, b := range fn.Blocks {
						for _, x := range b.Instrs {
							if ld, ok := x.(*ssa.UnOp); ok && ld.Op == token.MUL && recvFieldOf(fn, ld.X) == "buf" && cur == nil {
								cur = fa.cellSlice(rc.ver, ld)
							}
						}
					}
				}
				ok := cur != nil && cur.Cap != nil && fa.prove(ineqLE(cur.Len.add(n), cur.Cap), rc.blk, rc.ctx)
				r.add("ROOM", shortName(fn), "return", "len(buf)+n ≤ cap(buf) on return"+rc.what, P.pos(instrPos(ret)), ok, "")
			}
		}
		for _, st := range storesTo(fn, "buf") {
			cur := cellSliceAt(fa, st, "buf")
			if cur == nil {
				continue
			}
			if cur.Cap != nil && fa.prove(ineqLE(cur.Cap, linConst(0)), st.Block(), rootCtx) {
				r.add("GROW", shortName(fn), "store", "first allocation replaces a buffer of capacity 0", P.pos(instrPos(st)), true, "")
				continue
			}
			d := fa.sliceDesc(st.Val)
			keep := d != nil && fa.proveEq(d.Len, cur.Len, st.Block())
			r.add("GROW", shortName(fn), "store", "the replacement keeps the written length", P.pos(instrPos(st)), keep, "")
			// the old buffer is parked on every path: a store pendingBuf = append(pendingBuf, <old buf>) dominates
			parked := false
			for _, ps := range storesTo(fn, "pendingBuf") {
				if !instrDominates(ps, st) {
					// … or the parking follows on every way out (buf installed first, old buffer parked next)
					ps2 := ps
					leak, _ := exitsWithout(st, func(in ssa.Instruction) bool { return in == ssa.Instruction(ps2) })
					if !instrDominates(st, ps) || leak {
						continue
					}
				}
				ap := builtinCall(ps.Val, "append")
				if ap == nil || !isLoadOfField(fn, ap.Common().Args[0], "pendingBuf") {
					continue
				}
				if elem := variadicElem(ap.Common().Args[1]); elem != nil && isLoadOfField(fn, elem, "buf") {
					// the parked value is the buffer being replaced (same memory version)
					key := "P:" + fn.Params[0].Name() + ".buf"
					if fa.mem.versionAt(elem.(ssa.Instruction), key) == fa.mem.versionAt(st, key) {
						parked = true
					}
				}
			}
			r.add("GROW", shortName(fn), "store", "the replaced buffer is parked in pendingBuf on every path (copy delayed to Flush)", P.pos(instrPos(st)), parked, "")
		}
	}

	// ---- ONCE ----
	for _, name := range []string{"Malloc", "WriteBinary", "WrittenLen"} {
		bad := ""
		for _, f := range P.reachable([]*ssa.Function{ms[name]}, inBufiox) {
			if len(ioWriteCalls(f)) > 0 {
				bad = "sink call in " + shortName(f)
			}
		}
		r.add("ONCE", shortName(ms[name]), "calls", "no io.Writer.Write reachable", P.pos(ms[name].Pos()), bad == "", bad)
	}
	if fn := ms["Flush"]; fn != nil {
		fa := A.fa(fn)
		ws := ioWriteCalls(fn)
		for _, f := range P.reachable([]*ssa.Function{fn}, inBufiox) {
			if f != fn && len(ioWriteCalls(f)) > 0 {
				ws = append(ws, ioWriteCalls(f)...)
			}
		}
		one := len(ws) == 1 && ws[0].Parent() == fn && !inLoop(ws[0].Block())
		r.add("ONCE", shortName(fn), "call", "exactly one sink call, not inside a loop", P.pos(fn.Pos()), one, "")
		if len(ws) >= 1 && ws[0].Parent() == fn {
			w := ws[0]
			r.add("ONCE", shortName(fn), "call", "the sink receives the whole buffer", P.pos(instrPos(w)), isLoadOfField(fn, w.Common().Args[0], "buf"), "")
			// success returns after the sink call: buf and pendingBuf are nil
			for _, ret := range returnsOf(fn) {
				if !instrDominates(w, ret) {
					continue
				}
				if c, ok := fa.nilExpand(ret.Results[0]).constVal(); ok && c.Sign() != 0 {
					continue
				} else if !ok && fa.prove(ineqGE(fa.nilExpand(ret.Results[0]), linConst(1)), ret.Block(), rootCtx) {
					continue
				}
				// a single exit shared with the failure path is judged per incoming edge
				for _, rc := range retEdgeCases(ret) {
					if succ, known := caseSuccess(rc); known && !succ {
						continue
					}
					okNil := true
					for _, f := range []string{"buf", "pendingBuf"} {
						key := "P:" + fn.Params[0].Name() + "." + f
						ver := fa.mem.versionAt(ret, key)
						if ver != nil && rc.pred >= 0 && ver.Kind == mPhi && ver.Block == ret.Block() {
							ver = fa.mem.phiIncoming(ver, rc.pred)
						}
						if ver == nil || ver.Kind != mStore || !isNilConst(ver.Val) {
							okNil = false
						}
					}
					r.add("ONCE", shortName(fn), "return", "after a successful flush buf = nil and pendingBuf = nil (nothing can be flushed twice, WrittenLen = 0)", P.pos(instrPos(ret)), okNil, "")
				}
			}
			// a sink error is stored and returned
			ev := resultValue(w, 1)
			stored := false
			if ev != nil {
				for _, st := range storesTo(fn, "err") {
					if st.Val == ev {
						for _, ret := range returnsOf(fn) {
							if ret.Results[0] != ev {
								continue
							}
							all := true
							for _, rc := range retEdgeCases(ret) {
								if succ, known := caseSuccess(rc); known && succ {
									continue // the shared exit, reached without an error
								}
								if !instrDominates(st, rc.at) {
									all = false
								}
							}
							if all {
								stored = true
							}
						}
					}
				}
			}
			r.add("STICKY", shortName(fn), "store", "a sink error is stored in w.err on the path that returns it", P.pos(instrPos(w)), stored, "")
			// STITCH: every copy before the sink call — in Flush itself or in a helper on the same receiver that Flush
			// calls (and that therefore completes) before the sink call
			stitch := false
			detail := "no stitching loop found"
			type place struct {
				f      *ssa.Function
				before func(cp *ssa.Call) bool
			}
			places := []place{{fn, func(cp *ssa.Call) bool { return instrDominatesLoopExit(cp, w) }}}
			for _, c := range callsIn(fn) {
				hc, ok := c.(*ssa.Call)
				cal := c.Common().StaticCallee()
				if !ok || cal == nil || !inRepo(cal) || cal.Blocks == nil || len(c.Common().Args) == 0 || c.Common().Args[0] != ssa.Value(fn.Params[0]) {
					continue
				}
				dom := instrDominates(hc, w)
				places = append(places, place{cal, func(*ssa.Call) bool { return dom }})
			}
			for _, pl := range places {
				f := pl.f
				faF := A.fa(f)
				for _, c := range callsIn(f) {
					cp, ok := c.(*ssa.Call)
					if !ok || builtinCall(cp, "copy") == nil {
						continue
					}
					dst, src := faF.sliceDesc(cp.Common().Args[0]), faF.sliceDesc(cp.Common().Args[1])
					if dst == nil || src == nil || !isLoadOfField(f, dst.Root, "buf") {
						continue
					}
					// source: an element of pendingBuf indexed by the range index
					srcOK := false
					if ld, isLd := src.Root.(*ssa.UnOp); isLd && ld.Op == token.MUL {
						if ia, isIA := ld.X.(*ssa.IndexAddr); isIA && isLoadOfField(f, ia.X, "pendingBuf") {
							srcOK = rangeIndexFromZero(ia.Index)
						}
					}
					sameOff := faF.proveEq(dst.Off, src.Off, cp.Block())
					// the offset is a loop phi advanced by exactly the copied count
					adv := false
					if off, isAtom := singleAtom(dst.Off); isAtom {
						a := faF.A.at(off)
						if a.Phi != nil && a.Phi.Block.Dominates(cp.Block()) {
							adv = true
							for i, p := range a.Phi.Block.Preds {
								in := a.Phi.In(i)
								if a.Phi.Block.Dominates(p) {
									if !in.equal(dst.Off.add(faF.expand(cp))) {
										adv = false
									}
								} else if c0, isC := in.constVal(); !isC || c0.Sign() != 0 {
									adv = false
								}
							}
						}
					}
					before := pl.before(cp)
					stitch = srcOK && sameOff && adv && before
					detail = ""
					if !srcOK {
						detail = "source is not pendingBuf[i] for the range index"
					} else if !sameOff {
						detail = "source and destination offsets differ"
					} else if !adv {
						detail = "the offset must start at 0 and advance by exactly the copied count"
					} else if !before {
						detail = "the stitching loop must complete before the sink call"
					}
				}
			}
			r.add("STITCH", shortName(fn), "loop", "parked buffers are copied in order, same offset on both sides, offset += copied, before the sink call", P.pos(fn.Pos()), stitch, detail)
		}
	}

	// ---- STICKY: w.err first ----
	// A test of w.err (as it was on entry) guards every effect of the method, and on its non-nil side the
	// stored error is what is returned — whatever the control-flow shape (if/return, switch, merged tails).
	for _, name := range []string{"Malloc", "WriteBinary", "Flush"} {
		fn := ms[name]
		ok, detail := stickyCore(P, A, fn, nil)
		if !ok {
			// the shared-prologue form: the method starts by calling a helper on the same receiver that does the
			// stored-error test itself, hands back the stored error, and everything else happens only when the
			// helper reported nil
			for _, c := range callsIn(fn) {
				cc, isCall := c.(*ssa.Call)
				cal := c.Common().StaticCallee()
				if !isCall || cal == nil || !inRepo(cal) || cal.Blocks == nil || len(c.Common().Args) == 0 || c.Common().Args[0] != ssa.Value(fn.Params[0]) || cal == fn {
					continue
				}
				ei := errIndex(cal)
				if ei < 0 || len(cal.Params) == 0 {
					continue
				}
				if okH, _ := stickyCore(P, A, cal, nil); !okH {
					continue
				}
				ev := resultValue(cc, ei)
				if ev == nil {
					continue
				}
				clean := true
				for _, b2 := range fn.Blocks {
					for _, in2 := range b2.Instrs {
						if in2 == ssa.Instruction(cc) {
							continue
						}
						effect := false
						switch x := in2.(type) {
						case *ssa.Store:
							if k := pathOf(x.Addr); !privatePath(k) {
								effect = true
							}
						case ssa.CallInstruction:
							if _, isBuiltin := x.Common().Value.(*ssa.Builtin); !isBuiltin {
								effect = true
							}
						}
						if effect && !guardedNil(in2, ev) {
							clean = false
						}
					}
				}
				// on the side where the helper reported an error, that error is what is returned
				retOK := false
				_, neq := nilTests(ev)
				for _, t := range neq {
					for _, rc := range retCases(fn) {
						if guardedBy(rc.at, t, true) {
							retOK = rc.results[len(rc.results)-1] == ev
							if !retOK {
								break
							}
						}
					}
				}
				if clean && retOK {
					ok, detail = true, ""
					r.Funcs[shortName(cal)] = true
				}
			}
		}
		r.add("STICKY", shortName(fn), "entry", "a stored error is returned before any other effect", P.pos(fn.Pos()), ok, detail)
	}

	// ---- PUBLISH ----
	var pubField *ssa.FieldAddr
	if fn := P.Method(relBufiox, P.helperTypeOf(relBufiox, "BytesWriter", "fakedIOWriter"), "Write"); r.require("bufiox: Write of the publishing sink embedded in BytesWriter", fn != nil) {
		pub := false
		for _, b := range fn.Blocks {
			for _, in := range b.Instrs {
				if st, ok := in.(*ssa.Store); ok && st.Val == ssa.Value(fn.Params[1]) {
					// the target is a *[]byte held in a field reached from the sink itself
					if ld, isLd := st.Addr.(*ssa.UnOp); isLd && ld.Op == token.MUL && isPtrToByteSlice(ld.Type()) {
						if fa2, isFA := ld.X.(*ssa.FieldAddr); isFA && strings.HasPrefix(pathOf(fa2), "P:"+fn.Params[0].Name()+".") {
							pub = true
							pubField = fa2
						}
					}
				}
			}
		}
		r.add("PUBLISH", shortName(fn), "store", "the sink of a bytes-backed writer publishes exactly its argument to the target slice", P.pos(fn.Pos()), pub, "")
		retOK := false
		if ret := singleReturn(fn); ret != nil {
			if l := builtinCall(ret.Results[0], "len"); l != nil && l.Common().Args[0] == ssa.Value(fn.Params[1]) && isNilConst(ret.Results[1]) {
				retOK = true
			}
		}
		r.add("PUBLISH", shortName(fn), "return", "reports (len(p), nil)", P.pos(fn.Pos()), retOK, "")
	}
	if fn := P.Func(relBufiox, "NewBytesWriter"); r.require("bufiox.NewBytesWriter", fn != nil) {
		inits := fieldInits(fn, "buf", 0)
		ok := len(inits) > 0
		for _, v := range inits {
			if ld, isLd := v.(*ssa.UnOp); !isLd || ld.Op != token.MUL || ld.X != ssa.Value(fn.Params[0]) {
				ok = false
			}
		}
		r.add("PUBLISH", shortName(fn), "call", "the writer starts from the target slice's current contents (*buf)", P.pos(fn.Pos()), ok, "")
		// every *[]byte field the constructor initialises is the publication target
		finits := ptrByteSliceInits(fn, 0)
		flush := len(finits) > 0 && pubField != nil
		for _, v := range finits {
			if v != ssa.Value(fn.Params[0]) {
				flush = false
			}
		}
		r.add("PUBLISH", shortName(fn), "store", "the publication target is the caller's slice pointer", P.pos(fn.Pos()), flush, "")
	}
	ringRule(P, r, "RING")
	r.assume("mcache.Malloc(size[, cap]) returns len = size, cap ≥ max(size, cap); dirtmake.Bytes(l, c) returns len = l, cap = c (dependency summaries)")
	r.assume("io.Writer.Write does not retain or modify p (io.Writer contract); distinct receiver fields do not alias")
}

// variadicElem returns the single element of a variadic argument built as
// new [1]T; store; slice.
func variadicElem(v ssa.Value) ssa.Value {
	sl, ok := v.(*ssa.Slice)
	if !ok {
		return nil
	}
	al, ok := sl.X.(*ssa.Alloc)
	if !ok {
		return nil
	}
	var elem ssa.Value
	n := 0
	for _, ref := range *al.Referrers() {
		if ia, ok := ref.(*ssa.IndexAddr); ok {
			for _, r2 := range *ia.Referrers() {
				if st, ok := r2.(*ssa.Store); ok && st.Addr == ia {
					elem = st.Val
					n++
				}
			}
		}
	}
	if n == 1 {
		return elem
	}
	return nil
}

// rangeIndexFromZero: v is the index of a range loop (phi from -1 incremented
// by one before use, or phi from 0 incremented after).
func rangeIndexFromZero(v ssa.Value) bool {
	if bo, ok := v.(*ssa.BinOp); ok && bo.Op == token.ADD {
		if ph, isPhi := bo.X.(*ssa.Phi); isPhi {
			if c, isC := bo.Y.(*ssa.Const); isC && c.Value != nil && c.Int64() == 1 {
				for _, e := range ph.Edges {
					if cc, isCC := e.(*ssa.Const); isCC {
						if cc.Int64() != -1 {
							return false
						}
					} else if e != ssa.Value(bo) {
						return false
					}
				}
				return true
			}
		}
	}
	if ph, isPhi := v.(*ssa.Phi); isPhi {
		for _, e := range ph.Edges {
			if cc, isCC := e.(*ssa.Const); isCC {
				if cc.Int64() != 0 {
					return false
				}
			} else if bo, isB := e.(*ssa.BinOp); !isB || bo.Op != token.ADD || bo.X != ssa.Value(ph) {
				return false
			}
		}
		return true
	}
	return false
}

// instrDominatesLoopExit: a (inside a loop) lies in a loop whose header
// dominates b while a's block does not reach b except through the header, i.e.
// the loop containing a is finished before b executes.
func instrDominatesLoopExit(a ssa.Instruction, b ssa.Instruction) bool {
	for h := a.Block(); h != nil; h = h.Idom() {
		isHeader := false
		for _, p := range h.Preds {
			if h.Dominates(p) {
				isHeader = true
			}
		}
		if isHeader && h.Dominates(b.Block()) && !a.Block().Dominates(b.Block()) {
			return true
		}
	}
	return false
}

func init() { register("C05", "other", checkC05) }

// fieldInits lists the values stored into a struct field named field by fn,
// directly or through repository callees (a callee's parameter is translated to
// the caller's argument), whatever the route: field stores, composite literals,
// a reset-style helper.
func isPtrToByteSlice(t types.Type) bool {
	p, ok := t.Underlying().(*types.Pointer)
	return ok && isByteSlice(p.Elem())
}

// ptrByteSliceInits: the values stored into struct fields of type *[]byte by fn and its repository callees.
func ptrByteSliceInits(fn *ssa.Function, depth int) []ssa.Value {
	var out []ssa.Value
	if fn == nil || fn.Blocks == nil || depth > 2 {
		return nil
	}
	for _, b := range fn.Blocks {
		for _, in := range b.Instrs {
			switch x := in.(type) {
			case *ssa.Store:
				if fa, ok := x.Addr.(*ssa.FieldAddr); ok && isPtrToByteSlice(x.Val.Type()) {
					_ = fa
					out = append(out, x.Val)
				}
			case ssa.CallInstruction:
				cal := x.Common().StaticCallee()
				if cal == nil || !inRepo(cal) || cal == fn {
					continue
				}
				for _, v := range ptrByteSliceInits(cal, depth+1) {
					if p, ok := v.(*ssa.Parameter); ok {
						for i, cp := range cal.Params {
							if cp == p && i < len(x.Common().Args) {
								out = append(out, x.Common().Args[i])
							}
						}
						continue
					}
					out = append(out, v)
				}
			}
		}
	}
	return out
}

func fieldInits(fn *ssa.Function, field string, depth int) []ssa.Value {
	var out []ssa.Value
	if fn == nil || fn.Blocks == nil || depth > 2 {
		return nil
	}
	for _, b := range fn.Blocks {
		for _, in := range b.Instrs {
			switch x := in.(type) {
			case *ssa.Store:
				if fa, ok := x.Addr.(*ssa.FieldAddr); ok {
					if st, ok := deref(fa.X.Type()).Underlying().(*types.Struct); ok && st != nil && canonFieldName(fa.X.Type(), fa.Field) == field {
						out = append(out, x.Val)
					}
				}
			case ssa.CallInstruction:
				cal := x.Common().StaticCallee()
				if cal == nil || !inRepo(cal) || cal == fn {
					continue
				}
				for _, v := range fieldInits(cal, field, depth+1) {
					if p, ok := v.(*ssa.Parameter); ok {
						for i, cp := range cal.Params {
							if cp == p && i < len(x.Common().Args) {
								out = append(out, x.Common().Args[i])
							}
						}
						continue
					}
					if _, isConst := v.(*ssa.Const); isConst {
						out = append(out, v)
					}
				}
			}
		}
	}
	return out
}

// ringRule: a fixed-size array field indexed by an integer field of the same
// struct (the reader's and writer's size statistics): the index field keeps the
// object invariant 0 ≤ idx < N — assumed on entry of every method of the type,
// proved at every index expression into the array and at every way out — and
// nothing outside the type's methods writes it. Release and Flush go through
// it, so a stray index is a panic in the middle of either.
func ringRule(P *Program, r *Result, rule string) {
	type ring struct {
		named      *types.Named
		arr, idx   int // field numbers
		n          int64
		idxName    string
		indexSites int
	}
	rings := map[*types.Named]*ring{}
	fns := []*ssa.Function{}
	for _, fn := range repoFuncs(P) {
		if fnPkgPath(fn) == modPath+"/"+relBufiox {
			fns = append(fns, fn)
		}
	}
	structOf := func(v ssa.Value) *types.Named {
		if pt, ok := v.Type().Underlying().(*types.Pointer); ok {
			if n, ok := pt.Elem().(*types.Named); ok {
				if _, isS := n.Underlying().(*types.Struct); isS {
					return n
				}
			}
		}
		return nil
	}
	// discover: &recv.arr[ load(recv.idx) ]
	for _, fn := range fns {
		for _, b := range fn.Blocks {
			for _, in := range b.Instrs {
				ia, ok := in.(*ssa.IndexAddr)
				if !ok {
					continue
				}
				af, ok := ia.X.(*ssa.FieldAddr)
				if !ok {
					continue
				}
				at, ok := deref(af.Type()).Underlying().(*types.Array)
				if !ok {
					continue
				}
				ld, ok := ia.Index.(*ssa.UnOp)
				if !ok || ld.Op != token.MUL {
					continue
				}
				xf, ok := ld.X.(*ssa.FieldAddr)
				if !ok || xf.X != af.X {
					continue
				}
				n := structOf(af.X)
				if n == nil {
					continue
				}
				if rings[n] == nil {
					rings[n] = &ring{named: n, arr: af.Field, idx: xf.Field, n: at.Len(), idxName: n.Underlying().(*types.Struct).Field(xf.Field).Name()}
				}
			}
		}
	}
	if !r.require("bufiox: an array field indexed by an index field (the size statistics ring)", len(rings) > 0) {
		return
	}
	A := newAnalysis(P)
	for _, rg := range rings {
		for _, fn := range fns {
			isMethod := fn.Signature.Recv() != nil && len(fn.Params) > 0 && structOf(fn.Params[0]) == rg.named
			// who writes the index field
			for _, b := range fn.Blocks {
				for _, in := range b.Instrs {
					st, ok := in.(*ssa.Store)
					if !ok {
						continue
					}
					if xf, ok := st.Addr.(*ssa.FieldAddr); ok && xf.Field == rg.idx && structOf(xf.X) == rg.named && !(isMethod && xf.X == ssa.Value(fn.Params[0])) {
						k, isC := constInt(st.Val)
						r.add(rule, shortName(fn), "ring-writer", "the ring index "+rg.idxName+" is set outside its type's methods only to a constant inside the ring", P.pos(instrPos(st)), isC && k >= 0 && k < rg.n, "")
					}
				}
			}
			if !isMethod {
				continue
			}
			r.Funcs[shortName(fn)] = true
			fa := A.fa(fn)
			entry := cellIntEntry(fa, rg.idxName)
			ctx := rootCtx
			if entry != nil {
				ctx = rootCtx.with([]*Lin{ineqGE(entry, linConst(0)), ineqLE(entry, linConst(rg.n-1))}, nil)
			}
			for _, b := range fn.Blocks {
				for _, in := range b.Instrs {
					switch x := in.(type) {
					case *ssa.IndexAddr:
						af, ok := x.X.(*ssa.FieldAddr)
						if !ok || af.Field != rg.arr || af.X != ssa.Value(fn.Params[0]) {
							continue
						}
						rg.indexSites++
						i := fa.expand(x.Index)
						ok = fa.prove(ineqGE(i, linConst(0)), b, ctx) && fa.prove(ineqLE(i, linConst(rg.n-1)), b, ctx)
						r.add(rule, shortName(fn), "ring-index", fmt.Sprintf("the index into the %d-slot ring is inside it (given 0 ≤ %s < %d on entry)", rg.n, rg.idxName, rg.n), P.pos(instrPos(x)), ok, "")
					case *ssa.Return:
						v := cellIntAt(fa, x, rg.idxName)
						if v == nil || entry == nil {
							continue
						}
						ok := fa.prove(ineqGE(v, linConst(0)), b, ctx) && fa.prove(ineqLE(v, linConst(rg.n-1)), b, ctx)
						r.add(rule, shortName(fn), "ring-keep", fmt.Sprintf("0 ≤ %s < %d holds again on the way out", rg.idxName, rg.n), P.pos(instrPos(x)), ok, "")
					}
				}
			}
		}
		r.require("index expressions into the ring", rg.indexSites > 0)
	}
}

// stickyCore: a test of the receiver's err field (as it was on entry) guards every
// effect of fn, and on its non-nil side the stored error is what is returned.
func stickyCore(P *Program, A *Analysis, fn *ssa.Function, _ interface{}) (bool, string) {
	fa := A.fa(fn)
	ok := false
	detail := "no test of the stored error guards the method"
	key := "P:" + fn.Params[0].Name() + ".err"
	for _, b := range fn.Blocks {
		for _, in := range b.Instrs {
			bo, isB := in.(*ssa.BinOp)
			if !isB || (bo.Op != token.NEQ && bo.Op != token.EQL) || !isNilConst(bo.Y) || !isLoadOfField(fn, bo.X, "err") {
				continue
			}
			if v := fa.mem.versionAt(bo.X.(ssa.Instruction), key); v != nil && v.Kind != mEntry {
				continue
			}
			nilTruth := bo.Op == token.EQL // truth value of the test that means "no stored error"
			clean := true
			why := ""
			for _, b2 := range fn.Blocks {
				for _, in2 := range b2.Instrs {
					effect := false
					switch x := in2.(type) {
					case *ssa.Store:
						if k := pathOf(x.Addr); !privatePath(k) {
							effect = true
						}
					case ssa.CallInstruction:
						if _, isBuiltin := x.Common().Value.(*ssa.Builtin); !isBuiltin {
							effect = true
						}
					}
					if effect && !guardedBy(in2, bo, nilTruth) {
						clean = false
						why = "an effect at " + P.pos(instrPos(in2)) + " is not guarded by the stored-error test"
					}
				}
			}
			retOK := false
			for _, rc := range retCases(fn) {
				onErrSide := guardedBy(rc.at, bo, !nilTruth)
				if iff, isIf := rc.at.(*ssa.If); isIf && rc.pred >= 0 && iff.Cond == ssa.Value(bo) {
					onErrSide = (iff.Block().Succs[0] == rc.ret.Block()) == !nilTruth
				}
				if !onErrSide {
					continue
				}
				ev := rc.results[len(rc.results)-1]
				if isLoadOfField(fn, ev, "err") {
					retOK = true
				} else {
					retOK = false
					why = "the stored error is not what is returned at " + P.pos(instrPos(rc.ret))
					break
				}
			}
			if clean && retOK {
				ok, detail = true, ""
			} else if why != "" {
				detail = why
			} else if !retOK {
				detail = "no return hands back the stored error"
			}
		}
	}
	return ok, detail
}
