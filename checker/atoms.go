package main

import (
	"fmt"
	"go/types"
	"math/big"

	"golang.org/x/tools/go/ssa"
)

type atomKind int

const (
	aVal   atomKind = iota // opaque integer SSA value
	aLen                   // len of a slice/string root
	aCap                   // cap of a slice root
	aData                  // address of element 0 of a slice/string root
	aPtr                   // pointer value as an integer
	aNil                   // non-nil-ness (0/1) of an interface/pointer/slice value
	aMul                   // product of two atoms
	aFresh                 // havoc'ed copy used during back-propagation
	aCell                  // memory cell version
)

// phiInfo makes an atom substitutable on the incoming edges of its block.
type phiInfo struct {
	Block *ssa.BasicBlock
	In    func(pred int) *Lin // value on the edge from Block.Preds[pred], expressed at the end of that predecessor
}

type Atom struct {
	ID    AtomID
	Name  string
	Kind  atomKind
	Fn    *ssa.Function
	Block *ssa.BasicBlock // defining block; nil = valid on entry (parameters, globals)
	Lo    *big.Int
	Hi    *big.Int
	Phi   *phiInfo
	MulA  AtomID
	MulB  AtomID
	Trig  []*Trigger
	Facts []*Lin // unconditional facts that hold wherever the atom is defined
	owner *FA
}

// Trigger is a conditional fact: when all Conds are provable in the current
// context, Facts may be assumed.
type Trigger struct {
	ID    int
	Desc  string
	Conds []*Lin
	Facts []*Lin
	// Dyn, if set, computes context-dependent facts (e.g. product bounds).
	Dyn func(fa *FA, facts []*Lin) []*Lin
}

var (
	maxLen   = pow2(48) // runtime maxAlloc on 64-bit targets: no object is larger
	maxAddr  = pow2(56)
	minInt64 = new(big.Int).Neg(pow2(63))
	maxInt64 = new(big.Int).Sub(pow2(63), bi(1))
	maxUint  = new(big.Int).Sub(pow2(64), bi(1))
)

func intRange(t types.Type) (lo, hi *big.Int, ok bool) {
	b, ok2 := t.Underlying().(*types.Basic)
	if !ok2 {
		return nil, nil, false
	}
	switch b.Kind() {
	case types.Int8:
		return bi(-128), bi(127), true
	case types.Int16:
		return bi(-32768), bi(32767), true
	case types.Int32:
		return bi(-1 << 31), bi(1<<31 - 1), true
	case types.Int64, types.Int:
		return minInt64, maxInt64, true
	case types.Uint8:
		return bi(0), bi(255), true
	case types.Uint16:
		return bi(0), bi(65535), true
	case types.Uint32:
		return bi(0), bi(1<<32 - 1), true
	case types.Uint64, types.Uint, types.Uintptr:
		return bi(0), maxUint, true
	case types.UntypedInt:
		return minInt64, maxInt64, true
	}
	return nil, nil, false
}

func intBits(t types.Type) (bits uint, signed bool) {
	b, ok := t.Underlying().(*types.Basic)
	if !ok {
		return 0, false
	}
	switch b.Kind() {
	case types.Int8:
		return 8, true
	case types.Int16:
		return 16, true
	case types.Int32:
		return 32, true
	case types.Int64, types.Int:
		return 64, true
	case types.Uint8:
		return 8, false
	case types.Uint16:
		return 16, false
	case types.Uint32:
		return 32, false
	case types.Uint64, types.Uint, types.Uintptr:
		return 64, false
	}
	return 0, false
}

// Analysis holds what is shared by all function analyses of one run.
type Analysis struct {
	P         *Program
	atoms     []*Atom
	byKey     map[string]AtomID
	fas       map[*ssa.Function]*FA
	nextTrig  int
	faSeq     int
	curFA     *FA
	nextFresh int
	// contracts
	contracts map[*ssa.Function]*Contract
	scope     map[*ssa.Function]bool
	// immutable global tables: value range of their elements
	tables map[*ssa.Global][2]int64
	// interface-method contracts (assumed), keyed by method name
	ifaceLenEqParam map[string]bool
	nnGlobals       map[*ssa.Global]bool
	trigByAtom      map[AtomID][]*Trigger
	keys            map[AtomID]string
	stats           struct{ proves, fm, backprops int }
	debug           bool
}

func newAnalysis(P *Program) *Analysis {
	return &Analysis{P: P, byKey: map[string]AtomID{}, fas: map[*ssa.Function]*FA{},
		contracts: map[*ssa.Function]*Contract{}, scope: map[*ssa.Function]bool{},
		tables: map[*ssa.Global][2]int64{}, ifaceLenEqParam: map[string]bool{}, nnGlobals: map[*ssa.Global]bool{}, trigByAtom: map[AtomID][]*Trigger{}}
}

func (A *Analysis) atom(key string, mk func(a *Atom)) AtomID {
	if id, ok := A.byKey[key]; ok {
		return id
	}
	a := &Atom{ID: AtomID(len(A.atoms)), Name: key}
	A.atoms = append(A.atoms, a)
	A.byKey[key] = a.ID
	if mk != nil {
		mk(a)
	}
	return a.ID
}

func (A *Analysis) at(id AtomID) *Atom { return A.atoms[id] }

// addTrig attaches trigger t to its owner and indexes it under every atom it
// mentions, so that it is found from any of them.
func (A *Analysis) addTrig(owner *Atom, t *Trigger) {
	owner.Trig = append(owner.Trig, t)
	seen := map[AtomID]bool{}
	reg := func(id AtomID) {
		if seen[id] {
			return
		}
		seen[id] = true
		A.trigByAtom[id] = append(A.trigByAtom[id], t)
	}
	reg(owner.ID)
	for _, l := range t.Conds {
		for id := range l.T {
			reg(id)
		}
	}
	for _, l := range t.Facts {
		for id := range l.T {
			reg(id)
		}
	}
}

func (A *Analysis) newTrigger(desc string, conds, facts []*Lin) *Trigger {
	A.nextTrig++
	return &Trigger{ID: A.nextTrig, Desc: desc, Conds: conds, Facts: facts}
}

func (A *Analysis) fresh(like *Atom) AtomID {
	A.nextFresh++
	return A.atom(fmt.Sprintf("fresh%d(%s)", A.nextFresh, like.Name), func(a *Atom) {
		a.Kind = aFresh
		a.Fn = like.Fn
		a.Lo, a.Hi = like.Lo, like.Hi
		if like.Kind == aLen || like.Kind == aCap {
			// keep nothing relational; bounds are enough
		}
	})
}

func (A *Analysis) linString(l *Lin) string {
	if l == nil {
		return "<its value on entry (not tracked)>"
	}
	s := ""
	for _, a := range l.atoms() {
		c := l.T[a]
		name := A.atoms[a].Name
		switch {
		case c.Cmp(bi(1)) == 0:
			s += " + " + name
		case c.Cmp(bi(-1)) == 0:
			s += " - " + name
		case c.Sign() < 0:
			s += " - " + new(big.Int).Neg(c).String() + "·" + name
		default:
			s += " + " + c.String() + "·" + name
		}
	}
	if l.C.Sign() != 0 || s == "" {
		if l.C.Sign() < 0 {
			s += " - " + new(big.Int).Neg(l.C).String()
		} else {
			s += " + " + l.C.String()
		}
	}
	if len(s) > 3 && s[:3] == " + " {
		s = s[3:]
	}
	return s
}

func (A *Analysis) ineqString(l *Lin) string { return A.linString(l) + " ≤ 0" }

// keyOf returns the registration key of an atom ("" if unknown).
func (A *Analysis) keyOf(id AtomID) string {
	if A.keys == nil {
		A.keys = map[AtomID]string{}
		for k, v := range A.byKey {
			A.keys[v] = k
		}
	}
	if k, ok := A.keys[id]; ok {
		return k
	}
	for k, v := range A.byKey {
		if v == id {
			A.keys[id] = k
			return k
		}
	}
	return ""
}
