package main

// E3: byte-layout summaries of the Thrift binary writers and readers.
//
// A writer is summarised as the list of bytes it stores (position, and which
// bits of which argument expression), a reader as the expression of each result
// over big-endian loads at positions of its input plus the number of bytes
// consumed. Summaries are built from SSA by structural recursion (callees are
// inlined by substitution); anything outside the recognised vocabulary makes
// the summary undecided, which fails the rule that asked for it.

import (
	"fmt"
	"go/constant"
	"go/token"
	"go/types"
	"sort"
	"strings"

	"golang.org/x/tools/go/ssa"
)

// ---------- bit expressions ----------

type bx struct {
	op     string // arg const conv shr shl and or add len f64bits f64from be eq ne bool bytes opaque
	w      int    // width in bits of the value (0 for non-integers)
	signed bool
	k      uint64 // const value / shift amount / arg index / be width in bytes
	a, b   *bx
	s      string // opaque text, be position
	p      *lpos  // be / bytes position
}

type lpos struct {
	c    int64
	syms []*bx // symbolic lengths added (each with coefficient 1)
	bad  string
}

func (p lpos) add(q lpos) lpos {
	r := lpos{c: p.c + q.c, syms: append(append([]*bx{}, p.syms...), q.syms...), bad: p.bad}
	if q.bad != "" {
		r.bad = q.bad
	}
	return r
}
func (p lpos) addC(n int64) lpos { r := p; r.c += n; return r }
func (p lpos) String() string {
	if p.bad != "" {
		return "?(" + p.bad + ")"
	}
	var ss []string
	for _, s := range p.syms {
		ss = append(ss, s.render())
	}
	sort.Strings(ss)
	if len(ss) == 0 {
		return fmt.Sprintf("%d", p.c)
	}
	return fmt.Sprintf("%d+%s", p.c, strings.Join(ss, "+"))
}
func (p lpos) key() (int, int64) { return len(p.syms), p.c }

func typeWidth(t types.Type) (int, bool) {
	if b, ok := t.Underlying().(*types.Basic); ok {
		switch b.Kind() {
		case types.Bool:
			return 1, false
		case types.Float64:
			return 64, false
		}
	}
	w, s := intBits(t)
	return int(w), s
}

func isLowMask(k uint64) (int, bool) {
	for n := 1; n <= 64; n++ {
		if n == 64 {
			return 64, k == ^uint64(0)
		}
		if k == (uint64(1)<<uint(n))-1 {
			return n, true
		}
	}
	return 0, false
}

// norm returns the expression with the value-preserving rewrites applied.
func (e *bx) norm() *bx {
	if e == nil {
		return nil
	}
	switch e.op {
	case "conv":
		a := e.a.norm()
		switch {
		case a.w == 0 || e.w == 0:
			return &bx{op: "conv", w: e.w, signed: e.signed, a: a}
		case e.w == a.w:
			// reinterpretation: same bits, new signedness
			c := *a
			c.signed = e.signed
			return &c
		case e.w < a.w:
			return (&bx{op: "low", w: e.w, signed: e.signed, k: uint64(e.w), a: a}).normLow()
		default:
			ext := "zext"
			if a.signed {
				ext = "sext"
			}
			if a.op == "const" {
				v := a.k
				if a.signed && a.w < 64 && v&(1<<uint(a.w-1)) != 0 {
					v |= ^uint64(0) << uint(a.w)
				}
				if e.w < 64 {
					v &= (1 << uint(e.w)) - 1
				}
				return &bx{op: "const", w: e.w, signed: e.signed, k: v}
			}
			return &bx{op: ext, w: e.w, signed: e.signed, a: a}
		}
	case "and":
		a, b := e.a.norm(), e.b.norm()
		if a.op == "const" {
			a, b = b, a
		}
		if b.op == "const" {
			if n, ok := isLowMask(b.k); ok {
				if n >= a.w {
					c := *a
					c.signed = e.signed
					return &c
				}
				low := (&bx{op: "low", w: n, k: uint64(n), a: a}).normLow()
				return &bx{op: "zext", w: e.w, signed: e.signed, a: low}
			}
		}
		return &bx{op: "and", w: e.w, signed: e.signed, a: a, b: b}
	case "or", "add":
		a, b := e.a.norm(), e.b.norm()
		if a.render() > b.render() {
			a, b = b, a
		}
		res := &bx{op: e.op, w: e.w, signed: e.signed, a: a, b: b}
		if e.op == "or" {
			if m := mergeByteLoads(res); m != nil {
				return m
			}
		}
		return res
	case "shr", "shl", "len", "f64bits", "f64from", "eq", "ne", "bool", "zext", "sext":
		c := *e
		c.a = e.a.norm()
		if e.b != nil {
			c.b = e.b.norm()
		}
		return &c
	case "low":
		c := *e
		c.a = e.a.norm()
		return c.normLow()
	}
	return e
}

// normLow simplifies low<k>(x): through extensions and nested truncations.
func (e *bx) normLow() *bx {
	a := e.a
	for {
		switch {
		case (a.op == "zext" || a.op == "sext") && int(e.k) <= a.a.w:
			a = a.a
			continue
		case a.op == "low":
			a = a.a
			continue
		}
		break
	}
	if a.w == int(e.k) {
		c := *a
		c.signed = e.signed
		return &c
	}
	if a.op == "const" {
		return &bx{op: "const", w: e.w, signed: e.signed, k: a.k & ((1 << uint(e.k)) - 1)}
	}
	return &bx{op: "low", w: e.w, signed: e.signed, k: e.k, a: a}
}

func (e *bx) render() string {
	if e == nil {
		return "nil"
	}
	switch e.op {
	case "arg":
		return fmt.Sprintf("arg%d", e.k)
	case "const":
		return fmt.Sprintf("0x%x", e.k)
	case "conv":
		return fmt.Sprintf("conv%d(%s)", e.w, e.a.render())
	case "zext", "sext":
		return fmt.Sprintf("%s%d(%s)", e.op, e.w, e.a.render())
	case "low":
		return fmt.Sprintf("low%d(%s)", e.k, e.a.render())
	case "shr", "shl":
		return fmt.Sprintf("%s(%s,%d)", e.op, e.a.render(), e.k)
	case "and", "or", "add", "eq", "ne":
		return fmt.Sprintf("%s(%s,%s)", e.op, e.a.render(), e.b.render())
	case "len", "f64bits", "f64from", "bool":
		return fmt.Sprintf("%s(%s)", e.op, e.a.render())
	case "be":
		return fmt.Sprintf("be%d@%s", e.k, e.p.String())
	case "bytes":
		return fmt.Sprintf("bytes@%s[%s]", e.p.String(), e.a.render())
	}
	return "opaque(" + e.s + ")"
}

func (e *bx) subst(args []*bx) *bx {
	if e == nil {
		return nil
	}
	if e.op == "arg" {
		if int(e.k) < len(args) && args[e.k] != nil {
			return args[e.k]
		}
		return &bx{op: "opaque", s: fmt.Sprintf("unbound arg%d", e.k)}
	}
	c := *e
	c.a = e.a.subst(args)
	c.b = e.b.subst(args)
	if e.p != nil {
		np := e.p.subst(args)
		c.p = &np
	}
	return &c
}

func (p lpos) subst(args []*bx) lpos {
	r := lpos{c: p.c, bad: p.bad}
	for _, s := range p.syms {
		r.syms = append(r.syms, s.subst(args))
	}
	return r
}

func (e *bx) shift(by lpos) *bx {
	if e == nil {
		return nil
	}
	c := *e
	c.a = e.a.shift(by)
	c.b = e.b.shift(by)
	if e.p != nil {
		np := by.add(*e.p)
		c.p = &np
	}
	return &c
}

func (e *bx) hasOpaque() string {
	if e == nil {
		return ""
	}
	if e.op == "opaque" {
		return e.s
	}
	if s := e.a.hasOpaque(); s != "" {
		return s
	}
	if s := e.b.hasOpaque(); s != "" {
		return s
	}
	if e.p != nil {
		if e.p.bad != "" {
			return e.p.bad
		}
		for _, s := range e.p.syms {
			if o := s.hasOpaque(); o != "" {
				return o
			}
		}
	}
	return ""
}

// bitsOf peels e down to the expression whose bits [lo, lo+8) it selects.
func bitsOf(e *bx, lo int) (*bx, int) {
	for {
		switch e.op {
		case "conv":
			if e.a.w > 0 && e.w > 0 && lo+8 <= e.w && lo+8 <= e.a.w {
				e = e.a
				continue
			}
		case "shr":
			if lo+int(e.k)+8 <= e.a.w {
				lo += int(e.k)
				e = e.a
				continue
			}
		case "and":
			if e.b.op == "const" && (e.b.k>>uint(lo))&0xff == 0xff {
				e = e.a
				continue
			}
		}
		return e, lo
	}
}

// ---------- building expressions from SSA ----------

type lctx struct {
	P      *Program
	fn     *ssa.Function
	args   map[*ssa.Parameter]*bx // parameter → expression
	leaf   func(v ssa.Value) *bx  // reader leaves (loads from the input)
	depth  int
	layout *layouts
	alias  map[ssa.Value]ssa.Value // parameter of an expression helper being read in place → the caller's argument
}

func (c *lctx) expr(v ssa.Value) *bx {
	if c.depth > 40 {
		return &bx{op: "opaque", s: "depth"}
	}
	c.depth++
	defer func() { c.depth-- }()
	if a, ok := c.alias[v]; ok {
		return c.expr(a)
	}
	if c.leaf != nil {
		if e := c.leaf(v); e != nil {
			return e
		}
	}
	w, sg := typeWidth(v.Type())
	switch x := v.(type) {
	case *ssa.Parameter:
		if e, ok := c.args[x]; ok {
			return e
		}
	case *ssa.Const:
		if x.Value != nil {
			switch x.Value.Kind() {
			case constant.Int:
				if u, ok := constant.Uint64Val(x.Value); ok {
					return &bx{op: "const", w: w, signed: sg, k: u}
				}
				if i, ok := constant.Int64Val(x.Value); ok {
					u := uint64(i)
					if w < 64 && w > 0 {
						u &= (1 << uint(w)) - 1
					}
					return &bx{op: "const", w: w, signed: sg, k: u}
				}
			case constant.Bool:
				if constant.BoolVal(x.Value) {
					return &bx{op: "const", w: 1, k: 1}
				}
				return &bx{op: "const", w: 1, k: 0}
			}
		}
	case *ssa.Convert:
		a := c.expr(x.X)
		if isSliceOrString(x.Type()) && isSliceOrString(x.X.Type()) {
			return a // []byte(string) / string([]byte): same content
		}
		return &bx{op: "conv", w: w, signed: sg, a: a}
	case *ssa.ChangeType:
		return c.expr(x.X)
	case *ssa.Phi:
		// all incoming values denote the same expression (e.g. two ways of copying one window)
		var first *bx
		same := true
		for _, e := range x.Edges {
			ee := c.expr(e)
			if first == nil {
				first = ee
			} else if first.norm().render() != ee.norm().render() {
				same = false
			}
		}
		if same && first != nil {
			return first
		}
		// b := 0; if c { b = 1 }  — the 1/0 encoding of a boolean
		if len(x.Edges) == 2 {
			if d := x.Block().Idom(); d != nil {
				if iff, ok := d.Instrs[len(d.Instrs)-1].(*ssa.If); ok && d.Succs[0] != d.Succs[1] {
					vals := [2]int64{-1, -1} // value when the condition is true / false
					for i, p := range x.Block().Preds {
						k, isC := constInt(x.Edges[i])
						if !isC {
							break
						}
						side := -1
						for sIdx, sb := range d.Succs {
							if (p == d && sb == x.Block()) || (p != d && (sb == p || sb.Dominates(p)) && len(sb.Preds) == 1) {
								side = sIdx
							}
						}
						if side >= 0 {
							vals[side] = k
						}
					}
					if vals[0] == 1 && vals[1] == 0 {
						return &bx{op: "bool", w: w, a: c.expr(iff.Cond)}
					}
				}
			}
		}
	case *ssa.BinOp:
		switch x.Op {
		case token.SHR, token.SHL:
			if k, ok := constInt(x.Y); ok {
				op := "shr"
				if x.Op == token.SHL {
					op = "shl"
				}
				return &bx{op: op, w: w, signed: sg, k: uint64(k), a: c.expr(x.X)}
			}
		case token.AND, token.OR, token.ADD:
			op := map[token.Token]string{token.AND: "and", token.OR: "or", token.ADD: "add"}[x.Op]
			return &bx{op: op, w: w, signed: sg, a: c.expr(x.X), b: c.expr(x.Y)}
		case token.EQL, token.NEQ:
			op := "eq"
			if x.Op == token.NEQ {
				op = "ne"
			}
			return &bx{op: op, w: 1, a: c.expr(x.X), b: c.expr(x.Y)}
		}
	case *ssa.Call:
		com := x.Common()
		if b, ok := com.Value.(*ssa.Builtin); ok && b.Name() == "len" {
			return &bx{op: "len", w: 64, signed: true, a: c.expr(com.Args[0])}
		}
		// a helper that maps a bool to its 1/0 encoding: func(v bool) T { if v { return 1 }; return 0 }
		if cal := com.StaticCallee(); cal != nil && inRepo(cal) && cal.Blocks != nil && len(cal.Params) == 1 && len(com.Args) == 1 && len(cal.Blocks) == 3 {
			if iff, ok := cal.Blocks[0].Instrs[len(cal.Blocks[0].Instrs)-1].(*ssa.If); ok && len(cal.Blocks[0].Instrs) == 1 && iff.Cond == ssa.Value(cal.Params[0]) {
				retConst := func(b *ssa.BasicBlock) (int64, bool) {
					if len(b.Instrs) != 1 {
						return 0, false
					}
					ret, ok := b.Instrs[0].(*ssa.Return)
					if !ok || len(ret.Results) != 1 {
						return 0, false
					}
					return constInt(ret.Results[0])
				}
				t, okT := retConst(cal.Blocks[0].Succs[0])
				f, okF := retConst(cal.Blocks[0].Succs[1])
				if okT && okF && t == 1 && f == 0 {
					return &bx{op: "bool", w: w, a: c.expr(com.Args[0])}
				}
			}
		}
		// a one-expression helper over its arguments (func(b []byte) int { return int(binary.BigEndian.Uint32(b)) }) is read in place
		if cal := com.StaticCallee(); cal != nil && inRepo(cal) && len(com.Args) == len(cal.Params) && isExprHelper(cal) {
			if c.alias == nil {
				c.alias = map[ssa.Value]ssa.Value{}
			}
			for i, p := range cal.Params {
				c.alias[p] = com.Args[i]
			}
			ret := cal.Blocks[0].Instrs[len(cal.Blocks[0].Instrs)-1].(*ssa.Return)
			e := c.expr(ret.Results[0])
			for _, p := range cal.Params {
				delete(c.alias, p)
			}
			return e
		}
		if cal := com.StaticCallee(); cal != nil && cal.Pkg != nil {
			full := cal.Pkg.Pkg.Path() + "." + cal.Name()
			switch full {
			case "math.Float64bits":
				return &bx{op: "f64bits", w: 64, a: c.expr(com.Args[0])}
			case "math.Float64frombits":
				return &bx{op: "f64from", w: 64, a: c.expr(com.Args[0])}
			case modPath + "/unsafex.StringToBinary", modPath + "/unsafex.BinaryToString":
				return c.expr(com.Args[0])
			}
		}
	}
	return &bx{op: "opaque", s: v.Name() + ":" + strings.TrimSpace(fmt.Sprintf("%T", v))}
}

// pos evaluates an integer SSA value as a position.
func (c *lctx) pos(v ssa.Value, sym func(v ssa.Value) (lpos, bool)) lpos {
	if sym != nil {
		if p, ok := sym(v); ok {
			return p
		}
	}
	switch x := v.(type) {
	case *ssa.Const:
		if k, ok := constInt(x); ok {
			return lpos{c: k}
		}
	case *ssa.BinOp:
		if x.Op == token.ADD {
			return c.pos(x.X, sym).add(c.pos(x.Y, sym))
		}
		if x.Op == token.SUB {
			// len(buf) − len(rest) with rest = buf[p:] (no upper bound anywhere): the position p
			lx, ly := builtinCall(x.X, "len"), builtinCall(x.Y, "len")
			if lx != nil && ly != nil {
				root, off, high := c.sliceAt(ly.Common().Args[0], sym)
				if root == lx.Common().Args[0] && high == nil && off.bad == "" {
					return off
				}
			}
		}
	case *ssa.Convert:
		// int(int32 sz): a length read from the wire. Inside the property's domain (lengths far below 2^31)
		// widening commutes with adding a small constant: int(sz+4) = int(sz)+4.
		e := c.expr(v).norm()
		if (e.op == "sext" || e.op == "zext") && e.a.op == "add" {
			x, k := e.a.a, e.a.b
			if x.op == "const" {
				x, k = k, x
			}
			if k.op == "const" && k.k < 1<<16 {
				inner := (&bx{op: e.op, w: e.w, signed: e.signed, a: x}).norm()
				return lpos{c: int64(k.k), syms: []*bx{inner}}
			}
		}
		return lpos{syms: []*bx{e}}
	case *ssa.Call:
		com := x.Common()
		if b, ok := com.Value.(*ssa.Builtin); ok {
			switch b.Name() {
			case "len":
				return lpos{syms: []*bx{(&bx{op: "len", w: 64, signed: true, a: c.expr(com.Args[0])}).norm()}}
			case "copy":
				// bytes copied = len(src) provided the destination has room (documented precondition of the in-place writers)
				return lpos{syms: []*bx{(&bx{op: "len", w: 64, signed: true, a: c.expr(com.Args[1])}).norm()}}
			}
		}
	}
	if call, ok := v.(*ssa.Call); ok && c.layout != nil {
		// the byte count a sibling in-place writer reports
		if cal := call.Common().StaticCallee(); isBinaryProtocolMethod(cal) && strings.HasPrefix(cal.Name(), "Write") && cal != c.fn {
			sub := c.layout.inplaceWriter(cal)
			if sub.bad == "" {
				return sub.total.subst(orderedArgs(c, cal, call.Common().Args, true))
			}
		}
	}
	return lpos{bad: "position " + v.Name() + " not understood"}
}

// isExprHelper: a single-block function with one result computed from its parameters by slicing, indexing,
// big-endian loads, conversions and arithmetic only — no stores, no other calls.
func isExprHelper(fn *ssa.Function) bool {
	if fn.Blocks == nil || len(fn.Blocks) != 1 || fn.Signature.Results().Len() != 1 || fn.Signature.Recv() != nil || len(fn.FreeVars) > 0 {
		return false
	}
	ins := fn.Blocks[0].Instrs
	for i, in := range ins {
		switch x := in.(type) {
		case *ssa.Slice, *ssa.IndexAddr, *ssa.Convert, *ssa.ChangeType, *ssa.BinOp, *ssa.DebugRef:
		case *ssa.UnOp:
			if x.Op == token.MUL {
				if g, isG := x.X.(*ssa.Global); isG && g.Pkg != nil && g.Pkg.Pkg.Path() == "encoding/binary" {
					continue // the value of binary.BigEndian, the receiver of the load
				}
				if _, ok := x.X.(*ssa.IndexAddr); !ok {
					return false
				}
			}
		case *ssa.Call:
			if b, ok := x.Common().Value.(*ssa.Builtin); ok && b.Name() == "len" {
				continue
			}
			if isBigEndianGet(x.Common().StaticCallee()) == 0 {
				return false
			}
		case *ssa.Return:
			if i != len(ins)-1 || len(x.Results) != 1 {
				return false
			}
		default:
			return false
		}
	}
	_, ok := ins[len(ins)-1].(*ssa.Return)
	return ok
}

// sliceAt resolves a []byte/string value to (root value, offset).
func (c *lctx) sliceAt(v ssa.Value, sym func(v ssa.Value) (lpos, bool)) (ssa.Value, lpos, ssa.Value) {
	off := lpos{}
	var high ssa.Value
	for {
		sl, ok := v.(*ssa.Slice)
		if !ok {
			if a, isAlias := c.alias[v]; isAlias {
				v = a
				continue
			}
			return v, off, high
		}
		if sl.Low != nil {
			off = off.add(c.pos(sl.Low, sym))
		}
		if sl.High != nil {
			high = sl.High
		}
		v = sl.X
	}
}

// ---------- writer summaries ----------

type wunit struct {
	pos     lpos
	payload bool
	e       *bx // byte: expression whose bits [lo,lo+8) are stored; payload: source
	lo      int
	cond    *bx // non-nil: stored only when cond holds (bool pattern)
	condNeg bool
}

type wsum struct {
	units []wunit
	total lpos // bytes produced
	bad   string
}

type layouts struct {
	P     *Program
	wmemo map[*ssa.Function]*wsum
	rmemo map[*ssa.Function]*rsum
}

func newLayouts(P *Program) *layouts {
	return &layouts{P: P, wmemo: map[*ssa.Function]*wsum{}, rmemo: map[*ssa.Function]*rsum{}}
}

func (s *wsum) substShift(args []*bx, base lpos) []wunit {
	var out []wunit
	for _, u := range s.units {
		nu := u
		nu.pos = base.add(u.pos.subst(args))
		nu.e = u.e.subst(args)
		nu.cond = u.cond.subst(args)
		out = append(out, nu)
	}
	return out
}

func isBigEndianPut(cal *ssa.Function) int {
	if cal == nil || cal.Pkg == nil || cal.Pkg.Pkg.Path() != "encoding/binary" {
		return 0
	}
	if cal.Signature.Recv() == nil || !strings.HasSuffix(cal.Signature.Recv().Type().String(), "bigEndian") {
		return 0
	}
	switch cal.Name() {
	case "PutUint16":
		return 2
	case "PutUint32":
		return 4
	case "PutUint64":
		return 8
	}
	return 0
}

func isBigEndianGet(cal *ssa.Function) int {
	if cal == nil || cal.Pkg == nil || cal.Pkg.Pkg.Path() != "encoding/binary" {
		return 0
	}
	if cal.Signature.Recv() == nil || !strings.HasSuffix(cal.Signature.Recv().Type().String(), "bigEndian") {
		return 0
	}
	switch cal.Name() {
	case "Uint16":
		return 2
	case "Uint32":
		return 4
	case "Uint64":
		return 8
	}
	return 0
}

// valueParams: the explicit parameters of fn that carry values (receiver and
// the buffer parameter excluded), in order → arg0, arg1, …
func valueParams(fn *ssa.Function, skipBuf bool) map[*ssa.Parameter]*bx {
	out := map[*ssa.Parameter]*bx{}
	k := 0
	start := 0
	if fn.Signature.Recv() != nil {
		start = 1
	}
	for i := start; i < len(fn.Params); i++ {
		p := fn.Params[i]
		if skipBuf && i == start && isByteSlice(p.Type()) {
			continue
		}
		w, sg := typeWidth(p.Type())
		out[p] = &bx{op: "arg", k: uint64(k), w: w, signed: sg}
		k++
	}
	return out
}

func orderedArgs(c *lctx, callee *ssa.Function, args []ssa.Value, skipBuf bool) []*bx {
	var out []*bx
	start := 0
	if callee.Signature.Recv() != nil {
		start = 1
	}
	for i := start; i < len(callee.Params); i++ {
		if skipBuf && i == start && isByteSlice(callee.Params[i].Type()) {
			continue
		}
		out = append(out, c.expr(args[i]))
	}
	return out
}

// condOf returns the boolean parameter condition guarding block b, if any
// (pattern: if v { … } else { … } on a bool argument).
func (c *lctx) condOf(b *ssa.BasicBlock) (*bx, bool) {
	for _, dc := range blockConds(b, nil, 0) {
		if p, ok := dc.Cond.(*ssa.Parameter); ok {
			if e, has := c.args[p]; has {
				return e, !dc.Truth
			}
		}
	}
	return nil, false
}

// successBlocks: blocks that are not dominated by the error branch of an
// `err != nil` test and are not error exits themselves.
func errorBranchBlocks(fn *ssa.Function) map[*ssa.BasicBlock]bool {
	bad := map[*ssa.BasicBlock]bool{}
	for _, b := range fn.Blocks {
		for _, dc := range blockConds(b, nil, 0) {
			bo, ok := dc.Cond.(*ssa.BinOp)
			if !ok {
				continue
			}
			v := bo.X
			if isNilConst(v) {
				v = bo.Y
			} else if !isNilConst(bo.Y) {
				continue
			}
			if !isErrorType(v.Type()) {
				continue
			}
			nonNil := (bo.Op == token.NEQ) == dc.Truth
			if nonNil {
				bad[b] = true
			}
		}
	}
	return bad
}

// inplaceWriter summarises BinaryProtocol.WriteX(buf, …) int.
func (L *layouts) inplaceWriter(fn *ssa.Function) *wsum {
	if s, ok := L.wmemo[fn]; ok {
		return s
	}
	s := &wsum{}
	L.wmemo[fn] = s
	if len(fn.Blocks) == 0 {
		s.bad = "no body"
		return s
	}
	c := &lctx{P: L.P, fn: fn, args: valueParams(fn, true), layout: L}
	bufIdx := 0
	if fn.Signature.Recv() != nil {
		bufIdx = 1
	}
	buf := fn.Params[bufIdx]
	L.collectStores(c, s, func(root ssa.Value) (lpos, bool) {
		if root == ssa.Value(buf) {
			return lpos{}, true
		}
		return lpos{}, false
	}, nil)
	// total = the integer result on the (single) return shape
	rets := returnsOf(fn)
	if len(rets) == 0 {
		s.bad = "no return"
		return s
	}
	tot := c.pos(rets[0].Results[0], nil)
	for _, r := range rets[1:] {
		if t2 := c.pos(r.Results[0], nil); t2.String() != tot.String() {
			s.bad = "returns differ: " + tot.String() + " / " + t2.String()
		}
	}
	s.total = tot
	return s
}

// collectStores walks all non-error blocks in order and records byte stores,
// big-endian puts, copies and delegations into regions accepted by base().
func (L *layouts) collectStores(c *lctx, s *wsum, base func(root ssa.Value) (lpos, bool), onCall func(call *ssa.Call) bool) {
	fn := c.fn
	errBlocks := errorBranchBlocks(fn)
	for _, b := range fn.Blocks {
		if errBlocks[b] {
			continue
		}
		cond, neg := c.condOf(b)
		for _, in := range b.Instrs {
			switch x := in.(type) {
			case *ssa.Store:
				ia, ok := x.Addr.(*ssa.IndexAddr)
				if !ok {
					continue
				}
				root, off, _ := c.sliceAt(ia.X, nil)
				bp, ok := base(root)
				if !ok {
					continue
				}
				p := bp.add(off).add(c.pos(ia.Index, nil))
				s.units = append(s.units, wunit{pos: p, e: c.expr(x.Val), cond: cond, condNeg: neg})
			case *ssa.Call:
				if onCall != nil && onCall(x) {
					continue
				}
				com := x.Common()
				if bi, ok := com.Value.(*ssa.Builtin); ok && bi.Name() == "copy" {
					root, off, _ := c.sliceAt(com.Args[0], nil)
					if bp, ok := base(root); ok {
						s.units = append(s.units, wunit{pos: bp.add(off), payload: true, e: c.expr(com.Args[1]), cond: cond, condNeg: neg})
					}
					continue
				}
				cal := com.StaticCallee()
				if n := isBigEndianPut(cal); n > 0 {
					root, off, _ := c.sliceAt(com.Args[1], nil)
					if bp, ok := base(root); ok {
						e := c.expr(com.Args[2])
						for k := 0; k < n; k++ {
							s.units = append(s.units, wunit{pos: bp.add(off).addC(int64(k)), e: e, lo: 8 * (n - 1 - k), cond: cond, condNeg: neg})
						}
					}
					continue
				}
				if isBinaryProtocolMethod(cal) && strings.HasPrefix(cal.Name(), "Write") && len(com.Args) >= 2 {
					root, off, _ := c.sliceAt(com.Args[1], nil)
					if bp, ok := base(root); ok {
						sub := L.inplaceWriter(cal)
						if sub.bad != "" {
							s.bad = cal.Name() + ": " + sub.bad
						}
						s.units = append(s.units, sub.substShift(orderedArgs(c, cal, com.Args, true), bp.add(off))...)
					}
				}
			}
		}
	}
}

// appendWriter summarises BinaryProtocol.AppendX(buf, …) []byte and the helper
// functions of the same shape.
func (L *layouts) appendWriter(fn *ssa.Function) *wsum {
	if s, ok := L.wmemo[fn]; ok {
		return s
	}
	s := &wsum{}
	L.wmemo[fn] = s
	if len(fn.Blocks) == 0 {
		s.bad = "no body"
		return s
	}
	c := &lctx{P: L.P, fn: fn, args: valueParams(fn, true), layout: L}
	bufIdx := 0
	if fn.Signature.Recv() != nil {
		bufIdx = 1
	}
	buf := fn.Params[bufIdx]
	var seq func(v ssa.Value, cond *bx, neg bool) ([]wunit, lpos, string)
	seq = func(v ssa.Value, cond *bx, neg bool) ([]wunit, lpos, string) {
		if v == ssa.Value(buf) {
			return nil, lpos{}, ""
		}
		call, ok := v.(*ssa.Call)
		if !ok {
			return nil, lpos{}, "result is built by " + fmt.Sprintf("%T", v)
		}
		com := call.Common()
		if bi, ok := com.Value.(*ssa.Builtin); ok && bi.Name() == "append" {
			units, at, bad := seq(com.Args[0], cond, neg)
			if bad != "" {
				return nil, at, bad
			}
			src := com.Args[1]
			// append(x, b0, b1, …): a slice of a fresh array filled by stores
			if sl, isSl := src.(*ssa.Slice); isSl {
				if al, isAl := sl.X.(*ssa.Alloc); isAl {
					arr := deref(al.Type()).Underlying().(*types.Array)
					n := arr.Len()
					got := map[int64]ssa.Value{}
					for _, r := range *al.Referrers() {
						if ia, isIA := r.(*ssa.IndexAddr); isIA {
							k, _ := constInt(ia.Index)
							for _, r2 := range *ia.Referrers() {
								if st, isSt := r2.(*ssa.Store); isSt {
									got[k] = st.Val
								}
							}
						}
					}
					for k := int64(0); k < n; k++ {
						val, has := got[k]
						if !has {
							return nil, at, "appended array element not initialised"
						}
						units = append(units, wunit{pos: at.addC(k), e: c.expr(val), cond: cond, condNeg: neg})
					}
					return units, at.addC(n), ""
				}
			}
			// append(x, v...): payload
			e := c.expr(src)
			units = append(units, wunit{pos: at, payload: true, e: e, cond: cond, condNeg: neg})
			return units, at.add(lpos{syms: []*bx{(&bx{op: "len", w: 64, signed: true, a: e}).norm()}}), ""
		}
		cal := com.StaticCallee()
		if cal != nil && len(cal.Blocks) > 0 && cal.Pkg == fn.Pkg && cal.Signature.Results().Len() == 1 && isByteSlice(cal.Signature.Results().At(0).Type()) {
			bi := 0
			if cal.Signature.Recv() != nil {
				bi = 1
			}
			units, at, bad := seq(com.Args[bi], cond, neg)
			if bad != "" {
				return nil, at, bad
			}
			sub := L.appendWriter(cal)
			if sub.bad != "" {
				return nil, at, cal.Name() + ": " + sub.bad
			}
			args := orderedArgs(c, cal, com.Args, true)
			units = append(units, sub.substShift(args, at)...)
			return units, at.add(sub.total.subst(args)), ""
		}
		return nil, lpos{}, "call not understood: " + calleeFullName(call)
	}
	rets := returnsOf(fn)
	for i, r := range rets {
		cond, neg := c.condOf(r.Block())
		units, tot, bad := seq(r.Results[0], cond, neg)
		if bad != "" {
			s.bad = bad
			return s
		}
		s.units = append(s.units, units...)
		if i == 0 {
			s.total = tot
		} else if tot.String() != s.total.String() {
			s.bad = "returns append different amounts"
		}
	}
	return s
}

// streamWriter summarises (*BufferWriter).WriteX(…) error: regions obtained
// from w.w.Malloc(n) in program order, payloads handed to w.w.WriteBinary.
func (L *layouts) streamWriter(fn *ssa.Function) *wsum {
	if s, ok := L.wmemo[fn]; ok {
		return s
	}
	s := &wsum{}
	L.wmemo[fn] = s
	if len(fn.Blocks) == 0 {
		s.bad = "no body"
		return s
	}
	c := &lctx{P: L.P, fn: fn, args: valueParams(fn, false), layout: L}
	regions := map[ssa.Value]lpos{}
	running := lpos{}
	mallocSizes := map[ssa.Value]lpos{}
	// regions in dominance (program) order
	errBlocks := errorBranchBlocks(fn)
	for _, b := range fn.DomPreorder() {
		if errBlocks[b] {
			continue
		}
		for _, in := range b.Instrs {
			call, ok := in.(*ssa.Call)
			if !ok {
				continue
			}
			com := call.Common()
			switch {
			case isInvokeOf(call, "Malloc"):
				n := c.pos(com.Args[0], func(v ssa.Value) (lpos, bool) {
					if cc, ok := v.(*ssa.Call); ok {
						if cal := cc.Common().StaticCallee(); isBinaryProtocolMethod(cal) && strings.HasSuffix(cal.Name(), "Length") {
							ls := L.lengthFunc(cal)
							return ls.subst(orderedArgs(c, cal, cc.Common().Args, false)), true
						}
					}
					return lpos{}, false
				})
				for _, r := range *call.Referrers() {
					if ex, ok := r.(*ssa.Extract); ok && ex.Index == 0 {
						regions[ex] = running
						mallocSizes[ex] = n
					}
				}
				running = running.add(n)
			case isInvokeOf(call, "WriteBinary"):
				e := c.expr(com.Args[0])
				s.units = append(s.units, wunit{pos: running, payload: true, e: e})
				running = running.add(lpos{syms: []*bx{(&bx{op: "len", w: 64, signed: true, a: e}).norm()}})
			default:
				cal := com.StaticCallee()
				if cal != nil && cal.Signature.Recv() != nil && len(com.Args) > 0 && com.Args[0] == ssa.Value(fn.Params[0]) && cal != fn && cal.Blocks != nil && inRepo(cal) {
					sub := L.streamWriter(cal)
					if sub.bad != "" {
						s.bad = cal.Name() + ": " + sub.bad
					}
					args := orderedArgs(c, cal, com.Args, false)
					s.units = append(s.units, sub.substShift(args, running)...)
					running = running.add(sub.total.subst(args))
				}
			}
		}
	}
	L.collectStores(c, s, func(root ssa.Value) (lpos, bool) {
		p, ok := regions[root]
		return p, ok
	}, func(call *ssa.Call) bool {
		return isInvokeOf(call, "Malloc") || isInvokeOf(call, "WriteBinary")
	})
	s.total = running
	return s
}

// lengthFunc: the value of BinaryProtocol.XLength(args) as a position.
func (L *layouts) lengthFunc(fn *ssa.Function) lpos {
	c := &lctx{P: L.P, fn: fn, args: valueParams(fn, false), layout: L}
	ret := singleReturn(fn)
	if ret == nil {
		return lpos{bad: fn.Name() + " has several returns"}
	}
	return c.pos(ret.Results[0], nil)
}

// canonical rendering of a writer summary: sorted by position, contiguity checked.
func (s *wsum) canon() ([]string, string) {
	if s.bad != "" {
		return nil, s.bad
	}
	units := append([]wunit{}, s.units...)
	sort.SliceStable(units, func(i, j int) bool {
		a1, a2 := units[i].pos.key()
		b1, b2 := units[j].pos.key()
		if a1 != b1 {
			return a1 < b1
		}
		return a2 < b2
	})
	var out []string
	cur := lpos{}
	i := 0
	for i < len(units) {
		u := units[i]
		if u.pos.bad != "" {
			return nil, u.pos.bad
		}
		if u.pos.String() != cur.String() {
			return nil, fmt.Sprintf("bytes are not contiguous: next store at %s, expected %s", u.pos.String(), cur.String())
		}
		if u.payload {
			e := u.e.norm()
			if o := e.hasOpaque(); o != "" {
				return nil, "payload source not understood: " + o
			}
			out = append(out, "bytes("+e.render()+")")
			cur = cur.add(lpos{syms: []*bx{(&bx{op: "len", w: 64, signed: true, a: e}).norm()}})
			i++
			continue
		}
		// bool pattern: two conditional constant stores at the same position
		if u.cond != nil {
			if i+1 < len(units) && units[i+1].pos.String() == u.pos.String() && units[i+1].cond != nil && units[i+1].condNeg != u.condNeg {
				a, b := u, units[i+1]
				if a.condNeg {
					a, b = b, a
				}
				ea, eb := a.e.norm(), b.e.norm()
				if ea.op == "const" && eb.op == "const" && ea.k == 1 && eb.k == 0 {
					out = append(out, "bool("+a.cond.render()+")")
					cur = cur.addC(1)
					i += 2
					continue
				}
			}
			return nil, "conditional store at " + u.pos.String() + " is not the 1/0 pattern of a boolean"
		}
		root, lo := bitsOf(u.e, u.lo)
		root = root.norm()
		if root.op == "bool" && lo == 0 {
			out = append(out, "bool("+root.a.render()+")")
			cur = cur.addC(1)
			i++
			continue
		}
		if o := root.hasOpaque(); o != "" {
			return nil, "stored value not understood: " + o
		}
		if root.op == "const" {
			out = append(out, fmt.Sprintf("0x%02x", (root.k>>uint(lo))&0xff))
		} else {
			out = append(out, fmt.Sprintf("%s[%d..%d]", root.render(), lo, lo+7))
		}
		cur = cur.addC(1)
		i++
	}
	if cur.String() != s.total.String() {
		return nil, fmt.Sprintf("reports %s bytes but stores %s", s.total.String(), cur.String())
	}
	return out, ""
}

// ---------- reader summaries ----------

type rret struct {
	conds    []string // canonical data conditions of this success return
	results  []string
	consumed string
}

type rsum struct {
	rets []rret
	bad  string
	// raw, for inlining
	raw []rawRet
}

type rawRet struct {
	conds    []*bx
	results  []*bx
	consumed lpos
}

// bufferReader summarises BinaryProtocol.ReadX(buf) (…, l int, err error).
func (L *layouts) bufferReader(fn *ssa.Function) *rsum {
	if s, ok := L.rmemo[fn]; ok {
		return s
	}
	s := &rsum{}
	L.rmemo[fn] = s
	if len(fn.Blocks) == 0 {
		s.bad = "no body"
		return s
	}
	bufIdx := 0
	if fn.Signature.Recv() != nil {
		bufIdx = 1
	}
	buf := fn.Params[bufIdx]
	c := &lctx{P: L.P, fn: fn, args: map[*ssa.Parameter]*bx{}, layout: L}
	// results of inlined sibling calls
	callRes := map[*ssa.Call]*rawRet{}
	callBase := map[*ssa.Call]lpos{}
	var symPos func(v ssa.Value) (lpos, bool)
	inline := func(call *ssa.Call) *rawRet {
		if r, ok := callRes[call]; ok {
			return r
		}
		cal := call.Common().StaticCallee()
		if !isBinaryProtocolMethod(cal) || !strings.HasPrefix(cal.Name(), "Read") {
			return nil
		}
		root, off, _ := c.sliceAt(call.Common().Args[1], symPos)
		if root != ssa.Value(buf) {
			return nil
		}
		sub := L.bufferReader(cal)
		if sub.bad != "" || len(sub.rets) != 1 || len(sub.raw) < 1 {
			s.bad = "nested " + cal.Name() + ": " + sub.bad
			callRes[call] = nil
			return nil
		}
		rr := sub.raw[0]
		out := &rawRet{consumed: rr.consumed}
		for _, e := range rr.results {
			out.results = append(out.results, e.shift(off))
		}
		nc := lpos{c: rr.consumed.c}
		for _, sy := range rr.consumed.syms {
			nc.syms = append(nc.syms, sy.shift(off))
		}
		out.consumed = nc
		callRes[call] = out
		callBase[call] = off
		return out
	}
	symPos = func(v ssa.Value) (lpos, bool) {
		if ex, ok := v.(*ssa.Extract); ok {
			if call, ok := ex.Tuple.(*ssa.Call); ok {
				if r := inline(call); r != nil {
					n := call.Common().Signature().Results().Len()
					if ex.Index == n-2 {
						return r.consumed, true
					}
				}
			}
		}
		return lpos{}, false
	}
	c.leaf = func(v ssa.Value) *bx {
		switch x := v.(type) {
		case *ssa.UnOp:
			if x.Op == token.MUL {
				if ia, ok := x.X.(*ssa.IndexAddr); ok {
					root, off, _ := c.sliceAt(ia.X, symPos)
					if root == ssa.Value(buf) {
						p := off.add(c.pos(ia.Index, symPos))
						return &bx{op: "be", k: 1, w: 8, p: &p}
					}
				}
			}
		case *ssa.Call:
			if n := isBigEndianGet(x.Common().StaticCallee()); n > 0 {
				root, off, _ := c.sliceAt(x.Common().Args[1], symPos)
				if root == ssa.Value(buf) {
					p := off
					return &bx{op: "be", k: uint64(n), w: 8 * n, p: &p}
				}
			}
			// content-preserving copies of a window of the input
			if cal := x.Common().StaticCallee(); cal != nil && cal.Name() == "Copy" && len(x.Common().Args) == 2 {
				return c.expr(x.Common().Args[1])
			}
		case *ssa.Extract:
			if call, ok := x.Tuple.(*ssa.Call); ok {
				if r := inline(call); r != nil && x.Index < len(r.results) {
					return r.results[x.Index]
				}
			}
		case *ssa.Slice:
			if isSliceOrString(x.Type()) {
				root, off, high := c.sliceAt(x, symPos)
				if root == ssa.Value(buf) && high != nil {
					end := c.pos(high, symPos)
					// length = end − off, expressed when end = off + sym
					ln := &bx{op: "opaque", s: "window length"}
					if len(end.syms) == len(off.syms)+1 && end.c == off.c {
						ln = end.syms[len(end.syms)-1]
					}
					p := off
					return &bx{op: "bytes", p: &p, a: ln}
				}
			}
		case *ssa.Convert:
			if isSliceOrString(x.Type()) && isSliceOrString(x.X.Type()) {
				return c.expr(x.X)
			}
		}
		return nil
	}
	errBlocks := errorBranchBlocks(fn)
	nres := fn.Signature.Results().Len()
	for _, ret := range returnsOf(fn) {
		if errBlocks[ret.Block()] {
			continue
		}
		if !isNilConst(ret.Results[nres-1]) {
			// an error value: not a success return
			continue
		}
		rr := rawRet{}
		for _, dc := range blockConds(ret.Block(), nil, 0) {
			if e := dataCond(c, dc); e != nil {
				rr.conds = append(rr.conds, e)
			}
		}
		for i := 0; i < nres-2; i++ {
			rr.results = append(rr.results, c.expr(ret.Results[i]))
		}
		rr.consumed = c.pos(ret.Results[nres-2], symPos)
		s.raw = append(s.raw, rr)
	}
	s.finish()
	return s
}

// dataCond keeps the dominating conditions that compare wire data with
// constants (version masks, STOP); room checks and error tests are dropped.
func dataCond(c *lctx, dc domCond) *bx {
	bo, ok := dc.Cond.(*ssa.BinOp)
	if !ok || (bo.Op != token.EQL && bo.Op != token.NEQ) {
		return nil
	}
	if isNilConst(bo.X) || isNilConst(bo.Y) {
		return nil
	}
	if _, isC := bo.Y.(*ssa.Const); !isC {
		return nil
	}
	e := c.expr(bo).norm()
	if e.hasOpaque() != "" {
		return nil
	}
	if !strings.Contains(e.render(), "be") {
		return nil
	}
	// canonical polarity: express as eq/ne that holds
	holdsEq := (bo.Op == token.EQL) == dc.Truth
	op := "eq"
	if !holdsEq {
		op = "ne"
	}
	return &bx{op: op, w: 1, a: e.a, b: e.b}
}

func (s *rsum) finish() {
	if s.bad != "" {
		return
	}
	if len(s.raw) == 0 {
		s.bad = "no success return found"
		return
	}
	for _, rr := range s.raw {
		out := rret{}
		for _, e := range rr.conds {
			out.conds = append(out.conds, e.norm().render())
		}
		sort.Strings(out.conds)
		for _, e := range rr.results {
			n := e.norm()
			if o := n.hasOpaque(); o != "" {
				s.bad = "result not understood: " + o
				return
			}
			out.results = append(out.results, n.render())
		}
		nc := lpos{c: rr.consumed.c, bad: rr.consumed.bad}
		for _, sy := range rr.consumed.syms {
			nc.syms = append(nc.syms, sy.norm())
		}
		out.consumed = nc.String()
		s.rets = append(s.rets, out)
	}
	sort.Slice(s.rets, func(i, j int) bool {
		return strings.Join(s.rets[i].conds, "&") < strings.Join(s.rets[j].conds, "&")
	})
	// several ways out that decode the same thing under the same data conditions (e.g. one return per
	// allocator branch) are one
	{
		var uniq []rret
		seen := map[string]bool{}
		for _, rt := range s.rets {
			k := strings.Join(rt.conds, "&") + "→" + strings.Join(rt.results, ",") + "/" + rt.consumed
			if !seen[k] {
				seen[k] = true
				uniq = append(uniq, rt)
			}
		}
		s.rets = uniq
	}
	// if c { return true } ; return false  ≡  return c
	if len(s.rets) == 2 && len(s.rets[0].conds) == 1 && len(s.rets[1].conds) == 1 && s.rets[0].consumed == s.rets[1].consumed && len(s.rets[0].results) == len(s.rets[1].results) {
		a, b := s.rets[0], s.rets[1]
		if strings.HasPrefix(a.conds[0], "eq(") && b.conds[0] == "ne("+a.conds[0][3:] {
			merged := rret{consumed: a.consumed}
			ok := true
			for i := range a.results {
				switch {
				case a.results[i] == b.results[i]:
					merged.results = append(merged.results, a.results[i])
				case a.results[i] == "0x1" && b.results[i] == "0x0":
					merged.results = append(merged.results, a.conds[0])
				default:
					ok = false
				}
			}
			if ok {
				s.rets = []rret{merged}
			}
		}
	}
}

func (s *rsum) String() string {
	if s.bad != "" {
		return "UNDECIDED: " + s.bad
	}
	var parts []string
	for _, r := range s.rets {
		parts = append(parts, fmt.Sprintf("{if [%s] → (%s) consuming %s}", strings.Join(r.conds, " & "), strings.Join(r.results, ", "), r.consumed))
	}
	return strings.Join(parts, " ")
}

// streamReader summarises (*BufferReader).ReadX() (…, err error): regions are
// the results of r.next(n) in program order, payloads come from r.readBinary.
func (L *layouts) streamReader(fn *ssa.Function) *rsum {
	if s, ok := L.rmemo[fn]; ok {
		return s
	}
	s := &rsum{}
	L.rmemo[fn] = s
	if len(fn.Blocks) == 0 {
		s.bad = "no body"
		return s
	}
	c := &lctx{P: L.P, fn: fn, args: map[*ssa.Parameter]*bx{}, layout: L}
	errBlocks := errorBranchBlocks(fn)
	regions := map[ssa.Value]lpos{} // Extract #0 of next(n) → base
	regionLen := map[ssa.Value]lpos{}
	payloads := map[ssa.Value]*bx{}          // destination slice value → bytes node
	inlined := map[*ssa.Call]*rawRet{}       // sibling calls
	consumedAt := map[*ssa.BasicBlock]lpos{} // running total at block entry
	endAt := map[*ssa.BasicBlock]lpos{}
	nres := fn.Signature.Results().Len()
	c.leaf = func(v ssa.Value) *bx {
		switch x := v.(type) {
		case *ssa.UnOp:
			if x.Op == token.MUL {
				if ia, ok := x.X.(*ssa.IndexAddr); ok {
					root, off, _ := c.sliceAt(ia.X, nil)
					if bp, ok := regions[root]; ok {
						p := bp.add(off).add(c.pos(ia.Index, nil))
						return &bx{op: "be", k: 1, w: 8, p: &p}
					}
				}
			}
		case *ssa.Call:
			if n := isBigEndianGet(x.Common().StaticCallee()); n > 0 {
				root, off, _ := c.sliceAt(x.Common().Args[1], nil)
				if bp, ok := regions[root]; ok {
					p := bp.add(off)
					return &bx{op: "be", k: uint64(n), w: 8 * n, p: &p}
				}
			}
			if e, ok := payloads[x]; ok {
				return e
			}
		case *ssa.Extract:
			if call, ok := x.Tuple.(*ssa.Call); ok {
				if r, ok := inlined[call]; ok && r != nil && x.Index < len(r.results) {
					return r.results[x.Index]
				}
			}
		}
		if e, ok := payloads[v]; ok {
			return e
		}
		// a whole region of wire-determined length used as a value (zero-copy string/binary)
		if bp, ok := regions[v]; ok {
			if n := regionLen[v]; n.c == 0 && len(n.syms) == 1 {
				p := bp
				return &bx{op: "bytes", p: &p, a: n.syms[0]}
			}
		}
		return nil
	}
	// walk the dominator tree, threading the running position; at a join the
	// predecessors that are not error exits must agree
	var walk func(b *ssa.BasicBlock, running lpos)
	walk = func(b *ssa.BasicBlock, running lpos) {
		if errBlocks[b] {
			return
		}
		consumedAt[b] = running
		for _, in := range b.Instrs {
			call, ok := in.(*ssa.Call)
			if !ok {
				continue
			}
			com := call.Common()
			cal := com.StaticCallee()
			switch {
			case isNextLike(call):
				n := c.pos(com.Args[nextLikeArg(call)], nil)
				for _, r := range *call.Referrers() {
					if ex, ok := r.(*ssa.Extract); ok && ex.Index == 0 {
						regions[ex] = running
						regionLen[ex] = n
					}
				}
				running = running.add(n)
			case isReadBinaryLike(call):
				dst := com.Args[readBinaryLikeArg(call)]
				// length of the destination: dirtmake.Bytes(n, n) / make([]byte, n)
				ln := &bx{op: "opaque", s: "payload length"}
				if mk, ok := dst.(*ssa.Call); ok && len(mk.Common().Args) >= 1 {
					k := 0
					if mcal := mk.Common().StaticCallee(); mcal != nil && inRepo(mcal) {
						// a repository allocator: which parameter is the length of what it returns
						if kk, ok := lenParamOf(L.P, mcal); ok {
							k = kk
						} else {
							k = -1
						}
					}
					if k >= 0 {
						ln = c.expr(mk.Common().Args[k]).norm()
					}
				} else if mk, ok := dst.(*ssa.MakeSlice); ok {
					ln = c.expr(mk.Len).norm()
				}
				p := running
				payloads[dst] = &bx{op: "bytes", p: &p, a: ln}
				running = running.add(lpos{syms: []*bx{ln}})
			case cal != nil && cal.Signature.Recv() != nil && len(com.Args) > 0 && com.Args[0] == ssa.Value(fn.Params[0]) && strings.HasPrefix(cal.Name(), "Read"):
				sub := L.streamReader(cal)
				if sub.bad != "" || len(sub.rets) != 1 || len(sub.raw) < 1 {
					s.bad = "nested " + cal.Name() + ": " + sub.bad
					inlined[call] = nil
					continue
				}
				rr := sub.raw[0]
				out := &rawRet{}
				for _, e := range rr.results {
					out.results = append(out.results, e.shift(running))
				}
				inlined[call] = out
				add := lpos{c: rr.consumed.c}
				for _, sy := range rr.consumed.syms {
					add.syms = append(add.syms, sy.shift(running))
				}
				running = running.add(add)
			}
		}
		endAt[b] = running
		if ret, ok := b.Instrs[len(b.Instrs)-1].(*ssa.Return); ok {
			errv := ret.Results[nres-1]
			success := isNilConst(errv)
			if !success {
				// propagated error of the last consuming call, or a value tested nil on this path
				for _, dc := range blockConds(b, nil, 0) {
					if bo, ok := dc.Cond.(*ssa.BinOp); ok && (bo.X == errv || bo.Y == errv) && (isNilConst(bo.X) || isNilConst(bo.Y)) {
						if (bo.Op == token.EQL) == dc.Truth {
							success = true
						}
					}
				}
				if ex, ok := errv.(*ssa.Extract); ok && ex.Block() == b {
					success = true
				}
				if ph, ok := errv.(*ssa.Phi); ok && ph.Block() == b {
					success = true
				}
			}
			// single-exit style: the results are phis of the return block and exactly one incoming edge is
			// not an error edge (its source is no error block and its branch does not say "err != nil")
			edge := -1
			if len(b.Preds) > 1 {
				var cands []int
				for i, p := range b.Preds {
					if errBlocks[p] {
						continue
					}
					isErrEdge, saysNil := false, false
					if iff, ok := p.Instrs[len(p.Instrs)-1].(*ssa.If); ok && p.Succs[0] != p.Succs[1] {
						for _, dc := range condImplies(iff.Cond, p.Succs[0] == b, 0) {
							if bo, ok := dc.Cond.(*ssa.BinOp); ok && (isNilConst(bo.X) || isNilConst(bo.Y)) {
								v := bo.X
								if isNilConst(v) {
									v = bo.Y
								}
								if isErrorType(v.Type()) {
									if (bo.Op == token.NEQ) == dc.Truth {
										isErrEdge = true
									} else if v == errv {
										saysNil = true
									}
								}
							}
						}
					}
					if isErrEdge {
						continue
					}
					if !saysNil {
						for _, dc := range blockConds(p, nil, 0) {
							if bo, ok := dc.Cond.(*ssa.BinOp); ok && (bo.X == errv || bo.Y == errv) && (isNilConst(bo.X) || isNilConst(bo.Y)) && (bo.Op == token.EQL) == dc.Truth {
								saysNil = true
							}
						}
					}
					if saysNil {
						cands = append(cands, i)
					}
				}
				if len(cands) == 1 {
					hasPhi := false
					for i := 0; i < nres-1; i++ {
						if ph, ok := ret.Results[i].(*ssa.Phi); ok && ph.Block() == b {
							hasPhi = true
						}
					}
					if hasPhi {
						edge = cands[0]
						success = true
					}
				}
			}
			if success {
				rr := rawRet{consumed: running}
				cb := b
				if edge >= 0 {
					cb = b.Preds[edge]
					rr.consumed = endAt[cb]
					if _, ok := endAt[cb]; !ok {
						rr.consumed = running
					}
				}
				for _, dc := range blockConds(cb, nil, 0) {
					if e := dataCond(c, dc); e != nil {
						rr.conds = append(rr.conds, e)
					}
				}
				for i := 0; i < nres-1; i++ {
					rv := ret.Results[i]
					if ph, ok := rv.(*ssa.Phi); ok && ph.Block() == b && edge >= 0 {
						rv = ph.Edges[edge]
					}
					rr.results = append(rr.results, c.expr(rv))
				}
				s.raw = append(s.raw, rr)
			}
		}
		for _, d := range b.Dominees() {
			walk(d, running)
		}
	}
	walk(fn.Blocks[0], lpos{})
	for _, b := range fn.Blocks {
		if errBlocks[b] {
			continue
		}
		for _, p := range b.Preds {
			if errBlocks[p] {
				continue
			}
			if e, ok := endAt[p]; ok && e.String() != consumedAt[b].String() {
				s.bad = fmt.Sprintf("paths into block %d have consumed different amounts (%s / %s)", b.Index, e.String(), consumedAt[b].String())
			}
		}
	}
	s.finish()
	return s
}

// isNextLike: a direct invoke of the buffered reader's Next(n), or a thin
// repository wrapper around it that passes its own parameter.
func isNextLike(c *ssa.Call) bool {
	if isInvokeOf(c, "Next") {
		return true
	}
	cal := c.Common().StaticCallee()
	if cal == nil || !inRepo(cal) {
		return false
	}
	_, ok := wrapsInvoke(cal, "Next")
	return ok
}

func nextLikeArg(c *ssa.Call) int {
	if isInvokeOf(c, "Next") {
		return 0
	}
	k, _ := wrapsInvoke(c.Common().StaticCallee(), "Next")
	return k
}

func isReadBinaryLike(c *ssa.Call) bool {
	if isInvokeOf(c, "ReadBinary") {
		return true
	}
	cal := c.Common().StaticCallee()
	if cal == nil || !inRepo(cal) {
		return false
	}
	_, ok := wrapsInvoke(cal, "ReadBinary")
	return ok
}

func readBinaryLikeArg(c *ssa.Call) int {
	if isInvokeOf(c, "ReadBinary") {
		return 0
	}
	k, _ := wrapsInvoke(c.Common().StaticCallee(), "ReadBinary")
	return k
}

// lenParamOf: every return of the repository function fn yields a byte slice
// whose length is proved equal to fn's integer parameter k.
func lenParamOf(P *Program, fn *ssa.Function) (int, bool) {
	if fn == nil || fn.Blocks == nil {
		return 0, false
	}
	A := newAnalysis(P)
	fa := A.fa(fn)
	for _, c := range callsIn(fn) {
		if cc, ok := c.(*ssa.Call); ok {
			fa.externalAllocFacts(cc)
		}
	}
	rets := returnsOf(fn)
	for k, p := range fn.Params {
		if !isPlainInt(p.Type()) {
			continue
		}
		n := fa.expand(p)
		all := len(rets) > 0
		for _, ret := range rets {
			if len(ret.Results) == 0 {
				all = false
				break
			}
			d := fa.sliceDesc(ret.Results[0])
			if d == nil || !fa.proveEq(d.Len, n, ret.Block()) {
				all = false
				break
			}
		}
		if all {
			return k, true
		}
	}
	return 0, false
}

// inplaceWriterOn summarises an in-place writer like inplaceWriter, but only over
// the blocks accepted by keep and with the value parameters named explicitly
// (used for functions that have an alternative path the summary must not mix in).
func (L *layouts) inplaceWriterOn(fn *ssa.Function, buf *ssa.Parameter, args map[*ssa.Parameter]*bx, keep func(*ssa.BasicBlock) bool) *wsum {
	s := &wsum{}
	if len(fn.Blocks) == 0 {
		s.bad = "no body"
		return s
	}
	c := &lctx{P: L.P, fn: fn, args: args, layout: L}
	tmp := &wsum{}
	L.collectStores(c, tmp, func(root ssa.Value) (lpos, bool) {
		if root == ssa.Value(buf) {
			return lpos{}, true
		}
		return lpos{}, false
	}, nil)
	_ = tmp
	// collectStores has no block filter: redo it here with the filter applied
	s.units = nil
	s.bad = tmp.bad
	filtered := &wsum{}
	L.collectStoresKeep(c, filtered, buf, keep)
	s.units = filtered.units
	if filtered.bad != "" {
		s.bad = filtered.bad
	}
	first := true
	for _, r := range returnsOf(fn) {
		if !keep(r.Block()) {
			continue
		}
		t := c.pos(r.Results[0], nil)
		if first {
			s.total = t
			first = false
		} else if t.String() != s.total.String() {
			s.bad = "returns differ: " + s.total.String() + " / " + t.String()
		}
	}
	if first {
		s.bad = "no return on the selected path"
	}
	return s
}

func (L *layouts) collectStoresKeep(c *lctx, s *wsum, buf *ssa.Parameter, keep func(*ssa.BasicBlock) bool) {
	all := &wsum{}
	// run the ordinary collection on a view of the function restricted to kept blocks
	fn := c.fn
	for _, b := range fn.Blocks {
		if !keep(b) {
			continue
		}
		for _, in := range b.Instrs {
			switch x := in.(type) {
			case *ssa.Store:
				ia, ok := x.Addr.(*ssa.IndexAddr)
				if !ok {
					continue
				}
				root, off, _ := c.sliceAt(ia.X, nil)
				if root != ssa.Value(buf) {
					continue
				}
				all.units = append(all.units, wunit{pos: off.add(c.pos(ia.Index, nil)), e: c.expr(x.Val)})
			case *ssa.Call:
				com := x.Common()
				if bi, ok := com.Value.(*ssa.Builtin); ok && bi.Name() == "copy" {
					root, off, _ := c.sliceAt(com.Args[0], nil)
					if root == ssa.Value(buf) {
						all.units = append(all.units, wunit{pos: off, payload: true, e: c.expr(com.Args[1])})
					}
					continue
				}
				cal := com.StaticCallee()
				if n := isBigEndianPut(cal); n > 0 {
					root, off, _ := c.sliceAt(com.Args[1], nil)
					if root == ssa.Value(buf) {
						e := c.expr(com.Args[2])
						for k := 0; k < n; k++ {
							all.units = append(all.units, wunit{pos: off.addC(int64(k)), e: e, lo: 8 * (n - 1 - k)})
						}
					}
					continue
				}
				if isBinaryProtocolMethod(cal) && strings.HasPrefix(cal.Name(), "Write") && len(com.Args) >= 2 && cal != fn {
					root, off, _ := c.sliceAt(com.Args[1], nil)
					if root == ssa.Value(buf) {
						sub := L.inplaceWriter(cal)
						if sub.bad != "" {
							all.bad = cal.Name() + ": " + sub.bad
						}
						all.units = append(all.units, sub.substShift(orderedArgs(c, cal, com.Args, true), off)...)
					}
				}
			}
		}
	}
	s.units = all.units
	s.bad = all.bad
}

// mergeByteLoads recognises a big-endian word assembled by hand,
// b[p]<<8(n-1) | … | b[p+n-1], and returns the single load be<n>@p.
func mergeByteLoads(e *bx) *bx {
	type part struct {
		be    *bx
		shift int
	}
	var parts []part
	ok := true
	var flat func(x *bx)
	flat = func(x *bx) {
		if !ok {
			return
		}
		if x.op == "or" {
			flat(x.a)
			flat(x.b)
			return
		}
		sh := 0
		if x.op == "shl" {
			sh = int(x.k)
			x = x.a
		}
		for x.op == "zext" {
			x = x.a
		}
		if x.op != "be" || x.p == nil || x.p.bad != "" {
			ok = false
			return
		}
		parts = append(parts, part{x, sh})
	}
	flat(e)
	if !ok || len(parts) < 2 {
		return nil
	}
	sort.Slice(parts, func(i, j int) bool { return parts[i].shift > parts[j].shift })
	total := 0
	for _, p := range parts {
		total += int(p.be.k)
	}
	if total > 8 || total*8 > e.w {
		return nil
	}
	rem := total
	pos := *parts[0].be.p
	for _, p := range parts {
		rem -= int(p.be.k)
		if p.shift != 8*rem || p.be.p.String() != pos.String() {
			return nil
		}
		pos = pos.addC(int64(p.be.k))
	}
	p0 := *parts[0].be.p
	m := &bx{op: "be", k: uint64(total), w: 8 * total, p: &p0}
	if e.w > 8*total {
		return &bx{op: "zext", w: e.w, signed: e.signed, a: m}
	}
	m.signed = e.signed
	return m
}
