package main

// C14 — concurrency: no shared mutable state between instances; pooled objects
// are reset; map queries are read-only.

import (
	"fmt"
	"go/ast"
	"go/token"
	"go/types"
	"sort"
	"strings"

	"golang.org/x/tools/go/ssa"
)

// configuration variables: written outside init by exactly these functions
// (documented switches; concurrent use with them is the caller's business).
var c14ConfigWriters = map[string]string{
	"protocol/thrift.spanCacheEnable":       "SetSpanCache",
	"protocol/thrift/apache.fnCheckTStruct": "RegisterCheckTStruct",
	"protocol/thrift/apache.fnThriftRead":   "RegisterThriftRead",
	"protocol/thrift/apache.fnThriftWrite":  "RegisterThriftWrite",
}

// pooled fields that deliberately survive a Put (private scratch memory that
// never holds caller data beyond the next use).
var c14PoolKeep = map[string]string{
	"ReaderSkipDecoder.b": "private scratch buffer obtained from mcache, reused without reallocation; overwritten before being read",
}

func isSyncPool(t types.Type) bool {
	n, ok := deref(t).(*types.Named)
	return ok && n.Obj().Pkg() != nil && n.Obj().Pkg().Path() == "sync" && n.Obj().Name() == "Pool"
}

func repoFuncs(P *Program) []*ssa.Function {
	var out []*ssa.Function
	for fn := range P.AllFuncs {
		if inRepo(fn) && fn.Blocks != nil && !strings.Contains(fnPkgPath(fn), "/internal/testutils") {
			out = append(out, fn)
		}
	}
	sort.Slice(out, func(i, j int) bool { return out[i].String() < out[j].String() })
	return out
}

func isInitFunc(fn *ssa.Function) bool {
	for f := fn; f != nil; f = f.Parent() {
		if f.Name() == "init" && f.Synthetic != "" {
			return true
		}
		if strings.HasPrefix(f.Name(), "init#") {
			return true
		}
	}
	return false
}

func checkC14(P *Program, r *Result, tier string) {
	r.Explanation = "Absence of shared mutable state, for all schedules: GLOBALS (every package-level variable of the repository is immutable after init, a sync.Pool used only through Get/Put, or one of four documented configuration switches with a single writer), " +
		"WRITE-ROOTS (every store reachable from the instance methods of readers, writers, codecs, skip decoders and header codecs targets the receiver, a parameter, a local or a fresh/pooled object — never a global or an unknown location), " +
		"POOL-OWNERSHIP (buffers are handed to the shared mcache pool only under the ownership flags, so caller memory never reaches another instance), POOL-RESET (before each Pool.Put every field of the pooled object is zeroed on all paths, and after Get the constructor sets the fields it hands out), READONLY (the query methods of the string maps write nothing)."
	funcs := repoFuncs(P)
	// ---------- GLOBALS ----------
	type use struct {
		fn   *ssa.Function
		in   ssa.Instruction
		kind string
	}
	uses := map[*ssa.Global][]use{}
	var classify func(fn *ssa.Function, g *ssa.Global, v ssa.Value, in ssa.Instruction, viaAddr bool)
	classify = func(fn *ssa.Function, g *ssa.Global, v ssa.Value, in ssa.Instruction, viaAddr bool) {
		switch x := in.(type) {
		case *ssa.UnOp:
			if x.Op == token.MUL {
				uses[g] = append(uses[g], use{fn, in, "load"})
				return
			}
		case *ssa.Store:
			if x.Addr == v {
				uses[g] = append(uses[g], use{fn, in, "store"})
				return
			}
			uses[g] = append(uses[g], use{fn, in, "escape"})
			return
		case *ssa.FieldAddr, *ssa.IndexAddr:
			val := in.(ssa.Value)
			if refs := val.Referrers(); refs != nil {
				for _, r2 := range *refs {
					classify(fn, g, val, r2, true)
				}
			}
			return
		case ssa.CallInstruction:
			com := x.Common()
			if isSyncPool(g.Type()) {
				if cal := com.StaticCallee(); cal != nil && (cal.Name() == "Get" || cal.Name() == "Put") && len(com.Args) > 0 && com.Args[0] == v {
					uses[g] = append(uses[g], use{fn, in, "pool"})
					return
				}
			}
			uses[g] = append(uses[g], use{fn, in, "escape"})
			return
		case *ssa.DebugRef:
			return
		}
		uses[g] = append(uses[g], use{fn, in, "escape"})
	}
	for _, fn := range funcs {
		for _, b := range fn.Blocks {
			for _, in := range b.Instrs {
				var ops []*ssa.Value
				for _, op := range in.Operands(ops) {
					if g, ok := (*op).(*ssa.Global); ok && g.Pkg != nil && strings.HasPrefix(g.Pkg.Pkg.Path(), modPath) && !strings.Contains(g.Pkg.Pkg.Path(), "/internal/testutils") {
						classify(fn, g, g, in, false)
					}
				}
			}
		}
	}
	var globals []*ssa.Global
	for _, sp := range P.SSAPkgs {
		if !strings.HasPrefix(sp.Pkg.Path(), modPath) || strings.Contains(sp.Pkg.Path(), "/internal/testutils") {
			continue
		}
		for _, m := range sp.Members {
			if g, ok := m.(*ssa.Global); ok && !strings.HasPrefix(g.Name(), "init$") {
				globals = append(globals, g)
			}
		}
	}
	sort.Slice(globals, func(i, j int) bool { return globals[i].String() < globals[j].String() })
	if len(globals) < 20 {
		r.fatal("only %d package-level variables found (vacuity guard)", len(globals))
	}
	classes := map[string]int{}
	for _, g := range globals {
		rel := strings.TrimPrefix(g.Pkg.Pkg.Path(), modPath+"/") + "." + g.Name()
		class := "immutable"
		detail := ""
		ok := true
		writer := c14ConfigWriters[rel]
		for _, u := range uses[g] {
			switch u.kind {
			case "load":
			case "pool":
				class = "pool"
			case "store":
				if isInitFunc(u.fn) {
					continue
				}
				if (writer != "" && u.fn.Name() == writer) || isConfigSetterStore(u.fn, u.in) {
					class = "configuration"
					continue
				}
				ok = false
				detail = "written outside init by " + shortName(u.fn) + " at " + P.pos(instrPos(u.in))
			case "escape":
				if isInitFunc(u.fn) {
					continue
				}
				ok = false
				detail = "address escapes in " + shortName(u.fn) + " at " + P.pos(instrPos(u.in))
			}
		}
		classes[class]++
		r.add("GLOBALS", rel, "var", "package-level variable is "+class, P.pos(g.Pos()), ok, detail)
	}
	r.Extra["global_classes"] = classes
	// objects that package-level variables point to are shared by every user of the package: their type's
	// fields are stored only into objects the storing function has just made
	shared := map[*types.Named]*ssa.Global{}
	for _, g := range globals {
		if pt, ok := g.Type().(*types.Pointer); ok { // g's type is *(declared type)
			if pp, ok := pt.Elem().Underlying().(*types.Pointer); ok {
				if n, ok := pp.Elem().(*types.Named); ok && !isSyncPool(n) {
					if _, isStruct := n.Underlying().(*types.Struct); isStruct && n.Obj().Pkg() != nil && strings.HasPrefix(n.Obj().Pkg().Path(), modPath) {
						if shared[n] == nil {
							shared[n] = g
						}
					}
				}
			}
		}
	}
	nShared := 0
	for _, fn := range funcs {
		if isInitFunc(fn) {
			continue
		}
		for _, b := range fn.Blocks {
			for _, in := range b.Instrs {
				st, ok := in.(*ssa.Store)
				if !ok {
					continue
				}
				fa, ok := st.Addr.(*ssa.FieldAddr)
				if !ok {
					continue
				}
				// the object the field lives in, through embedded structs
				var n *types.Named
				base := fa.X
				for {
					if pt, ok := base.Type().Underlying().(*types.Pointer); ok {
						if nn, ok := pt.Elem().(*types.Named); ok && shared[nn] != nil {
							n = nn
							break
						}
					}
					inner, ok := base.(*ssa.FieldAddr)
					if !ok {
						break
					}
					base = inner.X
				}
				if n == nil {
					continue
				}
				nShared++
				fresh, bad := onlyFresh(rootsOf(base))
				if _, isAlloc := base.(*ssa.Alloc); isAlloc {
					fresh = true
				}
				r.add("GLOBALS", shortName(fn), "shared", "a field of "+n.Obj().Name()+" (instances of which are package-level singletons such as "+shared[n].Name()+") is set only in an object made by the same function", P.pos(instrPos(st)), fresh, bad)
			}
		}
	}
	r.Extra["stores_into_singleton_types"] = nShared

	// ---------- WRITE-ROOTS ----------
	instTypes := map[string][]string{
		"bufiox":               {"DefaultReader", "DefaultWriter", "BytesReader", "BytesWriter"},
		"protocol/thrift":      {"BinaryProtocol", "BufferReader", "BufferWriter", "SkipDecoder", "BytesSkipDecoder", "ReaderSkipDecoder", "ApplicationException", "ProtocolException", "TransportException"},
		"protocol/thrift/base": {"Base", "BaseResp"},
		"container/strmap":     {"StrMap", "Str2Str"},
		"internal/strstore":    {"StrStore"},
	}
	entryFns := []*ssa.Function{}
	for rel, tys := range instTypes {
		for _, ty := range tys {
			ms := P.methodsNamed(rel, ty, func(string) bool { return true })
			entryFns = append(entryFns, ms...)
		}
	}
	for _, n := range []string{"Encode", "EncodeToBytes", "Decode", "DecodeFromBytes"} {
		if f := P.Func("protocol/ttheader", n); r.require("ttheader."+n, f != nil) {
			entryFns = append(entryFns, f)
		}
	}
	for _, n := range []string{"NewBufferReader", "NewBufferWriter", "NewSkipDecoder", "NewBytesSkipDecoder", "NewReaderSkipDecoder", "FastMarshal", "FastUnmarshal", "MarshalFastMsg", "UnmarshalFastMsg"} {
		if f := P.Func("protocol/thrift", n); r.require("thrift."+n, f != nil) {
			entryFns = append(entryFns, f)
		}
	}
	// generic instances too
	for fn := range P.AllFuncs {
		if inRepo(fn) && fn.Blocks != nil && fn.Signature.Recv() != nil && (strings.Contains(fn.String(), "SkipDecoderTpl") || strings.Contains(fn.String(), "StrMap[")) {
			entryFns = append(entryFns, fn)
		}
	}
	if len(entryFns) < 100 {
		r.fatal("only %d instance entry points found (vacuity guard)", len(entryFns))
	}
	seenFn := map[*ssa.Function]bool{}
	nStores := 0
	for _, fn := range entryFns {
		if seenFn[fn] {
			continue
		}
		seenFn[fn] = true
		bad := ""
		for _, e := range globalEffects.of(fn) {
			nStores++
			if strings.HasPrefix(e.Key, "G:") {
				rel := strings.TrimPrefix(strings.TrimPrefix(e.Key, "G:"), modPath+"/")
				base := rel
				if i := strings.IndexAny(rel, "[*{"); i >= 0 {
					base = rel[:i]
				}
				if c14ConfigWriters[base] != "" || isConfigSetterStore(e.In.Parent(), e.In) {
					continue
				}
				bad = "store to global " + rel + " at " + P.pos(instrPos(e.In)) + " " + e.Via
			}
			if e.Key == "?" || strings.HasPrefix(e.Key, "?") {
				bad = "store to an unresolved location at " + P.pos(instrPos(e.In)) + " " + e.Via
			}
		}
		r.add("WRITE-ROOTS", shortName(fn), "effects", "all stores target the receiver, parameters, locals or fresh/pooled objects", P.pos(fn.Pos()), bad == "", bad)
	}
	r.Extra["stores_classified"] = nStores

	// ---------- POOL-NEW: what a pool makes on demand is a new object each time ----------
	nNew := 0
	for fn := range P.AllFuncs {
		if !inRepo(fn) || fn.Blocks == nil || strings.Contains(fnPkgPath(fn), "/internal/testutils") {
			continue
		}
		for _, b := range fn.Blocks {
			for _, in := range b.Instrs {
				st, ok := in.(*ssa.Store)
				if !ok {
					continue
				}
				fad, ok := st.Addr.(*ssa.FieldAddr)
				if !ok || !isSyncPool(deref(fad.X.Type())) {
					continue
				}
				if ps, isS := deref(fad.X.Type()).Underlying().(*types.Struct); !isS || ps.Field(fad.Field).Name() != "New" {
					continue
				}
				var mk *ssa.Function
				switch v := st.Val.(type) {
				case *ssa.Function:
					mk = v
				case *ssa.MakeClosure:
					mk, _ = v.Fn.(*ssa.Function)
				}
				nNew++
				okNew, detail := mk != nil && mk.Blocks != nil, "the New function of the pool is not a function literal the rule can read"
				if okNew {
					detail = ""
					for _, ret := range returnsOf(mk) {
						v := ret.Results[0]
						if mi, isMI := v.(*ssa.MakeInterface); isMI {
							v = mi.X
						}
						fresh, why := onlyFresh(rootsOf(v))
						if al, isAl := v.(*ssa.Alloc); isAl && al.Heap && al.Parent() == mk {
							fresh = true
						}
						if !fresh {
							okNew, detail = false, "New hands out "+why+", which is the same object on every call"
						}
					}
				}
				r.add("POOL-RESET", shortName(fn), "new", "what the pool makes on demand is a freshly allocated object each time", P.pos(instrPos(st)), okNew, detail)
			}
		}
	}
	if nNew < 3 {
		r.fatal("expected the New functions of at least 3 sync.Pool variables, found %d", nNew)
	}

	// ---------- POOL-RESET ----------
	nPut := 0
	for _, fn := range funcs {
		for _, c := range callsIn(fn) {
			cal := c.Common().StaticCallee()
			if cal == nil || cal.Name() != "Put" || fnPkgPath(cal) != "sync" {
				continue
			}
			nPut++
			put := c.(*ssa.Call)
			obj := stripIface(c.Common().Args[1])
			st, ok := deref(obj.Type()).Underlying().(*types.Struct)
			tname := deref(obj.Type()).String()
			tname = tname[strings.LastIndex(tname, ".")+1:]
			if !ok {
				r.add("POOL-RESET", shortName(fn), "put", "pooled value is a struct pointer", P.pos(instrPos(put)), false, "")
				continue
			}
			for i := 0; i < st.NumFields(); i++ {
				f := canonFieldName(obj.Type(), i)
				if why, keep := c14PoolKeep[tname+"."+f]; keep {
					r.add("POOL-RESET", shortName(fn), "field", tname+"."+f+" survives the pool by design: "+why, P.pos(instrPos(put)), true, "listed exception")
					continue
				}
				ok, detail := zeroedBefore(fn, put, obj, i, st)
				r.add("POOL-RESET", shortName(fn), "field", tname+"."+f+" is zeroed on every path before Put", P.pos(instrPos(put)), ok, detail)
			}
		}
	}
	if nPut < 5 {
		r.fatal("expected 5 sync.Pool.Put sites, found %d", nPut)
	}
	// after Get the constructor overwrites what it hands out
	for _, fn := range funcs {
		for _, c := range callsIn(fn) {
			cal := c.Common().StaticCallee()
			if cal == nil || cal.Name() != "Get" || fnPkgPath(cal) != "sync" {
				continue
			}
			// parameters of the constructor must be stored into the object (directly or via a one-level helper)
			for _, p := range fn.Params {
				switch p.Type().Underlying().(type) {
				case *types.Interface, *types.Slice, *types.Pointer:
				default:
					continue
				}
				used := false
				for _, b := range fn.Blocks {
					for _, in := range b.Instrs {
						if st, ok := in.(*ssa.Store); ok && st.Val == ssa.Value(p) {
							used = true
						}
						if c2, ok := in.(ssa.CallInstruction); ok {
							for _, a := range c2.Common().Args {
								if a == ssa.Value(p) {
									used = true
								}
							}
						}
					}
				}
				r.add("POOL-RESET", shortName(fn), "ctor", "the constructor installs its argument "+p.Name()+" in the pooled object", P.pos(fn.Pos()), used, "")
			}
		}
	}

	// ---------- POOL-OWNERSHIP ----------
	ownerGuardRules(P, r, "POOL-OWNERSHIP")
	// a buffer given back to the shared pool while its instance still uses it is the other way one instance's bytes
	// reach another: the recycling discipline of C09 (who may free, forget after free) belongs here too
	{
		tmp := newResult(r.Prop)
		checkC09(P, tmp, tier)
		r.Fatal = append(r.Fatal, tmp.Fatal...)
		n := 0
		for _, o := range tmp.Obls {
			if strings.HasSuffix(o.Rule, "/WHO-FREES") || strings.HasSuffix(o.Rule, "/FREE-THEN-FORGET") {
				o.Rule = r.Prop + "/POOL-OWNERSHIP"
				r.Obls = append(r.Obls, o)
				n++
			}
		}
		if n < 10 {
			r.fatal("expected the recycling obligations of C09, found %d", n)
		}
	}
	// values handed to the caller do not alias pooled buffers of the instance that produced them
	copyRules(P, r, "POOL-OWNERSHIP", []*ssa.Function{P.Func(relTT, "ReadString2BLen"), P.Method(relThrift, "BinaryProtocol", "ReadString"), P.Method(relThrift, "BinaryProtocol", "ReadBinary"), P.Method(relThrift, "BufferReader", "ReadString"), P.Method(relThrift, "BufferReader", "ReadBinary")})

	// ---------- READONLY ----------
	ro := 0
	roFns := map[*ssa.Function]bool{}
	for fn := range P.AllFuncs {
		roFns[fn] = true
	}
	for _, fn := range P.genericMethods("container/strmap", "StrMap") {
		roFns[fn] = true
	}
	var roList []*ssa.Function
	for fn := range roFns {
		roList = append(roList, fn)
	}
	sort.Slice(roList, func(i, j int) bool { return roList[i].String() < roList[j].String() })
	for _, fn := range roList {
		if !inRepo(fn) || fn.Blocks == nil || fn.Signature.Recv() == nil {
			continue
		}
		pp := fnPkgPath(fn)
		isMap := (pp == modPath+"/container/strmap" && (strings.Contains(fn.String(), "StrMap") || strings.Contains(fn.String(), "Str2Str"))) || pp == modPath+"/internal/strstore"
		if !isMap {
			continue
		}
		switch baseName(fn) {
		case "Get", "Len", "Item", "String":
		default:
			continue
		}
		ro++
		bad := ""
		for _, e := range globalEffects.of(fn) {
			if strings.HasPrefix(e.Key, "P:") || strings.HasPrefix(e.Key, "G:") || strings.HasPrefix(e.Key, "?") {
				bad = fmt.Sprintf("writes %s at %s %s", e.Key, P.pos(instrPos(e.In)), e.Via)
			}
		}
		r.add("READONLY", shortName(fn), "effects", "query method writes no shared state", P.pos(fn.Pos()), bad == "", bad)
	}
	if ro < 8 {
		r.fatal("expected at least 8 read-only map methods (incl. generic instances), found %d", ro)
	}
	r.assume("sync.Pool, mcache and span allocator are themselves safe for concurrent use (dependencies); sharing one instance between goroutines is misuse and out of scope")
}

// zeroedBefore: field i of *obj is stored with its zero value on every path from
// the function entry to the Put (directly, by a whole-struct zero store, or by a
// one-level helper called with a nil/zero argument).
func zeroedBefore(fn *ssa.Function, put *ssa.Call, obj ssa.Value, i int, st *types.Struct) (bool, string) {
	isZero := func(v ssa.Value) bool {
		c, ok := v.(*ssa.Const)
		if !ok {
			return false
		}
		if c.Value == nil {
			return true
		}
		s := c.Value.String()
		return s == "0" || s == "false" || s == `""`
	}
	zeroes := func(in ssa.Instruction) bool {
		switch x := in.(type) {
		case *ssa.Store:
			if fa, ok := x.Addr.(*ssa.FieldAddr); ok && fa.X == obj && fa.Field == i && isZero(x.Val) {
				return true
			}
			if x.Addr == obj {
				// whole-struct store: zero constant or a composite literal without that field set
				if isZero(x.Val) {
					return true
				}
				if ld, ok := x.Val.(*ssa.UnOp); ok && ld.Op == token.MUL {
					if al, ok := ld.X.(*ssa.Alloc); ok {
						set := false
						for _, ref := range *al.Referrers() {
							if fa, ok := ref.(*ssa.FieldAddr); ok && fa.Field == i {
								for _, r2 := range *fa.Referrers() {
									if s2, ok := r2.(*ssa.Store); ok && !isZero(s2.Val) {
										set = true
									}
								}
							}
						}
						return !set
					}
				}
			}
		case ssa.CallInstruction:
			cal := x.Common().StaticCallee()
			if cal == nil || !inRepo(cal) || cal.Blocks == nil || len(x.Common().Args) == 0 || x.Common().Args[0] != obj {
				return false
			}
			// helper: stores a parameter (passed as zero here) or a zero constant into the field on its single path
			for _, b := range cal.Blocks {
				for _, in2 := range b.Instrs {
					s2, ok := in2.(*ssa.Store)
					if !ok {
						continue
					}
					fa, ok := s2.Addr.(*ssa.FieldAddr)
					if !ok || fa.X != ssa.Value(cal.Params[0]) || fa.Field != i {
						continue
					}
					if isZero(s2.Val) && len(cal.Blocks) == 1 {
						return true
					}
					for k, p := range cal.Params {
						if s2.Val == ssa.Value(p) && k < len(x.Common().Args) && isZero(x.Common().Args[k]) && len(cal.Blocks) == 1 {
							return true
						}
					}
				}
			}
		}
		return false
	}
	// every path entry → put passes a zeroing instruction
	entry := fn.Blocks[0].Instrs[0]
	if zeroes(entry) {
		return true, ""
	}
	if reachesWithoutIncl(entry, put, zeroes) {
		return false, "a path reaches the Put without clearing field " + st.Field(i).Name()
	}
	return true, ""
}

// reachesWithoutIncl is reachesWithout starting at `from` itself.
func reachesWithoutIncl(from, to ssa.Instruction, stop func(ssa.Instruction) bool) bool {
	if from == to {
		return true
	}
	if stop(from) {
		return false
	}
	return reachesWithout(from, to, stop)
}

func init() { register("C14", "other", checkC14) }

// isConfigSetterStore: the store is the whole point of an exported package-level
// setter (Register…/Set…): it puts one of the function's own parameters into a
// package-level variable (or a field of one). Such process-wide switches are
// configuration by design, not shared state between instances; they are listed
// in the evidence.
func isConfigSetterStore(fn *ssa.Function, in ssa.Instruction) bool {
	st, ok := in.(*ssa.Store)
	if !ok || fn == nil || fn.Signature.Recv() != nil || !ast.IsExported(fn.Name()) {
		return false
	}
	if !(strings.HasPrefix(fn.Name(), "Register") || strings.HasPrefix(fn.Name(), "Set")) {
		return false
	}
	v := st.Val
	for {
		if cv, isCv := v.(*ssa.Convert); isCv {
			v = cv.X
			continue
		}
		if ct, isCt := v.(*ssa.ChangeType); isCt {
			v = ct.X
			continue
		}
		break
	}
	p, isP := v.(*ssa.Parameter)
	if !isP || p.Parent() != fn {
		return false
	}
	// the target is a global or a field of a global
	a := st.Addr
	for {
		if fa, isFA := a.(*ssa.FieldAddr); isFA {
			a = fa.X
			continue
		}
		break
	}
	_, isG := a.(*ssa.Global)
	return isG
}
