package main

// C16 (decoded values are independent copies) and C17 (decode failures carry
// the right Thrift exception type / keep the source error).

import (
	"fmt"
	"go/token"
	"go/types"
	"strings"

	"golang.org/x/tools/go/ssa"
)

func checkC16(P *Program, r *Result, tier string) {
	r.Explanation = "Alias-root analysis (E6): the string/[]byte results of Binary.ReadBinary/ReadString/ReadMessageBegin, BufferReader.ReadBinary/ReadString/ReadMessageBegin and ttheader.ReadString2BLen, and every string stored into a struct field or map by the shipped FastRead methods, have root sets that contain only fresh allocations (COPIES); " +
		"unsafex.BinaryToString is applied in the decoders only to such private slices (PRIVATE-CAST); both branches of the span-cache switch copy the same source range (SAME-SOURCE), so results do not depend on the allocator setting."
	var fns []*ssa.Function
	for _, n := range []string{"ReadBinary", "ReadString", "ReadMessageBegin"} {
		for _, typ := range []string{"BinaryProtocol", "BufferReader"} {
			f := P.Method(relThrift, typ, n)
			if r.require("thrift."+typ+"."+n, f != nil) {
				fns = append(fns, f)
			}
		}
	}
	if f := P.Func(relTT, "ReadString2BLen"); r.require("ttheader.ReadString2BLen", f != nil) {
		fns = append(fns, f)
	}
	for _, f := range fns {
		r.Funcs[shortName(f)] = true
	}
	copyRules(P, r, "COPIES", fns)
	// stores of decoded strings by the FastRead methods
	var frs []*ssa.Function
	for _, x := range [][2]string{{"protocol/thrift/base", "Base"}, {"protocol/thrift/base", "BaseResp"}, {relThrift, "ApplicationException"}} {
		f := P.Method(x[0], x[1], "FastRead")
		if r.require(x[1]+".FastRead", f != nil) {
			frs = append(frs, f)
		}
	}
	ns := 0
	for _, fn := range frs {
		r.Funcs[shortName(fn)] = true
		for _, b := range fn.Blocks {
			for _, in := range b.Instrs {
				switch x := in.(type) {
				case *ssa.Store:
					if !isSliceOrString(x.Val.Type()) || recvFieldOf(fn, x.Addr) == "" {
						continue
					}
					ns++
					ok, bad := onlyFresh(rootsOf(x.Val))
					r.add("COPIES", shortName(fn), "store", "string stored in field "+recvFieldOf(fn, x.Addr)+" shares no memory with the input", P.pos(instrPos(x)), ok, bad)
				case *ssa.MapUpdate:
					for _, v := range []ssa.Value{x.Key, x.Value} {
						if isSliceOrString(v.Type()) {
							ns++
							ok, bad := onlyFresh(rootsOf(v))
							r.add("COPIES", shortName(fn), "mapstore", "map key/value shares no memory with the input", P.pos(instrPos(x)), ok, bad)
						}
					}
				}
			}
		}
	}
	if ns < 8 {
		r.fatal("expected at least 8 field/map stores of decoded strings in the FastRead methods, found %d", ns)
	}
	// PRIVATE-CAST
	nc := 0
	for _, fn := range repoFuncs(P) {
		pp := fnPkgPath(fn)
		if !strings.HasPrefix(pp, modPath+"/protocol/") {
			continue
		}
		for _, c := range callsIn(fn) {
			if !isCallTo(c, modPath+"/unsafex", "BinaryToString") {
				continue
			}
			nc++
			// a view that is only read on the spot (handed to a writer, compared, measured) is no decoded value
			if cv, isVal := c.(ssa.Value); isVal && !viewEscapes(cv, 0) {
				continue
			}
			ok, bad := onlyFresh(rootsOf(c.Common().Args[0]))
			// ... and that slice is not handed back to the buffer pool by this function
			if ok {
				mine := map[Root]bool{}
				for _, k := range rootsOf(c.Common().Args[0]) {
					mine[k] = true
				}
				for _, c2 := range callsIn(fn) {
					if cal := c2.Common().StaticCallee(); cal == nil || cal.Name() != "Free" || len(c2.Common().Args) != 1 || !isByteSlice(c2.Common().Args[0].Type()) {
						continue
					}
					for _, k := range rootsOf(c2.Common().Args[0]) {
						if mine[k] {
							ok, bad = false, "the slice is recycled at "+P.pos(instrPos(c2.(ssa.Instruction)))+" while the string made of it lives on"
						}
					}
				}
			}
			r.add("PRIVATE-CAST", shortName(fn), "call", "the zero-copy []byte→string view is taken of a private, freshly allocated slice only", P.pos(instrPos(c.(ssa.Instruction))), ok, bad)
		}
	}
	if nc < 2 {
		r.fatal("expected at least 2 uses of unsafex.BinaryToString in the decoders, found %d", nc)
	}
	// SAME-SOURCE
	A := newAnalysis(P)
	for _, n := range []string{"ReadBinary", "ReadString"} {
		fn := P.Method(relThrift, "BinaryProtocol", n)
		if fn == nil {
			continue
		}
		fa := A.fa(fn)
		var srcs []*SliceDesc
		var poss []string
		for _, b := range fn.Blocks {
			for _, in := range b.Instrs {
				switch x := in.(type) {
				case *ssa.Call:
					if isCallTo(x, pkgSpan, "Copy") {
						if d := fa.sliceDesc(x.Common().Args[len(x.Common().Args)-1]); d != nil {
							srcs = append(srcs, d)
							poss = append(poss, P.pos(instrPos(x)))
						}
					}
				case *ssa.Convert:
					if isByteSlice(x.X.Type()) && isString(x.Type()) {
						if d := fa.sliceDesc(x.X); d != nil && d.Root == ssa.Value(fn.Params[1]) {
							srcs = append(srcs, d)
							poss = append(poss, P.pos(instrPos(x)))
						}
					}
				}
			}
		}
		ok := len(srcs) >= 2
		for i := 1; i < len(srcs); i++ {
			if srcs[i].Root != srcs[0].Root || !srcs[i].Off.equal(srcs[0].Off) || !srcs[i].Len.equal(srcs[0].Len) {
				ok = false
			}
		}
		r.add("SAME-SOURCE", shortName(fn), "copies", "both allocator branches copy the same range of the input", P.pos(fn.Pos()), ok, strings.Join(poss, ", "))
	}
	r.assume("span.Copy returns a fresh slice with cap == len; dirtmake.Bytes returns fresh memory (dependency summaries); string([]byte) and []byte(string) copy (Go specification)")
}

// ---------------- C17 ----------------

// causeClass classifies the condition on the edge into block b.
func causeClass(P *Program, fa *FA, b *ssa.BasicBlock) (class string, detail string) {
	if len(b.Preds) != 1 {
		return "", "join"
	}
	return causeClassEdge(P, fa, b.Preds[0], b)
}

// causeClassEdge classifies the condition on the edge p → b.
func causeClassEdge(P *Program, fa *FA, p, b *ssa.BasicBlock) (class string, detail string) {
	iff, ok := p.Instrs[len(p.Instrs)-1].(*ssa.If)
	if !ok {
		return causeClass(P, fa, p) // fall through unconditional jumps
	}
	truth := p.Succs[0] == b
	cond := iff.Cond
	for {
		if u, isU := cond.(*ssa.UnOp); isU && u.Op == token.NOT {
			cond = u.X
			truth = !truth
			continue
		}
		break
	}
	bo, ok := cond.(*ssa.BinOp)
	if !ok {
		return "", "condition is not a comparison"
	}
	// nil test of a callee's error
	if isNilConst(bo.X) || isNilConst(bo.Y) {
		v := bo.X
		if isNilConst(v) {
			v = bo.Y
		}
		if isErrorType(v.Type()) {
			return "CALLEE-ERR", ""
		}
	}
	if !isInteger(bo.X.Type()) {
		return "", "non-integer comparison"
	}
	// version mask test
	for _, side := range []ssa.Value{bo.X, bo.Y} {
		if and, isA := side.(*ssa.BinOp); isA && and.Op == token.AND {
			if k, okk := constInt(and.Y); okk && uint32(k) == 0xffff0000 {
				return "VERSION", ""
			}
		}
	}
	x, y := fa.expand(bo.X), fa.expand(bo.Y)
	mentionsLen := false
	for _, l := range []*Lin{x, y} {
		for id := range l.T {
			a := fa.A.at(id)
			if a.Kind == aLen || a.Kind == aPtr || a.Kind == aData || (fa.spanE != nil && id == fa.valAtom(fa.spanE)) {
				mentionsLen = true
			}
		}
	}
	if mentionsLen {
		return "TRUNC", ""
	}
	// depth test
	for _, side := range []ssa.Value{bo.X, bo.Y} {
		if par, isP := side.(*ssa.Parameter); isP {
			if bk, okb := par.Type().Underlying().(*types.Basic); okb && bk.Kind() == types.Int {
				if k, okk := constInt(otherSide(bo, side)); okk && k == 0 && (bo.Op == token.EQL || bo.Op == token.NEQ) {
					return "DEPTH", ""
				}
			}
		}
	}
	// sign test of a wire value
	if k, okk := constInt(bo.Y); okk && k == 0 && (bo.Op == token.LSS || bo.Op == token.GEQ) {
		return "NEG", ""
	}
	// tag dispatch
	if _, okk := constInt(bo.Y); okk && (bo.Op == token.EQL || bo.Op == token.NEQ) {
		if bk, okb := bo.X.Type().Underlying().(*types.Basic); okb && bk.Kind() == types.Int8 {
			if (bo.Op == token.EQL) != truth {
				return "UNKNOWN-TAG", ""
			}
			return "TAG", ""
		}
	}
	return "", "unclassified condition"
}

func otherSide(bo *ssa.BinOp, side ssa.Value) ssa.Value {
	if bo.X == side {
		return bo.Y
	}
	return bo.X
}

var classWants = map[string]int64{"TRUNC": 1, "NEG": 2, "VERSION": 4, "DEPTH": 6, "UNKNOWN-TAG": 1}
var excName = map[int64]string{0: "UNKNOWN", 1: "INVALID_DATA", 2: "NEGATIVE_SIZE", 3: "SIZE_LIMIT", 4: "BAD_VERSION", 5: "NOT_IMPLEMENTED", 6: "DEPTH_LIMIT"}

func checkC17(P *Program, r *Result, tier string) {
	r.Explanation = "Error-class rules: for every return of an in-memory Thrift function (thrift.Binary readers, message begin, Skip and the raw skipper) whose error may be non-nil, the value resolves to a protocol exception whose type id matches the class of the controlling condition " +
		"(comparison with the input length / span end → INVALID_DATA, sign test of a wire size → NEGATIVE_SIZE, version-mask test → BAD_VERSION, depth test → DEPTH_LIMIT, dispatch default → INVALID_DATA), or is a callee's error propagated unchanged, or is the function's own INVALID_DATA value answering a failed nested read (CAUSE); " +
		"the version word is examined as soon as 4 bytes are present (VERSION-FIRST); in the stream reader every bufiox.Reader call goes through a wrapper that passes the source error to NewProtocolExceptionWithErr, and such an error is never replaced on its way out (WRAP-SOURCE)."
	var scope []*ssa.Function
	for _, f := range P.methodsNamed(relThrift, "BinaryProtocol", func(n string) bool { return strings.HasPrefix(n, "Read") || n == "Skip" }) {
		scope = append(scope, f)
	}
	scope = P.reachable(scope, func(f *ssa.Function) bool { return fnPkgPath(f) != modPath+"/"+relThrift })
	if len(scope) < 16 {
		r.fatal("expected at least 16 in-memory decode functions, found %d", len(scope))
		return
	}
	inScope := map[*ssa.Function]bool{}
	for _, f := range scope {
		inScope[f] = true
		r.Funcs[shortName(f)] = true
	}
	A := newAnalysis(P)
	nret := 0
	for _, fn := range scope {
		ei := errIndex(fn)
		if ei < 0 {
			continue
		}
		fa := A.fa(fn)
		fa.noGeneralize = true
		for _, ret := range returnsOf(fn) {
			ev := ret.Results[ei]
			if isNilConst(ev) {
				continue
			}
			nret++
			pos := P.pos(instrPos(ret))
			// propagated callee error
			if c := retCallOf(ev); c != nil {
				if cal := c.Common().StaticCallee(); cal != nil && inScope[cal] {
					r.add("CAUSE", shortName(fn), "return", "error of "+cal.Name()+" propagated unchanged", pos, true, "")
					continue
				}
			}
			if _, isPhi := ev.(*ssa.Phi); isPhi {
				// merged error values: every source must itself be acceptable
				var acceptable func(v ssa.Value, seen map[ssa.Value]bool) bool
				acceptable = func(v ssa.Value, seen map[ssa.Value]bool) bool {
					if seen[v] || isNilConst(v) {
						return true
					}
					seen[v] = true
					if c := retCallOf(v); c != nil {
						if cal := c.Common().StaticCallee(); cal != nil && inScope[cal] {
							return true
						}
					}
					if ph, ok := v.(*ssa.Phi); ok {
						for _, e := range ph.Edges {
							if !acceptable(e, seen) {
								return false
							}
						}
						return true
					}
					_, ok := exceptionTypeOf(P, v)
					return ok
				}
				r.add("CAUSE", shortName(fn), "return", "merged error values are protocol exceptions or propagated callee errors", pos, acceptable(ev, map[ssa.Value]bool{}), "")
				continue
			}
			t, ok := exceptionTypeOf(P, ev)
			if !ok {
				r.add("CAUSE", shortName(fn), "return", "the error is a protocol exception with a known type id", pos, false, "cannot resolve the returned error to NewProtocolException(const, …)")
				continue
			}
			class, why := causeClass(P, fa, ret.Block())
			switch class {
			case "CALLEE-ERR":
				// COLLAPSE idiom: a failed nested read answered with the function's own truncation value
				r.add("CAUSE", shortName(fn), "return", "nested failure reported as "+excName[t]+" (own truncation value)", pos, t == 1, "")
			case "":
				// an unconditional tail (e.g. the final 'buffer too short' after nested guards): classify by the function's guards
				r.add("CAUSE", shortName(fn), "return", "exception type "+excName[t]+" for an unclassified condition", pos, t == 1, why)
			default:
				want, known := classWants[class]
				r.add("CAUSE", shortName(fn), "return", fmt.Sprintf("%s condition ⇒ %s", class, excName[want]), pos, known && t == want, "returns "+excName[t])
			}
		}
	}
	if nret < 40 {
		r.fatal("expected at least 40 error returns in the in-memory decoders, found %d", nret)
	}
	versionFirstRule(P, r, A)
	// ERR-USED: no failure of a nested read is lost: the error result of every call is tested, returned or passed on
	nerr := 0
	for _, fn := range scope {
		if fn.Blocks == nil {
			continue
		}
		for _, c := range callsIn(fn) {
			cc, ok := c.(*ssa.Call)
			if !ok {
				continue
			}
			sig := cc.Common().Signature()
			ei := -1
			for i := 0; i < sig.Results().Len(); i++ {
				if isErrorType(sig.Results().At(i).Type()) {
					ei = i
				}
			}
			if ei < 0 {
				continue
			}
			nerr++
			ev := resultValue(cc, ei)
			used := ev != nil && errExamined(ev, map[ssa.Value]bool{})
			r.add("ERR-USED", shortName(fn), "call", "the error result of "+calleeFullName(cc)+" is examined (a failed nested read is not overwritten or dropped)", P.pos(instrPos(cc)), used, "")
		}
	}
	if nerr < 10 {
		r.fatal("expected at least 10 calls with an error result in the in-memory decoders, found %d", nerr)
	}
	// SIGN-FIRST: a size word whose negative values are answered with an error is not used for anything
	// else before that test — otherwise a negative size surfaces as some other failure (or none)
	nsign := 0
	for _, fn := range scope {
		ei := errIndex(fn)
		if ei < 0 || fn.Blocks == nil {
			continue
		}
		for _, b := range fn.Blocks {
			for _, in := range b.Instrs {
				bo, ok := in.(*ssa.BinOp)
				if !ok || bo.Op != token.LSS || !isInteger(bo.X.Type()) {
					continue
				}
				if k, isC := constInt(bo.Y); !isC || k != 0 {
					continue
				}
				// the true side must answer with an error
				var iff *ssa.If
				if refs := bo.Referrers(); refs != nil {
					for _, rf := range *refs {
						if i2, isIf := rf.(*ssa.If); isIf {
							iff = i2
						}
					}
				}
				if iff == nil {
					continue
				}
				tb := iff.Block().Succs[0]
				ret, isRet := tb.Instrs[len(tb.Instrs)-1].(*ssa.Return)
				if !isRet || !isKnownError(ret.Results[ei]) {
					continue
				}
				// the tested value, seen through widening conversions
				root := bo.X
				for {
					if cv, isCv := root.(*ssa.Convert); isCv && isInteger(cv.X.Type()) {
						root = cv.X
						continue
					}
					break
				}
				if _, isPar := root.(*ssa.Parameter); isPar {
					continue // a caller's value: its own tests are the caller's business
				}
				nsign++
				bad := ""
				seen := map[ssa.Value]bool{}
				var visit func(v ssa.Value)
				visit = func(v ssa.Value) {
					if seen[v] || v.Referrers() == nil {
						return
					}
					seen[v] = true
					for _, rf := range *v.Referrers() {
						if rf == ssa.Instruction(bo) {
							continue
						}
						if cv, isCv := rf.(*ssa.Convert); isCv {
							visit(cv)
							continue
						}
						if _, isDbg := rf.(*ssa.DebugRef); isDbg {
							continue
						}
						if b2, isBo := rf.(*ssa.BinOp); isBo && b2.Op == token.LSS {
							if k, isC := constInt(b2.Y); isC && k == 0 {
								continue // another sign test of the same word
							}
						}
						at := rf
						if ph, isPhi := rf.(*ssa.Phi); isPhi {
							// used on an incoming edge
							okAll := true
							for i, e := range ph.Edges {
								if e == v {
									pb := ph.Block().Preds[i]
									if !guardedBy(pb.Instrs[len(pb.Instrs)-1], bo, false) {
										okAll = false
									}
								}
							}
							if !okAll {
								bad = "used at " + P.pos(instrPos(ph)) + " before its sign is tested"
							}
							continue
						}
						if !guardedBy(at, bo, false) {
							bad = "used at " + P.pos(instrPos(at)) + " before its sign is tested"
						}
					}
				}
				visit(root)
				r.add("SIGN-FIRST", shortName(fn), "size", "a wire size is put to use only after its sign test (a negative size is reported as NEGATIVE_SIZE, not as something else)", P.pos(instrPos(bo)), bad == "", bad)
			}
		}
	}
	if nsign < 4 {
		r.fatal("expected at least 4 sign tests of wire sizes in the in-memory decoders, found %d", nsign)
	}
	// the wrapper itself keeps the source error reachable
	wrapHelperRule(P, r, relThrift)
	// WRAP-SOURCE
	var wrappers []*ssa.Function
	brMethods := P.methodsNamed(relThrift, "BufferReader", func(string) bool { return true })
	for _, fn := range brMethods {
		hasInvoke := false
		for _, c := range callsIn(fn) {
			if c.Common().IsInvoke() {
				if ld, ok := c.Common().Value.(*ssa.UnOp); ok && recvFieldOf(fn, ld.X) == "r" {
					hasInvoke = true
					cc := c.(*ssa.Call)
					ei := errIndex2(cc)
					if ei < 0 {
						continue // e.g. ReadLen
					}
					ev := resultValue(cc, ei)
					wrapped := false
					if ev != nil {
						for _, c2 := range callsIn(fn) {
							if cal := c2.Common().StaticCallee(); cal != nil && cal.Name() == "NewProtocolExceptionWithErr" && c2.Common().Args[0] == ev {
								// the wrapped value is what is returned on the error path
								for _, ret := range returnsOf(fn) {
									rv := ret.Results[len(ret.Results)-1]
									if stripIface(rv) == ssa.Value(c2.(*ssa.Call)) {
										wrapped = true
									}
									if ph, ok := rv.(*ssa.Phi); ok {
										for _, e := range ph.Edges {
											if stripIface(e) == ssa.Value(c2.(*ssa.Call)) {
												wrapped = true
											}
										}
									}
								}
							}
						}
					}
					r.add("WRAP-SOURCE", shortName(fn), "call", "the error of bufiox.Reader."+c.Common().Method.Name()+" is returned through NewProtocolExceptionWithErr", P.pos(instrPos(cc)), wrapped, "")
				}
			}
		}
		if hasInvoke {
			wrappers = append(wrappers, fn)
		}
	}
	if len(wrappers) < 3 {
		r.fatal("expected at least 3 wrapper methods around bufiox.Reader in BufferReader, found %d", len(wrappers))
	}
	isBR := map[*ssa.Function]bool{}
	for _, f := range brMethods {
		isBR[f] = true
	}
	for _, fn := range brMethods {
		for _, c := range callsIn(fn) {
			cc, ok := c.(*ssa.Call)
			cal := c.Common().StaticCallee()
			if !ok || cal == nil || !isBR[cal] || errIndex(cal) < 0 {
				continue
			}
			ev := resultValue(cc, errIndex(cal))
			if ev == nil {
				r.add("WRAP-SOURCE", shortName(fn), "propagate", "the error of "+cal.Name()+" is examined and handed on", P.pos(instrPos(cc)), false, "error result discarded")
				continue
			}
			// the error reaches some return
			reaches := false
			for _, ret := range returnsOf(fn) {
				rv := ret.Results[len(ret.Results)-1]
				if rv == ev || phiHas(rv, ev) {
					reaches = true
				}
			}
			if !reaches {
				r.add("WRAP-SOURCE", shortName(fn), "propagate", "the error of "+cal.Name()+" is examined and handed on", P.pos(instrPos(cc)), false, "error never returned")
				continue
			}
			// on the branch where ev != nil, every return hands out ev itself
			_, neq := nilTests(ev)
			bad := ""
			for _, t := range neq {
				for _, ce := range testsOf(t) {
					succ := ce.If.Block().Succs[0]
					if !ce.Truth {
						succ = ce.If.Block().Succs[1]
					}
					for _, ret := range returnsOf(fn) {
						if ret.Block() == succ || succ.Dominates(ret.Block()) {
							rv := ret.Results[len(ret.Results)-1]
							if rv != ev && !phiHas(rv, ev) {
								bad = "a failed " + cal.Name() + " is answered with another error at " + P.pos(instrPos(ret))
							}
						}
					}
				}
			}
			r.add("WRAP-SOURCE", shortName(fn), "propagate", "an error coming from "+cal.Name()+" is returned unchanged (the source error stays matchable)", P.pos(instrPos(cc)), bad == "", bad)
		}
	}
	r.assume("errors.Is/Unwrap semantics of the standard library; NewProtocolExceptionWithErr keeps the cause (C18/WRAP)")
}

func errIndex2(c *ssa.Call) int {
	res := c.Common().Signature().Results()
	if res.Len() > 0 && isErrorType(res.At(res.Len()-1).Type()) {
		return res.Len() - 1
	}
	return -1
}

func phiHas(v, x ssa.Value) bool {
	ph, ok := v.(*ssa.Phi)
	if !ok {
		return false
	}
	for _, e := range ph.Edges {
		if e == x {
			return true
		}
	}
	return false
}

func causeClassOfCond(cond ssa.Value) (string, bool) {
	for {
		if u, isU := cond.(*ssa.UnOp); isU && u.Op == token.NOT {
			cond = u.X
			continue
		}
		break
	}
	bo, ok := cond.(*ssa.BinOp)
	if !ok {
		return "", false
	}
	for _, side := range []ssa.Value{bo.X, bo.Y} {
		if and, isA := side.(*ssa.BinOp); isA && and.Op == token.AND {
			if k, okk := constInt(and.Y); okk && uint32(k) == 0xffff0000 {
				return "VERSION", true
			}
		}
	}
	return "", false
}

func init() {
	register("C16", "other", checkC16)
	register("C17", "other", checkC17)
}

// versionFirstRule: the buffer reader examines the version word as soon as 4
// bytes are present (shared by C17 and C12).
func versionFirstRule(P *Program, r *Result, A *Analysis) {
	// VERSION-FIRST
	for _, typ := range []string{"BinaryProtocol"} {
		fn := P.Method(relThrift, typ, "ReadMessageBegin")
		if fn == nil {
			continue
		}
		fa := A.fa(fn)
		buf := fa.sliceDesc(fn.Params[1])
		found := false
		for _, b := range fn.Blocks {
			iff, ok := b.Instrs[len(b.Instrs)-1].(*ssa.If)
			if !ok {
				continue
			}
			if cls, _ := causeClassOfCond(iff.Cond); cls != "VERSION" {
				continue
			}
			found = true
			g := fa.gamma(b)
			// the test must be reachable with exactly 4 bytes: Γ ∧ len(buf) ≤ 4 satisfiable, and Γ ⊢ len ≥ 4
			cons := append(append([]*Lin{}, g.ineq...), ineqLE(buf.Len, linConst(4)), ineqGE(buf.Len, linConst(0)))
			un, okU := unsat(cons)
			reach := okU && !un
			atLeast := fa.prove(ineqGE(buf.Len, linConst(4)), b, rootCtx)
			r.add("VERSION-FIRST", shortName(fn), "test", "the version word is checked whenever ≥ 4 bytes are present (before any further length requirement)", P.pos(instrPos(iff)), reach && atLeast, "")
		}
		if !found {
			r.add("VERSION-FIRST", shortName(fn), "test", "a strict-version mask test exists", P.pos(fn.Pos()), false, "")
		}
	}
}

// viewEscapes: the string v (a zero-copy view) may outlive the call that made it: it is returned, stored, boxed, sent,
// captured, or handed to a function that may do one of these with the corresponding parameter (repository callees are
// followed three levels deep; anything else except len/copy/append-as-source/comparison counts as an escape).
func viewEscapes(v ssa.Value, depth int) bool {
	if depth > 3 {
		return true
	}
	refs := v.Referrers()
	if refs == nil {
		return true
	}
	for _, ref := range *refs {
		switch u := ref.(type) {
		case *ssa.DebugRef:
		case *ssa.BinOp:
			// comparison / concatenation: concatenation copies
		case *ssa.Phi, *ssa.Slice, *ssa.ChangeType:
			if viewEscapes(u.(ssa.Value), depth) {
				return true
			}
		case *ssa.Convert:
			// string → []byte copies; string → string keeps the view
			if isString(u.Type()) && viewEscapes(u, depth) {
				return true
			}
		case *ssa.Index, *ssa.Lookup, *ssa.Range:
		case ssa.CallInstruction:
			com := u.Common()
			if b, isB := com.Value.(*ssa.Builtin); isB {
				switch b.Name() {
				case "len", "copy":
					continue
				case "append":
					if len(com.Args) > 0 && com.Args[0] == v {
						return true
					}
					continue
				}
				return true
			}
			if _, isGo := u.(*ssa.Go); isGo {
				return true
			}
			if _, isDefer := u.(*ssa.Defer); isDefer {
				return true
			}
			cal := com.StaticCallee()
			if cal == nil || !inRepo(cal) || cal.Blocks == nil {
				return true
			}
			for i, a := range com.Args {
				if a == v && i < len(cal.Params) && viewEscapes(cal.Params[i], depth+1) {
					return true
				}
			}
		default:
			return true
		}
	}
	return false
}
