package main

// Driver of E1: obligation generation for a scope of functions, contract
// fixpoint, on-demand preconditions.

import (
	"fmt"
	"go/token"
	"go/types"
	"sort"
	"strings"

	"golang.org/x/tools/go/ssa"
)

type e1Obl struct {
	Kind   string // SLICE INDEX LOAD IDX WRAP DIV MAKE PANIC PRE SPAN POST
	What   string
	Fn     *ssa.Function
	In     ssa.Instruction
	Goals  []*Lin
	Assume []*Lin
	Hard   bool // cannot be expressed: always fails
	OK     bool
	Detail string
	Narrow bool // WRAP on a type narrower than 64 bits
	Soft   bool // not proved, accepted under a stated assumption
}

type e1Config struct {
	IfaceLenEq         []string // interface methods assumed to return exactly n bytes on success
	StrictLen          bool     // slices of inputs are bounded by len (not cap)
	Wrap               bool     // generate WRAP obligations
	RequirePost        func(fn *ssa.Function) []string
	AssumeExportedPres bool
}

type e1Run struct {
	P        *Program
	cfg      e1Config
	scope    []*ssa.Function
	cs       *contractSet
	A        *Analysis
	obls     []*e1Obl
	iters    int
	wrapDone map[*ssa.BinOp]bool
}

// findTables returns the element range of package-level integer arrays that
// are only written by their package initialiser.
func findTables(P *Program) map[*ssa.Global][2]int64 {
	type info struct {
		lo, hi int64
		bad    bool
	}
	tabs := map[*ssa.Global]*info{}
	for fn := range P.AllFuncs {
		if !inRepo(fn) {
			continue
		}
		isInit := fn.Name() == "init" && fn.Synthetic != ""
		for _, b := range fn.Blocks {
			for _, in := range b.Instrs {
				var ops []*ssa.Value
				for _, op := range in.Operands(ops) {
					g, ok := (*op).(*ssa.Global)
					if !ok {
						continue
					}
					arr, ok := deref(g.Type()).Underlying().(*types.Array)
					if !ok || !isInteger(arr.Elem()) {
						continue
					}
					ti := tabs[g]
					if ti == nil {
						ti = &info{}
						tabs[g] = ti
					}
					if st, ok := in.(*ssa.Store); ok && st.Addr == g && isInit {
						// whole-array initialisation from a composite literal built in a local
						okLit := false
						if ld, ok := st.Val.(*ssa.UnOp); ok && ld.Op == token.MUL {
							if al, ok := ld.X.(*ssa.Alloc); ok && al.Referrers() != nil {
								okLit = true
								for _, r := range *al.Referrers() {
									switch r := r.(type) {
									case *ssa.IndexAddr:
										for _, rr := range *r.Referrers() {
											if s2, ok := rr.(*ssa.Store); ok && s2.Addr == r {
												if c, ok := s2.Val.(*ssa.Const); ok {
													if v, ok := constBig(c); ok && v.IsInt64() {
														if v.Int64() < ti.lo {
															ti.lo = v.Int64()
														}
														if v.Int64() > ti.hi {
															ti.hi = v.Int64()
														}
														continue
													}
												}
											}
											okLit = false
										}
									case *ssa.UnOp, *ssa.DebugRef:
									default:
										okLit = false
									}
								}
							}
						}
						if !okLit {
							ti.bad = true
						}
						continue
					}
					ia, ok := in.(*ssa.IndexAddr)
					if !ok || ia.X != g {
						// loading the whole array is a read; anything else is an escape
						if u, ok := in.(*ssa.UnOp); ok && u.Op == token.MUL {
							continue
						}
						ti.bad = true
						continue
					}
					if refs := ia.Referrers(); refs != nil {
						for _, r := range *refs {
							switch r := r.(type) {
							case *ssa.UnOp:
							case *ssa.Store:
								if r.Addr != ia || !isInit {
									ti.bad = true
									continue
								}
								if c, ok := r.Val.(*ssa.Const); ok {
									if v, ok := constBig(c); ok && v.IsInt64() {
										if v.Int64() < ti.lo {
											ti.lo = v.Int64()
										}
										if v.Int64() > ti.hi {
											ti.hi = v.Int64()
										}
										continue
									}
								}
								ti.bad = true
							case *ssa.DebugRef:
							default:
								ti.bad = true
							}
						}
					}
				}
			}
		}
	}
	out := map[*ssa.Global][2]int64{}
	for g, ti := range tabs {
		if !ti.bad {
			out[g] = [2]int64{ti.lo, ti.hi}
		}
	}
	// package-level slices of integers initialised once from a literal and never written
	type sinfo struct {
		lo, hi  int64
		init    bool
		started bool
		bad     bool
	}
	sl := map[*ssa.Global]*sinfo{}
	for fn := range P.AllFuncs {
		if !inRepo(fn) {
			continue
		}
		isInit := fn.Name() == "init" && fn.Synthetic != ""
		for _, b := range fn.Blocks {
			for _, in := range b.Instrs {
				var ops []*ssa.Value
				for _, op := range in.Operands(ops) {
					g, ok := (*op).(*ssa.Global)
					if !ok {
						continue
					}
					st, ok := deref(g.Type()).Underlying().(*types.Slice)
					if !ok || !isInteger(st.Elem()) {
						continue
					}
					si := sl[g]
					if si == nil {
						si = &sinfo{}
						sl[g] = si
					}
					switch x := in.(type) {
					case *ssa.Store:
						if x.Addr != ssa.Value(g) || !isInit || si.init {
							si.bad = true
							continue
						}
						si.init = true
						s2, ok := x.Val.(*ssa.Slice)
						if !ok {
							si.bad = true
							continue
						}
						al, ok := s2.X.(*ssa.Alloc)
						if !ok {
							si.bad = true
							continue
						}
						for _, ref := range *al.Referrers() {
							ia, ok := ref.(*ssa.IndexAddr)
							if !ok {
								continue
							}
							for _, r2 := range *ia.Referrers() {
								if s3, ok := r2.(*ssa.Store); ok && s3.Addr == ia {
									if c, ok := s3.Val.(*ssa.Const); ok {
										if v, ok := constBig(c); ok && v.IsInt64() {
											if !si.started || v.Int64() < si.lo {
												si.lo = v.Int64()
											}
											if !si.started || v.Int64() > si.hi {
												si.hi = v.Int64()
											}
											si.started = true
											continue
										}
									}
									si.bad = true
								}
							}
						}
					case *ssa.UnOp:
						// a load of the slice header: its elements may only be read
						if x.Op != token.MUL || x.X != ssa.Value(g) || x.Referrers() == nil {
							continue
						}
						for _, ref := range *x.Referrers() {
							switch y := ref.(type) {
							case *ssa.IndexAddr:
								for _, r2 := range *y.Referrers() {
									if _, isLd := r2.(*ssa.UnOp); !isLd {
										si.bad = true
									}
								}
							case *ssa.Call:
								if bi, ok := y.Common().Value.(*ssa.Builtin); !ok || (bi.Name() != "len" && bi.Name() != "cap") {
									si.bad = true
								}
							case *ssa.DebugRef:
							default:
								si.bad = true
							}
						}
					default:
						si.bad = true
					}
				}
			}
		}
	}
	for g, si := range sl {
		if !si.bad && si.init && si.started {
			out[g] = [2]int64{si.lo, si.hi}
		}
	}
	return out
}

func newE1(P *Program, scope []*ssa.Function, cfg e1Config) *e1Run {
	r := &e1Run{P: P, cfg: cfg, scope: scope}
	r.cs = newContractSet(P, scope)
	r.cs.tables = findTables(P)
	for _, n := range cfg.IfaceLenEq {
		r.cs.iface[n] = true
	}
	return r
}

func (r *e1Run) run() {
	r.A = r.cs.newAnalysis()
	var dirty map[*ssa.Function]bool // nil = everything
	for r.iters = 1; r.iters <= 12; r.iters++ {
		r.cs.houdiniOn(r.A, dirty)
		// (re-)generate and check the obligations of the functions that changed
		var keep []*e1Obl
		for _, o := range r.obls {
			if dirty != nil && !dirty[o.Fn] {
				keep = append(keep, o)
			}
		}
		r.obls = keep
		r.wrapDone = map[*ssa.BinOp]bool{}
		n := len(r.obls)
		for _, fn := range r.scope {
			if dirty == nil || dirty[fn] {
				r.gen(r.A.fa(fn), false)
			}
		}
		for _, o := range r.obls[n:] {
			r.check(o)
		}
		// the arithmetic that feeds conditions, bounds, arguments and results must be exact
		if r.cfg.Wrap {
			n := len(r.obls)
			for _, fn := range r.scope {
				if dirty == nil || dirty[fn] {
					fa := r.A.fa(fn)
					fa.markRoots()
					r.gen(fa, true)
				}
			}
			for _, o := range r.obls[n:] {
				r.check(o)
				if !o.OK && !o.Narrow && !o.Hard {
					// 64-bit accumulators: not a violation, recorded as an assumption of the run
					o.OK = true
					o.Soft = true
					o.Detail = "NOT PROVED (64-bit arithmetic assumed not to wrap): " + o.Detail
				}
			}
		}
		changed := map[*ssa.Function]bool{}
		for _, o := range r.obls {
			if (o.OK && !o.Soft) || o.Hard {
				continue
			}
			if r.tryPres(o) {
				changed[o.Fn] = true
			}
		}
		// a non-negativity post-condition that only fails for lack of a precondition
		for _, fn := range r.scope {
			if dirty != nil && !dirty[fn] {
				continue
			}
			if r.tryPresForPosts(fn) {
				changed[fn] = true
			}
		}
		if len(changed) == 0 {
			break
		}
		dirty = r.cs.callersClosure(changed)
		for fn := range dirty {
			r.A.dropFA(fn)
		}
	}
	sort.SliceStable(r.obls, func(i, j int) bool {
		a, b := r.obls[i], r.obls[j]
		if a.Fn != b.Fn {
			return a.Fn.String() < b.Fn.String()
		}
		return false
	})
}

func (r *e1Run) check(o *e1Obl) {
	if o.Hard {
		o.OK = false
		return
	}
	fa := r.A.fa(o.Fn)
	o.OK = true
	for _, g := range o.Goals {
		if !fa.prove(g, o.In.Block(), rootCtx.with(o.Assume, nil)) {
			o.OK = false
			o.Detail = "cannot prove " + r.A.ineqString(normIneq(g)) + " from {" + fa.explain(o.In.Block()) + "}"
			return
		}
	}
	o.Detail = "entailed by dominating guards, inferred invariants and callee contracts"
}

// preLin expresses a precondition candidate as an entry assumption.
func (r *e1Run) preLin(fa *FA, p *Pre) *Lin {
	switch p.Kind {
	case "param>=0":
		return ineqGE(fa.expand(fa.fn.Params[p.Param]), linConst(0))
	case "param>=1":
		return ineqGE(fa.expand(fa.fn.Params[p.Param]), linConst(1))
	case "cell>=0":
		key := "P:" + fa.fn.Params[p.Param].Name()
		ver := fa.mem.entry[key]
		if ver == nil {
			return nil
		}
		return ineqGE(fa.cellValue(ver, deref(fa.fn.Params[p.Param].Type())), linConst(0))
	case "len>=c":
		if d := fa.sliceDesc(fa.fn.Params[p.Param]); d != nil {
			return ineqGE(d.Len, linConst(p.C))
		}
	case "nonnil":
		return ineqGE(fa.nilExpand(fa.fn.Params[p.Param]), linConst(1))
	case "par<=len":
		if d := fa.sliceDesc(fa.fn.Params[p.Param2]); d != nil {
			return ineqLE(fa.expand(fa.fn.Params[p.Param]), d.Len)
		}
	case "cell<=len":
		key := "P:" + fa.fn.Params[p.Param].Name()
		ver := fa.mem.entry[key]
		d := fa.sliceDesc(fa.fn.Params[p.Param2])
		if ver == nil || d == nil {
			return nil
		}
		return ineqLE(fa.cellValue(ver, deref(fa.fn.Params[p.Param].Type())), d.Len)
	}
	return nil
}

// tryPres adopts the preconditions of o.Fn that make o provable.
func (r *e1Run) tryPres(o *e1Obl) bool {
	ct := r.cs.cts[o.Fn]
	fa := r.A.fa(o.Fn)
	var cands []*Pre
	var lins []*Lin
	var adopted []*Lin // preconditions adopted earlier in this pass hold here too
	for _, p := range ct.Pres {
		if p.Adopted {
			if l := r.preLin(fa, p); l != nil {
				adopted = append(adopted, l)
			}
			continue
		}
		if p.Kind == "len>=c" && o.Kind != "INDEX" && o.Kind != "SLICE" && o.Kind != "PRE" {
			continue // minimum lengths are only demanded by accesses
		}
		if l := r.preLin(fa, p); l != nil {
			cands = append(cands, p)
			lins = append(lins, l)
		}
	}
	if len(cands) == 0 {
		return false
	}
	proves := func(use []bool) bool {
		as := append(append([]*Lin{}, o.Assume...), adopted...)
		for i, u := range use {
			if u {
				as = append(as, lins[i])
			}
		}
		for _, g := range o.Goals {
			if !fa.prove(g, o.In.Block(), rootCtx.with(as, nil)) {
				return false
			}
		}
		return true
	}
	use := make([]bool, len(cands))
	// first without minimum-length candidates, then adding the weakest sufficient one
	for i, c := range cands {
		use[i] = c.Kind != "len>=c"
	}
	ok := proves(use)
	if !ok {
		for i := len(cands) - 1; i >= 0 && !ok; i-- { // candidates are ordered from the strongest to the weakest length
			if cands[i].Kind != "len>=c" {
				continue
			}
			use[i] = true
			if proves(use) {
				ok = true
			} else {
				use[i] = false
			}
		}
	}
	if !ok {
		return false
	}
	for i := range use {
		if !use[i] {
			continue
		}
		use[i] = false
		if !proves(use) {
			use[i] = true
		}
	}
	any := false
	for i, u := range use {
		if u {
			cands[i].Adopted = true
			any = true
			if debugContracts {
				fmt.Printf("ADOPT %s: %s for %s %s at %s\n", shortName(o.Fn), cands[i].String(o.Fn), o.Kind, o.What, r.P.pos(instrPos(o.In)))
			}
		}
	}
	return any
}

// tryPresForPosts adopts parameter preconditions under which a dropped
// "result ≥ 0" post-condition of fn holds at every return.
func (r *e1Run) tryPresForPosts(fn *ssa.Function) bool {
	ct := r.cs.cts[fn]
	fa := r.A.fa(fn)
	adopted := false
	for _, p := range ct.Posts {
		if !p.Dead || p.Kind != "ret>=0" || p.Cond {
			continue
		}
		var cands []*Pre
		var lins []*Lin
		for _, pre := range ct.Pres {
			if pre.Adopted || pre.Kind != "param>=0" {
				continue
			}
			if l := r.preLin(fa, pre); l != nil {
				cands = append(cands, pre)
				lins = append(lins, l)
			}
		}
		if len(cands) == 0 {
			continue
		}
		holds := func(use []bool) bool {
			// temporary adoption: the invariants of fn are inferred under the candidate preconditions
			for i, u := range use {
				cands[i].Adopted = u
			}
			r.A.dropFA(fn)
			fa2 := r.A.fa(fn)
			defer func() {
				for i := range use {
					cands[i].Adopted = false
				}
				r.A.dropFA(fn)
			}()
			for _, ret := range returnsOf(fn) {
				g, f, ok := p.formula(ct, fa2.calleeEnv(ret))
				if !ok {
					return false
				}
				for _, goal := range f {
					if !fa2.prove(goal, ret.Block(), rootCtx.with(g, nil)) {
						return false
					}
				}
			}
			return true
		}
		use := make([]bool, len(cands))
		for i := range use {
			use[i] = true
		}
		if !holds(use) {
			continue
		}
		for i := range use {
			use[i] = false
			if !holds(use) {
				use[i] = true
			}
		}
		for i, u := range use {
			if u {
				cands[i].Adopted = true
				adopted = true
				if debugContracts {
					fmt.Printf("ADOPT %s: %s for post-condition %s\n", shortName(fn), cands[i].String(fn), p.String())
				}
			}
		}
	}
	return adopted
}

func (r *e1Run) add(o *e1Obl) { r.obls = append(r.obls, o) }

func isUnsafeDeref(x ssa.Value) (*ssa.Convert, bool) {
	cv, ok := x.(*ssa.Convert)
	if !ok {
		return nil, false
	}
	if isUnsafePointer(cv.X.Type()) {
		return cv, true
	}
	return nil, false
}

// gen generates the obligations of one function.
func (r *e1Run) gen(fa *FA, wrapPass bool) {
	fn := fa.fn
	A := fa.A
	ct := r.cs.cts[fn]
	for _, b := range fn.Blocks {
		for _, in := range b.Instrs {
			if wrapPass {
				if _, isBin := in.(*ssa.BinOp); !isBin {
					continue
				}
			}
			switch v := in.(type) {
			case *ssa.Slice:
				base := fa.sliceDesc(v.X)
				if base == nil {
					r.add(&e1Obl{Kind: "SLICE", What: "slice of unknown base", Fn: fn, In: in, Hard: true})
					continue
				}
				bound := base.Cap
				if r.cfg.StrictLen || base.IsString || bound == nil {
					bound = base.Len
				}
				lo := linConst(0)
				var goals []*Lin
				if v.Low != nil {
					lo = fa.expand(v.Low)
					goals = append(goals, ineqGE(lo, linConst(0)))
				}
				if v.High != nil {
					hi := fa.expand(v.High)
					goals = append(goals, ineqLE(lo, hi), ineqLE(hi, bound))
				} else {
					goals = append(goals, ineqLE(lo, base.Len))
				}
				if v.Max != nil {
					mx := fa.expand(v.Max)
					goals = append(goals, ineqLE(mx, base.Cap))
					if v.High != nil {
						goals = append(goals, ineqLE(fa.expand(v.High), mx))
					}
				}
				r.add(&e1Obl{Kind: "SLICE", What: sliceText(v), Fn: fn, In: in, Goals: goals})
			case *ssa.IndexAddr:
				idx := fa.expand(v.Index)
				var bound *Lin
				if arr, ok := deref(v.X.Type()).Underlying().(*types.Array); ok {
					bound = linConst(arr.Len())
					if _, isConst := v.Index.(*ssa.Const); isConst {
						continue // checked by the type checker
					}
					kind := "IDX"
					r.add(&e1Obl{Kind: kind, What: "index into fixed array " + v.X.Name(), Fn: fn, In: in,
						Goals: []*Lin{ineqGE(idx, linConst(0)), ineqLT(idx, bound)}})
					continue
				}
				d := fa.sliceDesc(v.X)
				if d == nil {
					r.add(&e1Obl{Kind: "INDEX", What: "index of unknown base", Fn: fn, In: in, Hard: true})
					continue
				}
				bound = d.Len
				r.add(&e1Obl{Kind: "INDEX", What: "index " + v.X.Name() + "[" + v.Index.Name() + "]", Fn: fn, In: in,
					Goals: []*Lin{ineqGE(idx, linConst(0)), ineqLT(idx, bound)}})
			case *ssa.Index:
				if arr, ok := v.X.Type().Underlying().(*types.Array); ok {
					if _, isConst := v.Index.(*ssa.Const); isConst {
						continue
					}
					idx := fa.expand(v.Index)
					r.add(&e1Obl{Kind: "IDX", What: "index into array value", Fn: fn, In: in,
						Goals: []*Lin{ineqGE(idx, linConst(0)), ineqLT(idx, linConst(arr.Len()))}})
				}
			case *ssa.Lookup:
				if isString(v.X.Type()) {
					d := fa.sliceDesc(v.X)
					idx := fa.expand(v.Index)
					if d != nil {
						r.add(&e1Obl{Kind: "INDEX", What: "string index", Fn: fn, In: in,
							Goals: []*Lin{ineqGE(idx, linConst(0)), ineqLT(idx, d.Len)}})
					}
				}
			case *ssa.UnOp:
				if v.Op == token.MUL {
					if cv, ok := isUnsafeDeref(v.X); ok {
						r.genLoad(fa, ct, in, cv, fa.sizeof(v.Type()))
					}
				}
				if v.Op == token.SUB && isInteger(v.Type()) && r.cfg.Wrap && wrapPass && false {
					lo, hi, _ := intRange(v.Type())
					e := fa.expand(v)
					bits, _ := intBits(v.Type())
					r.add(&e1Obl{Kind: "WRAP", What: "negation", Fn: fn, In: in, Narrow: bits < 64,
						Goals: []*Lin{ineqGE(e, linBig(lo)), ineqLE(e, linBig(hi))}})
				}
			case *ssa.Store:
				if cv, ok := isUnsafeDeref(v.Addr); ok {
					r.genLoad(fa, ct, in, cv, fa.sizeof(v.Val.Type()))
				}
			case *ssa.BinOp:
				if !isInteger(v.Type()) {
					continue
				}
				switch v.Op {
				case token.ADD, token.SUB, token.MUL, token.SHL:
					if !r.cfg.Wrap || !wrapPass || !fa.usedOps[v] || r.wrapDone[v] {
						continue
					}
					r.wrapDone[v] = true
					_, cx := v.X.(*ssa.Const)
					_, cy := v.Y.(*ssa.Const)
					if cx && cy {
						continue
					}
					if v.Op == token.SHL {
						if _, ok := fa.expand(v.Y).constVal(); !ok {
							continue // variable shifts are modelled as opaque values
						}
					}
					lo, hi, _ := intRange(v.Type())
					e := fa.expand(v)
					bits, _ := intBits(v.Type())
					r.add(&e1Obl{Kind: "WRAP", What: fmt.Sprintf("%s %s %s on %s", v.X.Name(), v.Op, v.Y.Name(), v.Type()), Fn: fn, In: in, Narrow: bits < 64,
						Goals: []*Lin{ineqGE(e, linBig(lo)), ineqLE(e, linBig(hi))}})
				case token.QUO, token.REM:
					y := fa.expand(v.Y)
					if c, ok := y.constVal(); ok && c.Sign() != 0 {
						continue
					}
					// non-zero: y ≥ 1 (the only form used in the repository)
					r.add(&e1Obl{Kind: "DIV", What: "divisor " + v.Y.Name(), Fn: fn, In: in, Goals: []*Lin{ineqGE(y, linConst(1))}})
				}
			case *ssa.MakeSlice:
				ln, cp := fa.expand(v.Len), fa.expand(v.Cap)
				esz := fa.sizeof(v.Type().Underlying().(*types.Slice).Elem())
				if esz == 0 {
					esz = 1
				}
				r.add(&e1Obl{Kind: "MAKE", What: "make slice", Fn: fn, In: in,
					Goals: []*Lin{ineqGE(ln, linConst(0)), ineqLE(ln, cp), ineqLE(cp.scale(bi(esz)), linBig(maxLen))}})
			case *ssa.MapUpdate:
				n := fa.nilExpand(v.Map)
				r.add(&e1Obl{Kind: "PANIC", What: "write to possibly nil map", Fn: fn, In: in, Goals: []*Lin{ineqGE(n, linConst(1))}})
			case *ssa.TypeAssert:
				if !v.CommaOk {
					r.add(&e1Obl{Kind: "PANIC", What: "single-result type assertion", Fn: fn, In: in, Hard: true})
				}
			case *ssa.Panic:
				r.add(&e1Obl{Kind: "PANIC", What: "explicit panic", Fn: fn, In: in, Hard: true})
			case *ssa.Call:
				r.genCall(fa, v)
			}
		}
	}
	// record the byte need of raw-pointer helpers without an end parameter
	_ = A
}

func sliceText(v *ssa.Slice) string {
	n := func(x ssa.Value) string {
		if x == nil {
			return ""
		}
		return x.Name()
	}
	s := v.X.Name() + "[" + n(v.Low) + ":" + n(v.High)
	if v.Max != nil {
		s += ":" + n(v.Max)
	}
	return s + "]"
}

// regionOf finds the memory region an address expression lies in: the span of
// the enclosing raw-pointer function, or the slice a data pointer was taken from.
func (r *e1Run) regionOf(fa *FA, addr *Lin) (base *Lin, end *Lin, ok bool) {
	A := fa.A
	var baseAtom *Atom
	for id, c := range addr.T {
		a := A.at(id)
		if a.Kind == aPtr || a.Kind == aData {
			if baseAtom != nil || c.Cmp(bi(1)) != 0 {
				return nil, nil, false
			}
			baseAtom = a
		}
	}
	if baseAtom == nil {
		return nil, nil, false
	}
	if baseAtom.Kind == aPtr {
		if fa.spanP != nil && baseAtom.ID == fa.ptrAtom(fa.spanP) {
			return linAtom(baseAtom.ID), fa.expand(fa.spanE), true
		}
		return nil, nil, false
	}
	// data(root): region is the root's bytes
	for v, d := range fa.sd {
		if d != nil && d.Root == v && fa.A.byKey["data:"+fa.vkey(v)] == baseAtom.ID {
			esz := int64(1)
			if s, ok := v.Type().Underlying().(*types.Slice); ok {
				esz = fa.sizeof(s.Elem())
			}
			return linAtom(baseAtom.ID), linAtom(baseAtom.ID).add(d.Len.scale(bi(esz))), true
		}
	}
	return nil, nil, false
}

func (r *e1Run) genLoad(fa *FA, ct *Contract, in ssa.Instruction, cv *ssa.Convert, width int64) {
	addr := fa.ptrExpand(cv.X)
	if ct.PtrPar >= 0 && fa.spanP == nil {
		// helper with a raw pointer and no end: constant offsets only; they define its byte need
		off := addr.sub(linAtom(fa.ptrAtom(fa.fn.Params[ct.PtrPar])))
		if c, ok := off.constVal(); ok && c.Sign() >= 0 && c.IsInt64() {
			if c.Int64()+width > ct.Need {
				ct.Need = c.Int64() + width
			}
			r.add(&e1Obl{Kind: "LOAD", What: fmt.Sprintf("raw access at param+%d width %d (caller provides %d bytes)", c.Int64(), width, ct.Need), Fn: fa.fn, In: in, Goals: []*Lin{linConst(0)}})
			return
		}
		r.add(&e1Obl{Kind: "LOAD", What: "raw access at a non-constant offset of a pointer without end", Fn: fa.fn, In: in, Hard: true})
		return
	}
	base, end, ok := r.regionOf(fa, addr)
	if !ok {
		r.add(&e1Obl{Kind: "LOAD", What: "raw access outside any known region", Fn: fa.fn, In: in, Hard: true})
		return
	}
	r.add(&e1Obl{Kind: "LOAD", What: fmt.Sprintf("raw access width %d", width), Fn: fa.fn, In: in,
		Goals: []*Lin{ineqGE(addr, base), ineqLE(addr.addConst(width), end)}})
}

func (r *e1Run) genCall(fa *FA, c *ssa.Call) {
	com := c.Common()
	if b, ok := com.Value.(*ssa.Builtin); ok {
		if b.Name() == "panic" {
			r.add(&e1Obl{Kind: "PANIC", What: "explicit panic", Fn: fa.fn, In: c, Hard: true})
		}
		return
	}
	callee := com.StaticCallee()
	if callee == nil {
		return
	}
	// encoding/binary big-endian accessors need N bytes
	if callee.Pkg != nil && callee.Pkg.Pkg.Path() == "encoding/binary" {
		need := int64(0)
		switch callee.Name() {
		case "Uint16", "PutUint16":
			need = 2
		case "Uint32", "PutUint32":
			need = 4
		case "Uint64", "PutUint64":
			need = 8
		}
		if need > 0 && len(com.Args) >= 2 {
			if d := fa.sliceDesc(com.Args[1]); d != nil {
				r.add(&e1Obl{Kind: "INDEX", What: fmt.Sprintf("binary.BigEndian.%s needs %d bytes", callee.Name(), need), Fn: fa.fn, In: c,
					Goals: []*Lin{ineqGE(d.Len, linConst(need))}})
			}
		}
		return
	}
	ct, ok := r.cs.cts[callee]
	if !ok {
		return
	}
	// adopted preconditions
	for _, p := range ct.Pres {
		if !p.Adopted || p.Param >= len(com.Args) {
			continue
		}
		switch p.Kind {
		case "param>=0":
			r.add(&e1Obl{Kind: "PRE", What: fmt.Sprintf("%s requires %s ≥ 0", callee.Name(), callee.Params[p.Param].Name()), Fn: fa.fn, In: c,
				Goals: []*Lin{ineqGE(fa.expand(com.Args[p.Param]), linConst(0))}})
		case "param>=1":
			r.add(&e1Obl{Kind: "PRE", What: fmt.Sprintf("%s requires %s ≥ 1", callee.Name(), callee.Params[p.Param].Name()), Fn: fa.fn, In: c,
				Goals: []*Lin{ineqGE(fa.expand(com.Args[p.Param]), linConst(1))}})
		case "cell>=0":
			key := fa.mem.addrKey(com.Args[p.Param])
			if key == "" {
				r.add(&e1Obl{Kind: "PRE", What: callee.Name() + " requires *arg ≥ 0 (untracked cell)", Fn: fa.fn, In: c, Hard: true})
				continue
			}
			ver := fa.mem.versionAt(c, key)
			if ver == nil {
				r.add(&e1Obl{Kind: "PRE", What: callee.Name() + " requires *arg ≥ 0 (no version)", Fn: fa.fn, In: c, Hard: true})
				continue
			}
			r.add(&e1Obl{Kind: "PRE", What: fmt.Sprintf("%s requires *%s ≥ 0", callee.Name(), callee.Params[p.Param].Name()), Fn: fa.fn, In: c,
				Goals: []*Lin{ineqGE(fa.cellValue(ver, deref(com.Args[p.Param].Type())), linConst(0))}})
		case "par<=len":
			if d := fa.sliceDesc(com.Args[p.Param2]); d != nil {
				r.add(&e1Obl{Kind: "PRE", What: fmt.Sprintf("%s requires %s", callee.Name(), p.String(callee)), Fn: fa.fn, In: c,
					Goals: []*Lin{ineqLE(fa.expand(com.Args[p.Param]), d.Len)}})
			}
		case "cell<=len":
			key := fa.mem.addrKey(com.Args[p.Param])
			d := fa.sliceDesc(com.Args[p.Param2])
			var ver *MemVer
			if key != "" {
				ver = fa.mem.versionAt(c, key)
			}
			if ver == nil || d == nil {
				r.add(&e1Obl{Kind: "PRE", What: callee.Name() + " requires " + p.String(callee) + " (untracked)", Fn: fa.fn, In: c, Hard: true})
				continue
			}
			r.add(&e1Obl{Kind: "PRE", What: fmt.Sprintf("%s requires %s", callee.Name(), p.String(callee)), Fn: fa.fn, In: c,
				Goals: []*Lin{ineqLE(fa.cellValue(ver, deref(com.Args[p.Param].Type())), d.Len)}})
		case "nonnil":
			r.add(&e1Obl{Kind: "PRE", What: fmt.Sprintf("%s requires %s", callee.Name(), p.String(callee)), Fn: fa.fn, In: c,
				Goals: []*Lin{ineqGE(fa.nilExpand(com.Args[p.Param]), linConst(1))}})
		case "len>=c":
			if d := fa.sliceDesc(com.Args[p.Param]); d != nil {
				r.add(&e1Obl{Kind: "PRE", What: fmt.Sprintf("%s requires %s", callee.Name(), p.String(callee)), Fn: fa.fn, In: c,
					Goals: []*Lin{ineqGE(d.Len, linConst(p.C))}})
			} else {
				r.add(&e1Obl{Kind: "PRE", What: callee.Name() + " requires a minimum length (unknown slice)", Fn: fa.fn, In: c, Hard: true})
			}
		}
	}
	// raw spans handed to the callee must lie inside the caller's region
	cfa := r.A.fa(callee)
	if cfa.spanP != nil {
		var pa, ea ssa.Value
		for j, p := range callee.Params {
			if p == cfa.spanP {
				pa = com.Args[j]
			}
			if p == cfa.spanE {
				ea = com.Args[j]
			}
		}
		addr := fa.ptrExpand(pa)
		base, end, ok := r.regionOf(fa, addr)
		if !ok {
			r.add(&e1Obl{Kind: "SPAN", What: "span passed to " + callee.Name() + " has no known region", Fn: fa.fn, In: c, Hard: true})
		} else {
			r.add(&e1Obl{Kind: "SPAN", What: "span passed to " + callee.Name() + " within the caller's region", Fn: fa.fn, In: c,
				Goals: []*Lin{ineqGE(addr, base), ineqLE(fa.expand(ea), end)}})
		}
	} else if ct.PtrPar >= 0 {
		addr := fa.ptrExpand(com.Args[ct.PtrPar])
		base, end, ok := r.regionOf(fa, addr)
		if !ok {
			r.add(&e1Obl{Kind: "SPAN", What: "pointer passed to " + callee.Name() + " has no known region", Fn: fa.fn, In: c, Hard: true})
		} else {
			need := ct.Need
			if need == 0 {
				// callee not generated yet in this round: compute now
				r.precomputeNeed(cfa, ct)
				need = ct.Need
			}
			r.add(&e1Obl{Kind: "SPAN", What: fmt.Sprintf("%d bytes readable at pointer passed to %s", need, callee.Name()), Fn: fa.fn, In: c,
				Goals: []*Lin{ineqGE(addr, base), ineqLE(addr.addConst(need), end)}})
		}
	}
}

func (r *e1Run) precomputeNeed(fa *FA, ct *Contract) {
	for _, b := range fa.fn.Blocks {
		for _, in := range b.Instrs {
			if u, ok := in.(*ssa.UnOp); ok && u.Op == token.MUL {
				if cv, ok := isUnsafeDeref(u.X); ok {
					addr := fa.ptrExpand(cv.X)
					off := addr.sub(linAtom(fa.ptrAtom(fa.fn.Params[ct.PtrPar])))
					if c, ok := off.constVal(); ok && c.IsInt64() {
						w := fa.sizeof(u.Type())
						if c.Int64()+w > ct.Need {
							ct.Need = c.Int64() + w
						}
					}
				}
			}
		}
	}
}

// postAlive reports whether fn has a live post-condition of the given kind
// relating result ret with parameter param (cond or unconditional).
func (r *e1Run) postAlive(fn *ssa.Function, kind string, ret, param int) (alive bool, uncond bool) {
	ct := r.cs.cts[fn]
	if ct == nil {
		return false, false
	}
	for _, p := range ct.Posts {
		if p.Dead || p.Kind != kind || p.Ret != ret {
			continue
		}
		if kind == "ret<=len" || kind == "retlen=param" {
			if p.Param != param {
				continue
			}
		}
		alive = true
		if !p.Cond {
			uncond = true
		}
	}
	return
}

// failingReturn finds a return at which the given post-condition is not provable.
func (r *e1Run) failingReturn(fn *ssa.Function, kind string, ret, param int) (ssa.Instruction, string) {
	ct := r.cs.cts[fn]
	fa := r.A.fa(fn)
	p := &Post{Kind: kind, Ret: ret, Param: param, Cond: ct.ErrIdx >= 0}
	for _, rt := range returnsOf(fn) {
		g, f, ok := p.formula(ct, fa.calleeEnv(rt))
		if !ok {
			return rt, "post-condition not expressible at this return"
		}
		for _, goal := range f {
			if !fa.prove(goal, rt.Block(), rootCtx.with(g, nil)) {
				return rt, "cannot prove " + r.A.ineqString(normIneq(goal)) + " from {" + fa.explain(rt.Block()) + "}"
			}
		}
	}
	return nil, ""
}

func (r *e1Run) contractSummary() []string {
	var out []string
	for _, fn := range r.scope {
		ct := r.cs.cts[fn]
		var ps []string
		for _, p := range ct.Posts {
			if !p.Dead {
				ps = append(ps, p.String())
			}
		}
		for _, p := range ct.Pres {
			if p.Adopted {
				ps = append(ps, "requires "+p.String(fn))
			}
		}
		if len(ps) > 0 {
			out = append(out, shortName(fn)+": "+strings.Join(ps, "; "))
		}
	}
	sort.Strings(out)
	return out
}
