package main

// C07 — read-only string maps.

import (
	"fmt"
	"go/constant"
	"go/token"
	"go/types"
	"sort"
	"strings"

	"golang.org/x/tools/go/ssa"
)

const relStrmap = "container/strmap"
const relStrstore = "internal/strstore"

func strmapFuncs(P *Program) []*ssa.Function {
	set := map[*ssa.Function]bool{}
	for fn := range P.AllFuncs {
		pp := fnPkgPath(fn)
		if (pp == modPath+"/"+relStrmap || pp == modPath+"/"+relStrstore) && fn.Blocks != nil && !isInitFunc(fn) {
			set[fn] = true
		}
	}
	for _, fn := range P.genericMethods(relStrmap, "StrMap") {
		set[fn] = true
	}
	var out []*ssa.Function
	for f := range set {
		if strings.Contains(f.Synthetic, "wrapper") {
			continue
		}
		out = append(out, f)
	}
	sort.Slice(out, func(i, j int) bool { return out[i].String() < out[j].String() })
	return out
}

// alwaysNilError: every return of fn has the constant nil as its error result.
func alwaysNilError(fn *ssa.Function) bool {
	ei := errIndex(fn)
	if ei < 0 || fn.Blocks == nil {
		return false
	}
	for _, ret := range returnsOf(fn) {
		if !isNilConst(ret.Results[ei]) {
			return false
		}
	}
	return true
}

func fieldLoadOf(v ssa.Value, field string) (base ssa.Value, ok bool) {
	for {
		switch x := v.(type) {
		case *ssa.Convert:
			v = x.X
			continue
		case *ssa.ChangeType:
			v = x.X
			continue
		}
		break
	}
	ld, isLd := v.(*ssa.UnOp)
	if !isLd || ld.Op != token.MUL {
		return nil, false
	}
	fa, isFA := ld.X.(*ssa.FieldAddr)
	if !isFA {
		return nil, false
	}
	st, isS := deref(fa.X.Type()).Underlying().(*types.Struct)
	if !isS || st == nil || canonFieldName(fa.X.Type(), fa.Field) != field {
		return nil, false
	}
	return fa.X, true
}

func checkC07(P *Program, r *Result, tier string) {
	r.Explanation = "Rules on container/strmap and internal/strstore (generic bodies and instances): DIV (E1: every integer division/modulo reachable from the maps has a divisor proved ≥ 1, using the value range of the immutable prime table — a never-loaded map reports absent rather than failing), " +
		"ATOMIC-LOAD (no mutation of the receiver can precede a return whose error may be non-nil: a failed load changes nothing), SLOT-AGREE (loader and Get hash with the same function on the same seed field and reduce modulo the length of the same table), " +
		"EXTENT (an item's (off, sz) is (len(data) before the append, len(key)) and every lookup slices data[off : off+sz] of the same item; the value store writes and reads the same length-prefixed layout), READONLY (query methods write nothing)."
	fns := strmapFuncs(P)
	if len(fns) < 15 {
		r.fatal("expected at least 15 functions in strmap/strstore, found %d", len(fns))
		return
	}
	for _, f := range fns {
		r.Funcs[shortName(f)] = true
	}
	// ---------- DIV ----------
	run := newE1(P, fns, e1Config{StrictLen: false, Wrap: false})
	run.run()
	nd := 0
	for _, o := range run.obls {
		if o.Kind != "DIV" {
			continue
		}
		nd++
		r.add("DIV", shortName(o.Fn), "div", o.What+" is never zero", P.pos(instrPos(o.In)), o.OK, o.Detail)
	}
	if nd < 3 {
		r.fatal("expected at least 3 integer divisions (Get generic+instance, makeHashtable), found %d", nd)
	}
	// ---------- ATOMIC-LOAD ----------
	nl := 0
	for _, fn := range fns {
		bn := baseName(fn)
		if !(bn == "LoadFromSlice" || bn == "LoadFromMap" || bn == "Load") || fn.Signature.Recv() == nil || errIndex(fn) < 0 {
			continue
		}
		nl++
		recvKey := "P:" + fn.Params[0].Name()
		// mutation points
		var muts []ssa.Instruction
		for _, b := range fn.Blocks {
			for _, in := range b.Instrs {
				switch x := in.(type) {
				case *ssa.Store:
					if k := pathOf(x.Addr); strings.HasPrefix(k, recvKey+".") || k == recvKey {
						muts = append(muts, in)
					}
				case *ssa.MapUpdate:
					if k := pathOf(x.Map); strings.HasPrefix(k, recvKey) {
						muts = append(muts, in)
					}
				case ssa.CallInstruction:
					cal := x.Common().StaticCallee()
					if cal == nil || !inRepo(cal) {
						continue
					}
					for _, e := range globalEffects.of(cal) {
						// translate: does the callee write through something we pass that is rooted in the receiver?
						if !strings.HasPrefix(e.Key, "P:") {
							continue
						}
						name := e.Key[2:]
						if i := strings.IndexAny(name, ".[*{"); i >= 0 {
							name = name[:i]
						}
						for i, p := range cal.Params {
							if p.Name() == name && i < len(x.Common().Args) {
								if ak := pathOf(x.Common().Args[i]); strings.HasPrefix(ak, recvKey) {
									muts = append(muts, in)
								}
							}
						}
					}
				}
			}
		}
		ei := errIndex(fn)
		for _, ret := range returnsOf(fn) {
			ev := ret.Results[ei]
			if isNilConst(ev) {
				continue
			}
			// error produced by a callee that never fails
			if ex, ok := ev.(*ssa.Extract); ok {
				if c, ok := ex.Tuple.(*ssa.Call); ok {
					if cal := c.Common().StaticCallee(); cal != nil && alwaysNilError(cal) {
						continue
					}
				}
			}
			if c, ok := ev.(*ssa.Call); ok {
				if cal := c.Common().StaticCallee(); cal != nil && alwaysNilError(cal) {
					continue
				}
			}
			bad := ""
			for _, m := range muts {
				if m == ssa.Instruction(retCallOf(ev)) {
					continue // the tail call itself is checked on its own
				}
				// a mutation that only happens where this very error was tested nil is on the succeeding way
				// (single exit: err := check(); if err == nil { load() }; return err)
				if guardedNil(m, ev) {
					continue
				}
				if reachesWithout(m, ret, func(ssa.Instruction) bool { return false }) {
					bad = "mutation at " + P.pos(instrPos(m)) + " can precede this failing return"
				}
			}
			r.add("ATOMIC-LOAD", shortName(fn), "return", "nothing has been modified when the load fails", P.pos(instrPos(ret)), bad == "", bad)
		}
	}
	if nl < 4 {
		r.fatal("expected at least 4 loader functions, found %d", nl)
	}
	// ---------- SLOT-AGREE ----------
	hashCalls := map[string][]*ssa.Call{}
	for _, fn := range fns {
		for _, c := range callsIn(fn) {
			cal := c.Common().StaticCallee()
			if cal != nil && strings.HasSuffix(fnPkgPath(cal), "internal/hash/maphash") && (cal.Name() == "String" || cal.Name() == "Bytes") {
				role := "load"
				if baseName(fn) == "Get" {
					role = "Get"
				}
				hashCalls[role] = append(hashCalls[role], c.(*ssa.Call))
				seedOK := false
				if base, ok := fieldLoadOf(c.Common().Args[0], "seed"); ok && base == ssa.Value(fn.Params[0]) {
					seedOK = true
				}
				r.add("SLOT-AGREE", shortName(fn), "hash", "hashes with "+cal.Name()+" on the map's own seed field", P.pos(instrPos(c.(*ssa.Call))), seedOK, "")
			}
		}
	}
	sameFn := len(hashCalls["Get"]) > 0 && len(hashCalls["load"]) > 0
	if sameFn {
		for _, g := range hashCalls["Get"] {
			if g.Common().StaticCallee() != hashCalls["load"][0].Common().StaticCallee() {
				sameFn = false
			}
		}
	}
	r.add("SLOT-AGREE", "strmap.StrMap", "pair", "loader and Get use the same hash function", "-", sameFn, fmt.Sprint(len(hashCalls["Get"]), " Get sites, ", len(hashCalls["load"]), " load sites"))
	for _, fn := range fns {
		if baseName(fn) != "Get" && baseName(fn) != "makeHashtable" {
			continue
		}
		if fn.Signature.Recv() == nil || !strings.Contains(fn.String(), "StrMap") {
			continue
		}
		fa := run.A.fa(fn)
		for _, b := range fn.Blocks {
			for _, in := range b.Instrs {
				bo, ok := in.(*ssa.BinOp)
				if !ok || bo.Op != token.REM || !isInteger(bo.Type()) {
					continue
				}
				// modulus = len(m.hashtable) as seen at this point
				cur := cellSliceAt(fa, bo, "hashtable")
				mod := bo.Y
				if cv, isCv := mod.(*ssa.Convert); isCv { // the 32-bit view of the length (tables have < 2^31 slots by construction)
					mod = cv.X
				}
				ok = cur != nil && fa.proveEq(fa.expand(mod), cur.Len, b)
				r.add("SLOT-AGREE", shortName(fn), "mod", "the slot is reduced modulo the current length of the hash table", P.pos(instrPos(bo)), ok, "")
			}
		}
	}
	// ---------- GET-TIGHT: the value store's lookup does not refuse a record that is there ----------
	// every length check of StrStore.Get (and what it calls on the same receiver) that answers "nothing there" asks
	// for no more bytes than are then read: an empty value stored last ends exactly at the end of the buffer
	if gt := P.Method(relStrstore, "StrStore", "Get"); gt != nil {
		nget := 0
		for _, fn := range P.reachable([]*ssa.Function{gt}, func(f *ssa.Function) bool { return f.Pkg != gt.Pkg }) {
			if fn.Blocks == nil || len(fn.Params) == 0 || !types.Identical(fn.Params[0].Type(), gt.Params[0].Type()) {
				continue
			}
			fa := run.A.fa(fn)
			var carrier ssa.Value
			for _, b := range fn.Blocks {
				for _, in := range b.Instrs {
					if ld, ok := in.(*ssa.UnOp); ok && ld.Op == token.MUL && recvFieldOf(fn, ld.X) == "buf" && carrier == nil {
						carrier = ld
					}
				}
			}
			if carrier == nil {
				continue
			}
			bd := fa.sliceDesc(carrier)
			if bd == nil {
				continue
			}
			nres := fn.Signature.Results().Len()
			failRet := func(ret *ssa.Return) bool {
				last := ret.Results[nres-1]
				if c, ok := last.(*ssa.Const); ok && c.Value != nil {
					if c.Value.Kind() == constant.Bool {
						return !constant.BoolVal(c.Value)
					}
					if c.Value.Kind() == constant.String && nres == 1 {
						return constant.StringVal(c.Value) == ""
					}
				}
				return false
			}
			succRet := func(ret *ssa.Return) bool { return !failRet(ret) }
			justifies := func(in ssa.Instruction, need *Lin) bool {
				blk := in.Block()
				ext := func(v ssa.Value, n *Lin) bool {
					d := fa.sliceDesc(v)
					if d == nil || !isLoadOfField(fn, d.Root, "buf") {
						return false
					}
					return fa.prove(ineqLE(need, d.Off.add(n)), blk, rootCtx)
				}
				switch x := in.(type) {
				case *ssa.UnOp:
					if x.Op != token.MUL {
						return false
					}
					// *(*T)(unsafe.Pointer(&buf[i])) or buf[i]
					addr := x.X
					for {
						if cv, ok := addr.(*ssa.Convert); ok {
							addr = cv.X
							continue
						}
						break
					}
					if ia, ok := addr.(*ssa.IndexAddr); ok {
						return ext(ia.X, fa.expand(ia.Index).addConst(fa.sizeof(deref(x.X.Type()))))
					}
				case *ssa.Slice:
					if x.High != nil {
						return ext(x.X, fa.expand(x.High))
					}
				}
				return false
			}
			nget += neededWalkF(P, r, "GET-TIGHT", fa, fn, linConst(0), bd.Len, justifies, failRet, succRet)
		}
		if nget == 0 {
			r.fatal("no length check found in the value store's lookup")
		}
	}
	// ---------- SLOT-OWN: an item's slot is the hash of the item's own key ----------
	// the slot is set where the item is created (in the literal that is appended, from the key whose bytes are stored
	// with it), and afterwards only reduced (slot = slot % n on the same item). A later "re-hash" of items[i] from a
	// key list is not known to pair items with their own keys (the items are sorted by slot in between).
	{
		nslot := 0
		for _, fn := range fns {
			if fn.Signature.Recv() == nil || !strings.Contains(fn.String(), "StrMap") || len(fn.TypeArgs()) > 0 {
				continue
			}
			for _, b := range fn.Blocks {
				for _, in := range b.Instrs {
					st, ok := in.(*ssa.Store)
					if !ok {
						continue
					}
					fad, ok := st.Addr.(*ssa.FieldAddr)
					if !ok || canonFieldName(fad.X.Type(), fad.Field) != "slot" {
						continue
					}
					if _, isItem := deref(fad.X.Type()).Underlying().(*types.Struct); !isItem {
						continue
					}
					nslot++
					okSlot, why := false, "the slot is recomputed for an item that already exists, from a key not known to be its own"
					// (1) part of a fresh item value (a local composite literal that is then appended / stored whole)
					if al, isAl := fad.X.(*ssa.Alloc); isAl {
						_ = al
						okSlot, why = true, ""
					}
					// (2) reduction of the same item's slot
					if bo, isBo := st.Val.(*ssa.BinOp); isBo && bo.Op == token.REM {
						if ld, isLd := bo.X.(*ssa.UnOp); isLd && ld.Op == token.MUL {
							if f2, isF := ld.X.(*ssa.FieldAddr); isF && f2.Field == fad.Field && sameItemAddr(f2.X, fad.X) {
								okSlot, why = true, ""
							}
						}
					}
					r.add("SLOT-OWN", shortName(fn), "store", "an item's slot is set when the item is created from its own key and afterwards only reduced", P.pos(instrPos(st)), okSlot, why)
				}
			}
		}
		if nslot < 1 {
			r.fatal("expected at least one store to an item's slot, found %d", nslot)
		}
	}
	// ---------- EXTENT ----------
	ne := 0
	for _, fn := range fns {
		if fn.Signature.Recv() == nil || !strings.Contains(fn.String(), "StrMap") {
			continue
		}
		for _, b := range fn.Blocks {
			for _, in := range b.Instrs {
				sl, ok := in.(*ssa.Slice)
				if !ok || !isLoadOfField(fn, sl.X, "data") || sl.Low == nil || sl.High == nil {
					continue
				}
				ne++
				e1, ok1 := fieldLoadOf(sl.Low, "off")
				good := false
				if hi, isB := sl.High.(*ssa.BinOp); isB && hi.Op == token.ADD && ok1 {
					for _, pair := range [][2]ssa.Value{{hi.X, hi.Y}, {hi.Y, hi.X}} {
						e2, ok2 := fieldLoadOf(pair[0], "off")
						e3, ok3 := fieldLoadOf(pair[1], "sz")
						if ok2 && ok3 && sameItem(e1, e2) && sameItem(e1, e3) {
							good = true
						}
					}
				}
				r.add("EXTENT", shortName(fn), "slice", "key bytes are data[e.off : e.off+e.sz] of one and the same item", P.pos(instrPos(sl)), good, "")
			}
		}
		if baseName(fn) == "load" {
			// the item literal: off = len(m.data) right before the append of exactly the key
			fa := run.A.fa(fn)
			okOff, okSz, okApp := false, false, false
			for _, st := range storesTo(fn, "data") {
				ap := builtinCall(st.Val, "append")
				if ap == nil || !isLoadOfField(fn, ap.Common().Args[0], "data") {
					continue
				}
				key := ap.Common().Args[1]
				okApp = isString(key.Type())
				// item construction in the same block
				for _, in := range st.Block().Instrs {
					s2, ok := in.(*ssa.Store)
					if !ok {
						continue
					}
					f2, ok := s2.Addr.(*ssa.FieldAddr)
					if !ok {
						continue
					}
					st2, ok := deref(f2.X.Type()).Underlying().(*types.Struct)
					if !ok {
						continue
					}
					_ = st2
					switch canonFieldName(f2.X.Type(), f2.Field) {
					case "off":
						if l := builtinCall(s2.Val, "len"); l != nil && isLoadOfField(fn, l.Common().Args[0], "data") && instrDominates(s2, st) {
							// same version of data as the append's base
							kd := "P:" + fn.Params[0].Name() + ".data"
							if fa.mem.versionAt(l, kd) == fa.mem.versionAt(ap, kd) {
								okOff = true
							}
						}
					case "sz":
						if cv, ok := s2.Val.(*ssa.Convert); ok {
							if l := builtinCall(cv.X, "len"); l != nil && l.Common().Args[0] == key {
								okSz = true
							}
						}
					}
				}
			}
			r.add("EXTENT", shortName(fn), "item", "item.off = len(data) before the key is appended", P.pos(fn.Pos()), okOff, "")
			r.add("EXTENT", shortName(fn), "item", "item.sz = len(key)", P.pos(fn.Pos()), okSz, "")
			r.add("EXTENT", shortName(fn), "append", "exactly the key bytes are appended to data", P.pos(fn.Pos()), okApp, "")
		}
	}
	if ne < 4 {
		r.fatal("expected at least 4 key-extent slices (Get ×2, Item, String), found %d", ne)
	}
	// value store layout
	if ld, gt := P.Method(relStrstore, "StrStore", "Load"), P.Method(relStrstore, "StrStore", "Get"); r.require("strstore.StrStore.Load/Get", ld != nil && gt != nil) {
		// the filling loop may live in Load itself or in a helper on the same receiver that Load calls
		origLd := ld
		for _, f := range P.reachable([]*ssa.Function{origLd}, func(f *ssa.Function) bool { return f.Pkg != origLd.Pkg }) {
			if f == origLd || len(f.Params) == 0 || !types.Identical(f.Params[0].Type(), origLd.Params[0].Type()) {
				continue
			}
			for _, b := range f.Blocks {
				for _, in := range b.Instrs {
					if builtinCall(valueOf(in), "copy") != nil {
						ld = f
					}
				}
			}
		}
		fa := run.A.fa(ld)
		// Load: length stored at offset, bytes copied to [offset+4 : offset+4+len], offset += 4+len
		var lenStore *ssa.Store
		var cp *ssa.Call
		for _, b := range ld.Blocks {
			for _, in := range b.Instrs {
				if st, ok := in.(*ssa.Store); ok {
					if cv, ok := st.Addr.(*ssa.Convert); ok {
						if c2, ok := cv.X.(*ssa.Convert); ok && isUnsafePointer(c2.Type()) {
							lenStore = st
						}
					}
				}
				if c := builtinCall(valueOf(in), "copy"); c != nil {
					cp = c
				}
			}
		}
		ok := false
		detail := ""
		if lenStore != nil && cp != nil {
			ia, _ := lenStore.Addr.(*ssa.Convert).X.(*ssa.Convert).X.(*ssa.IndexAddr)
			dst, src := fa.sliceDesc(cp.Common().Args[0]), fa.sliceDesc(cp.Common().Args[1])
			var iaBase *SliceDesc
			if ia != nil {
				iaBase = fa.sliceDesc(ia.X) // the buffer itself, or a window of it kept as an advancing sub-slice
			}
			if ia != nil && iaBase != nil && dst != nil && src != nil && isLoadOfField(ld, iaBase.Root, "buf") && isLoadOfField(ld, dst.Root, "buf") {
				off := iaBase.Off.add(fa.expand(ia.Index))
				// stored length = uint32(len(element)) of the element that is copied
				lenOK := false
				if cv, isCv := lenStore.Val.(*ssa.Convert); isCv {
					lenOK = fa.expand(cv.X).equal(src.Len)
				}
				at := dst.Off.equal(off.addConst(4)) && dst.Len.equal(src.Len)
				next := false
				if a, isAtom := singleAtom(off); isAtom && run.A.at(a).Phi != nil {
					ph := run.A.at(a).Phi
					for i, p := range ph.Block.Preds {
						if ph.Block.Dominates(p) && ph.In(i).equal(off.addConst(4).add(src.Len)) {
							next = true
						}
					}
				}
				ok = lenOK && at && next
				if !lenOK {
					detail = "stored length is not the copied element's length"
				} else if !at {
					detail = "bytes are not copied to [offset+4 : offset+4+len]"
				} else if !next {
					detail = "next offset is not offset+4+len"
				}
			}
		}
		r.add("EXTENT", shortName(ld), "layout", "value store: uint32 length at offset, bytes at offset+4, next offset = offset+4+len", P.pos(ld.Pos()), ok, detail)
		// Get: reads the length at idx and returns buf[idx+4 : idx+4+length]
		fg := run.A.fa(gt)
		okG := false
		for _, b := range gt.Blocks {
			for _, in := range b.Instrs {
				sl, isSl := in.(*ssa.Slice)
				if !isSl || !isLoadOfField(gt, sl.X, "buf") || sl.Low == nil || sl.High == nil {
					continue
				}
				lo, hi := fg.expand(sl.Low), fg.expand(sl.High)
				idx := fg.expand(gt.Params[1])
				if lo.equal(idx.addConst(4)) {
					// hi - lo is the (converted) value loaded through the unsafe cast at &buf[idx]
					d := hi.sub(lo)
					if id, isAtom := singleAtom(d); isAtom {
						okG = strings.Contains(run.A.at(id).Name, "Get.")
					}
				}
			}
		}
		r.add("EXTENT", shortName(gt), "layout", "value store: Get returns buf[idx+4 : idx+4+length] with the length read at idx", P.pos(gt.Pos()), okG, "")
	}
	// ---------- READONLY ----------
	ro := 0
	for _, fn := range fns {
		if fn.Signature.Recv() == nil {
			continue
		}
		switch baseName(fn) {
		case "Get", "Len", "Item", "String":
		default:
			continue
		}
		ro++
		bad := ""
		for _, e := range globalEffects.of(fn) {
			if strings.HasPrefix(e.Key, "P:") || strings.HasPrefix(e.Key, "G:") || strings.HasPrefix(e.Key, "?") {
				bad = fmt.Sprintf("writes %s at %s %s", e.Key, P.pos(instrPos(e.In)), e.Via)
			}
		}
		r.add("READONLY", shortName(fn), "effects", "query method writes no shared state", P.pos(fn.Pos()), bad == "", bad)
	}
	if ro < 8 {
		r.fatal("expected at least 8 query methods, found %d", ro)
	}
	// ---- EMPTY-SLOT: whoever (re)builds the hash table marks every slot empty (negative) before filling it,
	// and Get reads a negative slot as "absent" ----
	A2 := newAnalysis(P)
	builders := 0
	for _, fn := range fns {
		if len(fn.Params) == 0 {
			continue
		}
		// a builder gives the table slots (a store of tab[:0] only empties it)
		sized := false
		for _, st := range storesTo(fn, "hashtable") {
			if sl, isSl := st.Val.(*ssa.Slice); isSl && sl.High != nil {
				if k, isC := constInt(sl.High); isC && k == 0 {
					continue
				}
			}
			if isNilConst(st.Val) {
				continue
			}
			sized = true
		}
		if !sized {
			continue
		}
		builders++
		fa := A2.fa(fn)
		ok, detail := false, "no loop stores a negative marker into every slot of the rebuilt table"
		for _, b := range fn.Blocks {
			for _, in := range b.Instrs {
				st, isSt := in.(*ssa.Store)
				if !isSt {
					continue
				}
				ia, isIA := st.Addr.(*ssa.IndexAddr)
				if !isIA || !isLoadOfField(fn, ia.X, "hashtable") {
					continue
				}
				if k, isC := constInt(st.Val); !isC || k >= 0 {
					continue
				}
				if !rangeIndexFromZero(ia.Index) {
					continue
				}
				tab := fa.sliceDesc(ia.X)
				if tab == nil {
					continue
				}
				goal := ineqGE(fa.expand(ia.Index), tab.Len)
				if debugContracts {
					fmt.Println("EMPTY-SLOT goal", fa.A.ineqString(goal), "in", fn.Name())
				}
				for _, dc := range blockConds(b, nil, 0) {
					if !dc.Truth {
						continue
					}
					ef := &edgeFacts{}
					fa.condFacts(dc.Cond, false, ef)
					if debugContracts {
						for _, f := range ef.ineq {
							fmt.Println("   neg-cond fact", fa.A.ineqString(f))
						}
					}
					if !entails(fa.closeFacts(ef.ineq, nil, nil, goal), goal) {
						continue
					}
					// the loop is on every path to the exits and comes after the table was (re)sized
					var hb *ssa.BasicBlock
					for _, t := range testsOf(dc.Cond) {
						hb = t.If.Block()
					}
					if hb == nil {
						continue
					}
					all := true
					for _, ret := range returnsOf(fn) {
						if !hb.Dominates(ret.Block()) {
							all = false
							detail = "the slots are not reset on every path through " + fn.Name()
						}
					}
					for _, rs := range storesTo(fn, "hashtable") {
						if !(rs.Block() == hb || rs.Block().Dominates(hb) || hb.Dominates(rs.Block())) {
							continue
						}
						if hb.Dominates(rs.Block()) && rs.Block() != hb {
							all = false
							detail = "the table is replaced after its slots were reset"
						}
					}
					// the table read by the loop is the rebuilt one
					key := "P:" + fn.Params[0].Name() + ".hashtable"
					if v := fa.mem.versionAt(st, key); v == nil || v.Kind == mEntry {
						all = false
						detail = "the reset loop runs on the table as it was on entry"
					}
					if all {
						ok, detail = true, ""
					}
				}
			}
		}
		r.add("EMPTY-SLOT", shortName(fn), "loop", "every slot of the rebuilt table is marked empty before the items are entered", P.pos(fn.Pos()), ok, detail)
	}
	if builders == 0 {
		r.fatal("no function rebuilding the hash table found")
	}
	// ---- CTOR-NONNIL: what the query methods dereference without a test is installed by every constructor ----
	{
		type fieldKey struct {
			t *types.Named
			f int
		}
		needed := map[fieldKey]string{}
		for _, fn := range fns {
			if fn.Signature.Recv() == nil || fn.Blocks == nil || len(fn.Params) == 0 {
				continue
			}
			n := baseName(fn)
			if strings.HasPrefix(n, "Load") || strings.HasPrefix(n, "load") || len(fn.TypeArgs()) > 0 {
				continue // loaders install what is missing themselves; instances repeat the generic body
			}
			for _, b := range fn.Blocks {
				for _, in := range b.Instrs {
					ld, ok := in.(*ssa.UnOp)
					if !ok || ld.Op != token.MUL {
						continue
					}
					fa, ok := ld.X.(*ssa.FieldAddr)
					if !ok || fa.X != ssa.Value(fn.Params[0]) {
						continue
					}
					if _, isPtr := ld.Type().Underlying().(*types.Pointer); !isPtr {
						continue
					}
					nt := namedOf(fn.Params[0].Type())
					if nt == nil || ld.Referrers() == nil {
						continue
					}
					// used as the receiver of a method call (or dereferenced) with no nil test in front
					for _, rf := range *ld.Referrers() {
						ci, isCall := rf.(ssa.CallInstruction)
						if !isCall || len(ci.Common().Args) == 0 || ci.Common().Args[0] != ssa.Value(ld) || ci.Common().IsInvoke() {
							continue
						}
						if guardedNonNil(rf, ld) {
							continue
						}
						needed[fieldKey{nt.Origin(), fa.Field}] = shortName(fn)
					}
				}
			}
		}
		for k, user := range needed {
			st, _ := k.t.Underlying().(*types.Struct)
			if st == nil {
				continue
			}
			fname := st.Field(k.f).Name()
			// constructors: package-level functions returning *T
			nctor := 0
			for _, fn := range repoFuncs(P) {
				if fn.Signature.Recv() != nil || fn.Blocks == nil || fn.Signature.Results().Len() == 0 || len(fn.TypeArgs()) > 0 {
					continue
				}
				rt := namedOf(fn.Signature.Results().At(0).Type())
				if rt == nil || rt.Origin() != k.t {
					continue
				}
				// the object returned is allocated here: the field must be stored a never-nil value on it
				for _, ret := range returnsOf(fn) {
					al, isAlloc := ret.Results[0].(*ssa.Alloc)
					if !isAlloc {
						continue
					}
					nctor++
					ok := false
					if al.Referrers() != nil {
						for _, rf := range *al.Referrers() {
							fa, isFA := rf.(*ssa.FieldAddr)
							if !isFA || fa.Field != k.f || fa.Referrers() == nil {
								continue
							}
							for _, rf2 := range *fa.Referrers() {
								if stv, isSt := rf2.(*ssa.Store); isSt && stv.Addr == ssa.Value(fa) && instrDominates(stv, ret) {
									switch v := stv.Val.(type) {
									case *ssa.Alloc, *ssa.MakeMap, *ssa.MakeSlice:
										ok = true
									case *ssa.Call:
										if cal := v.Common().StaticCallee(); cal != nil && neverNilResult(cal) {
											ok = true
										}
									}
								}
							}
						}
					}
					r.add("CTOR-NONNIL", shortName(fn), "field", "the constructor installs "+fname+", which "+user+" uses without a nil test (a never-loaded map answers absent instead of failing)", P.pos(instrPos(ret)), ok, "")
				}
			}
			if nctor == 0 {
				r.add("CTOR-NONNIL", k.t.Obj().Name(), "field", "a constructor installs "+fname, "-", false, "no constructor of "+k.t.Obj().Name()+" found")
			}
		}
	}
	// ---- REBUILD: whoever replaces the items leaves no way out on which the table still indexes the old ones ----
	var writesTable func(f *ssa.Function, depth int) bool
	writesTable = func(f *ssa.Function, depth int) bool {
		if f == nil || f.Blocks == nil || depth > 3 {
			return false
		}
		if len(storesTo(f, "hashtable")) > 0 {
			return true
		}
		for _, c := range callsIn(f) {
			if cal := c.Common().StaticCallee(); cal != nil && inRepo(cal) && cal != f && writesTable(cal, depth+1) {
				return true
			}
		}
		return false
	}
	loaders := 0
	for _, fn := range fns {
		if fn.Signature.Recv() == nil || len(storesTo(fn, "items")) == 0 || fn.Blocks == nil {
			continue
		}
		loaders++
		stop := func(in ssa.Instruction) bool {
			if st, ok := in.(*ssa.Store); ok && recvFieldOf(fn, st.Addr) == "hashtable" {
				return true
			}
			if c, ok := in.(ssa.CallInstruction); ok {
				if cal := c.Common().StaticCallee(); cal != nil && inRepo(cal) && writesTable(cal, 0) {
					return true
				}
			}
			return false
		}
		for _, st := range storesTo(fn, "items") {
			escapes, at := exitsWithout(st, stop)
			detail := ""
			if escapes && at != nil {
				detail = "the exit at " + P.pos(instrPos(at)) + " is reached with the items replaced but the table neither rebuilt nor reset"
			}
			r.add("REBUILD", shortName(fn), "store", "after the items are replaced every way out rebuilds (or resets) the hash table that indexes them", P.pos(instrPos(st)), !escapes, detail)
		}
	}
	if loaders == 0 {
		r.fatal("no function replacing the items of a map found")
	}
	for _, fn := range fns {
		if baseName(fn) != "Get" || fn.Signature.Recv() == nil || len(storesTo(fn, "hashtable")) > 0 {
			continue
		}
		// only the StrMap lookups index the table
		uses := false
		okNeg := false
		for _, b := range fn.Blocks {
			for _, in := range b.Instrs {
				ld, isLd := in.(*ssa.UnOp)
				if !isLd || ld.Op != token.MUL {
					continue
				}
				ia, isIA := ld.X.(*ssa.IndexAddr)
				if !isIA || !isLoadOfField(fn, ia.X, "hashtable") {
					continue
				}
				uses = true
				if ld.Referrers() == nil {
					continue
				}
				// the slot value and its sign-preserving widenings (i := int(hashtable[slot]))
				vals := []ssa.Value{ld}
				for qi := 0; qi < len(vals); qi++ {
					if rs := vals[qi].Referrers(); rs != nil {
						for _, ref := range *rs {
							if cv, isCv := ref.(*ssa.Convert); isCv && isInteger(cv.Type()) {
								bx, sx := intBits(cv.X.Type())
								br, sr := intBits(cv.Type())
								if sx && sr && br >= bx {
									vals = append(vals, cv)
								}
							}
						}
					}
				}
				isVal := func(v ssa.Value) bool {
					for _, x := range vals {
						if x == v {
							return true
						}
					}
					return false
				}
				var allRefs []ssa.Instruction
				for _, v := range vals {
					if rs := v.Referrers(); rs != nil {
						allRefs = append(allRefs, *rs...)
					}
				}
				for _, ref := range allRefs {
					if bo, isBo := ref.(*ssa.BinOp); isBo && isVal(bo.X) && (bo.Op == token.LSS || bo.Op == token.GEQ) {
						if k, isC := constInt(bo.Y); isC && k == 0 {
							// every use of the slot value as an index lies on the non-negative side
							okNeg = true
							for _, ref2 := range allRefs {
								if cv, isCv := ref2.(*ssa.Convert); isCv && isVal(cv) {
									continue
								}
								if ph, isPhi := ref2.(*ssa.Phi); isPhi {
									// a phi uses the value on the incoming edge: the edge's source must be guarded
									for k, e := range ph.Edges {
										if isVal(e) {
											pb := ph.Block().Preds[k]
											if !guardedBy(pb.Instrs[len(pb.Instrs)-1], bo, bo.Op == token.GEQ) {
												okNeg = false
											}
										}
									}
									continue
								}
								if ref2 != ssa.Instruction(bo) {
									if !guardedBy(ref2, bo, bo.Op == token.GEQ) {
										okNeg = false
									}
								}
							}
						}
					}
				}
			}
		}
		if uses {
			r.add("EMPTY-SLOT", shortName(fn), "test", "a negative slot value is answered with absent before it is used as an index", P.pos(fn.Pos()), okNeg, "")
		}
	}
	sortedRule(P, r)
	r.assume("hash/maphash and xxhash3 are deterministic for a fixed seed; that the collision scan finds every key (sortedness of items by slot) is a run-time invariant and not decided")
}

func valueOf(in ssa.Instruction) ssa.Value {
	v, _ := in.(ssa.Value)
	return v
}

func retCallOf(v ssa.Value) *ssa.Call {
	if c, ok := v.(*ssa.Call); ok {
		return c
	}
	if ex, ok := v.(*ssa.Extract); ok {
		if c, ok := ex.Tuple.(*ssa.Call); ok {
			return c
		}
	}
	return nil
}

// sameItem: two item pointers denote the same element (same SSA value).
func sameItem(a, b ssa.Value) bool { return a == b }

// sameItemAddr: two addresses denote the same element: identical values, or IndexAddr of
// the same slice value (or of loads of the same field) with the same index.
func sameItemAddr(a, b ssa.Value) bool {
	if a == b {
		return true
	}
	ia, ok1 := a.(*ssa.IndexAddr)
	ib, ok2 := b.(*ssa.IndexAddr)
	if !ok1 || !ok2 || ia.Index != ib.Index {
		return false
	}
	if ia.X == ib.X {
		return true
	}
	la, ok1 := ia.X.(*ssa.UnOp)
	lb, ok2 := ib.X.(*ssa.UnOp)
	if ok1 && ok2 && la.Op == token.MUL && lb.Op == token.MUL {
		return pathOf(la.X) != "" && pathOf(la.X) == pathOf(lb.X)
	}
	return false
}

func init() { register("C07", "other", checkC07) }

// sortedRule: the collision scan of Get relies on items of one slot standing together, which the load establishes by
// sorting with a comparator. Whatever else it orders by, the comparator must be a refinement of "by slot":
// Less(i, j) ⇒ slot[i] ≤ slot[j] and ¬Less(i, j) ⇒ slot[i] ≥ slot[j] — on every way out of it.
func sortedRule(P *Program, r *Result) {
	n := 0
	A := newAnalysis(P)
	for _, fn := range repoFuncs(P) {
		if fnPkgPath(fn) != modPath+"/container/strmap" || baseName(fn) != "Less" || fn.Signature.Recv() == nil || len(fn.Params) != 3 || fn.Blocks == nil {
			continue
		}
		if strings.Contains(fn.Synthetic, "wrapper") || strings.Contains(fn.Synthetic, "thunk") || strings.Contains(fn.Synthetic, "bound") {
			continue
		}
		sl, ok := fn.Params[0].Type().Underlying().(*types.Slice)
		if !ok {
			continue
		}
		st, ok := sl.Elem().Underlying().(*types.Struct)
		if !ok {
			continue
		}
		slotField := -1
		for i := 0; i < st.NumFields(); i++ {
			if st.Field(i).Name() == "slot" {
				slotField = i
			}
		}
		if slotField < 0 {
			continue
		}
		n++
		r.Funcs[shortName(fn)] = true
		fa := A.fa(fn)
		// loads of x[i].slot and x[j].slot
		var li, lj []*ssa.UnOp
		for _, b := range fn.Blocks {
			for _, in := range b.Instrs {
				ld, ok := in.(*ssa.UnOp)
				if !ok || ld.Op != token.MUL {
					continue
				}
				fad, ok := ld.X.(*ssa.FieldAddr)
				if !ok || fad.Field != slotField {
					continue
				}
				ia, ok := fad.X.(*ssa.IndexAddr)
				if !ok || ia.X != ssa.Value(fn.Params[0]) {
					continue
				}
				switch ia.Index {
				case ssa.Value(fn.Params[1]):
					li = append(li, ld)
				case ssa.Value(fn.Params[2]):
					lj = append(lj, ld)
				}
			}
		}
		isSlot := func(v ssa.Value, set []*ssa.UnOp) bool {
			for _, l := range set {
				if ssa.Value(l) == v {
					return true
				}
			}
			return false
		}
		ctx := rootCtx
		prove := func(le bool, blk *ssa.BasicBlock) bool {
			for _, a := range li {
				for _, b := range lj {
					if !(a.Block() == blk || a.Block().Dominates(blk)) || !(b.Block() == blk || b.Block().Dominates(blk)) {
						continue
					}
					x, y := fa.expand(a), fa.expand(b)
					if le && fa.prove(ineqLE(x, y), blk, ctx) {
						return true
					}
					if !le && fa.prove(ineqGE(x, y), blk, ctx) {
						return true
					}
				}
			}
			return false
		}
		for _, rc := range retCases(fn) {
			v := rc.results[0]
			blk := rc.at.Block()
			ctx = rootCtx
			if iff, isIf := rc.at.(*ssa.If); isIf && rc.pred >= 0 {
				ef := &edgeFacts{}
				fa.edgeCond(iff.Block(), rc.ret.Block(), ef)
				ctx = rootCtx.with(ef.ineq, ef.neq)
			}
			ctxOK, detail := false, ""
			switch x := v.(type) {
			case *ssa.Const:
				if x.Value != nil && x.Value.Kind() == constant.Bool {
					if constant.BoolVal(x.Value) {
						ctxOK = prove(true, blk)
						detail = "true is answered where slot[i] ≤ slot[j] is not known"
					} else {
						ctxOK = prove(false, blk)
						detail = "false is answered where slot[i] ≥ slot[j] is not known"
					}
				}
			case *ssa.BinOp:
				switch {
				case x.Op == token.LSS && isSlot(x.X, li) && isSlot(x.Y, lj), x.Op == token.GTR && isSlot(x.X, lj) && isSlot(x.Y, li):
					ctxOK = true
				default:
					// a tie-break: only where the slots are known to be equal
					ctxOK = prove(true, blk) && prove(false, blk)
					detail = "another comparison decides where the slots are not known to be equal"
				}
			default:
				detail = "the answer is not a comparison the rule can read"
			}
			if ctxOK {
				detail = ""
			}
			r.add("SLOT-AGREE", shortName(fn), "order", "the comparator the items are sorted with refines the order by slot (items of one slot end up together)", P.pos(instrPos(rc.ret)), ctxOK, detail)
		}
	}
	r.require("strmap: the comparator of the slot sort", n > 0)
}
