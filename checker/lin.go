package main

// E2: linear forms over atoms with arbitrary-precision integer coefficients,
// and the entailment procedure (Fourier-Motzkin over the rationals with
// integer tightening of strict inequalities) used by E1.

import (
	"math/big"
	"sort"
	"strconv"
)

type AtomID int

// Lin is c + Σ coef·atom. As an inequality it means "Lin ≤ 0".
type Lin struct {
	C *big.Int
	T map[AtomID]*big.Int
}

func bi(n int64) *big.Int { return big.NewInt(n) }

func pow2(k uint) *big.Int { return new(big.Int).Lsh(big.NewInt(1), k) }

func linConst(n int64) *Lin { return &Lin{C: bi(n), T: map[AtomID]*big.Int{}} }

func linBig(n *big.Int) *Lin { return &Lin{C: new(big.Int).Set(n), T: map[AtomID]*big.Int{}} }

func linAtom(a AtomID) *Lin { return &Lin{C: bi(0), T: map[AtomID]*big.Int{a: bi(1)}} }

func (l *Lin) clone() *Lin {
	n := &Lin{C: new(big.Int).Set(l.C), T: make(map[AtomID]*big.Int, len(l.T))}
	for a, c := range l.T {
		n.T[a] = new(big.Int).Set(c)
	}
	return n
}

func (l *Lin) addScaled(o *Lin, k *big.Int) *Lin {
	n := l.clone()
	n.C.Add(n.C, new(big.Int).Mul(o.C, k))
	for a, c := range o.T {
		v := new(big.Int).Mul(c, k)
		if old, ok := n.T[a]; ok {
			v.Add(v, old)
		}
		if v.Sign() == 0 {
			delete(n.T, a)
		} else {
			n.T[a] = v
		}
	}
	return n
}

func (l *Lin) add(o *Lin) *Lin { return l.addScaled(o, bi(1)) }
func (l *Lin) sub(o *Lin) *Lin { return l.addScaled(o, bi(-1)) }
func (l *Lin) neg() *Lin       { return linConst(0).addScaled(l, bi(-1)) }
func (l *Lin) scale(k *big.Int) *Lin {
	return linConst(0).addScaled(l, k)
}
func (l *Lin) addConst(n int64) *Lin {
	r := l.clone()
	r.C.Add(r.C, bi(n))
	return r
}
func (l *Lin) isConst() bool { return len(l.T) == 0 }

// constVal returns the constant value if l has no atoms.
func (l *Lin) constVal() (*big.Int, bool) {
	if len(l.T) == 0 {
		return l.C, true
	}
	return nil, false
}

func (l *Lin) atoms() []AtomID {
	out := make([]AtomID, 0, len(l.T))
	for a := range l.T {
		out = append(out, a)
	}
	sort.Slice(out, func(i, j int) bool { return out[i] < out[j] })
	return out
}

func (l *Lin) has(a AtomID) bool { _, ok := l.T[a]; return ok }

// subst replaces atom a by expression e.
func (l *Lin) subst(a AtomID, e *Lin) *Lin {
	c, ok := l.T[a]
	if !ok {
		return l
	}
	n := l.clone()
	delete(n.T, a)
	return n.addScaled(e, c)
}

func (l *Lin) substAll(m map[AtomID]*Lin) *Lin {
	if len(m) == 0 {
		return l
	}
	hit := false
	for a := range l.T {
		if _, ok := m[a]; ok {
			hit = true
			break
		}
	}
	if !hit {
		return l
	}
	n := &Lin{C: new(big.Int).Set(l.C), T: map[AtomID]*big.Int{}}
	for a, c := range l.T {
		if e, ok := m[a]; ok {
			n = n.addScaled(e, c)
		} else {
			n = n.addScaled(linAtom(a), c)
		}
	}
	return n
}

func (l *Lin) equal(o *Lin) bool {
	d := l.sub(o)
	return d.isConst() && d.C.Sign() == 0
}

// key is a canonical text form (atom ids, not names).
func (l *Lin) key() string {
	buf := make([]byte, 0, 16+12*len(l.T))
	buf = appendBig(buf, l.C)
	for _, a := range l.atoms() {
		buf = append(buf, '|')
		buf = strconv.AppendInt(buf, int64(a), 32)
		buf = append(buf, '*')
		buf = appendBig(buf, l.T[a])
	}
	return string(buf)
}

func appendBig(buf []byte, x *big.Int) []byte {
	if x.IsInt64() {
		return strconv.AppendInt(buf, x.Int64(), 32)
	}
	return x.Append(buf, 32)
}

// normIneq divides an inequality by the gcd of its coefficients (tightening the
// constant, since all atoms are integers).
func normIneq(l *Lin) *Lin {
	if len(l.T) == 0 {
		return l
	}
	g := new(big.Int)
	for _, c := range l.T {
		g.GCD(nil, nil, g, new(big.Int).Abs(c))
	}
	if g.Cmp(bi(1)) <= 0 {
		return l
	}
	n := &Lin{C: new(big.Int), T: make(map[AtomID]*big.Int, len(l.T))}
	for a, c := range l.T {
		n.T[a] = new(big.Int).Quo(c, g)
	}
	// Σ (g·c'_i) x_i + C ≤ 0  ⇔  Σ c'_i x_i ≤ -C/g  ⇔ Σ c'_i x_i ≤ floor(-C/g) ⇔ Σ c'_i x_i + ceil(C/g) ≤ 0
	q, m := new(big.Int).DivMod(l.C, g, new(big.Int)) // floor division (g>0): C = q*g + m, 0<=m<g
	if m.Sign() != 0 {
		q.Add(q, bi(1))
	}
	n.C = q
	return n
}

// ---- comparison helpers building inequalities "… ≤ 0" ----

func ineqLE(a, b *Lin) *Lin { return a.sub(b) }             // a ≤ b
func ineqLT(a, b *Lin) *Lin { return a.sub(b).addConst(1) } // a < b  (integers)
func ineqGE(a, b *Lin) *Lin { return b.sub(a) }
func ineqGT(a, b *Lin) *Lin { return b.sub(a).addConst(1) }

// negIneq returns the negation of "l ≤ 0" as an inequality: l ≥ 1, i.e. 1 - l ≤ 0.
func negIneq(l *Lin) *Lin { return l.neg().addConst(1) }

// ---- Fourier–Motzkin ----

const fmCap = 6000

// bound1 extracts "coef·a + c ≤ 0" as a bound on the single atom a.
func bound1(l *Lin) (a AtomID, upper bool, val *big.Int, ok bool) {
	if len(l.T) != 1 {
		return 0, false, nil, false
	}
	for id, c := range l.T {
		// after normIneq the coefficient is ±1
		if c.Cmp(bi(1)) == 0 {
			return id, true, new(big.Int).Neg(l.C), true // a ≤ -C
		}
		if c.Cmp(bi(-1)) == 0 {
			return id, false, new(big.Int).Set(l.C), true // a ≥ C
		}
	}
	return 0, false, nil, false
}

// presolve simplifies a conjunction of inequalities: equalities (a constraint
// together with its negation) with a unit coefficient are eliminated by
// substitution, and only the tightest single-atom bounds are kept.
// It returns contradiction=true if the system is already infeasible.
func presolve(cons []*Lin) (out []*Lin, contradiction bool) {
	cur := make([]*Lin, 0, len(cons))
	for _, c := range cons {
		c = normIneq(c)
		if c.isConst() {
			if c.C.Sign() > 0 {
				return nil, true
			}
			continue
		}
		cur = append(cur, c)
	}
	for iter := 0; iter < 64; iter++ {
		keys := make(map[string]int, len(cur))
		for i, c := range cur {
			keys[c.key()] = i
		}
		var eq *Lin
		var ea AtomID
		for _, c := range cur {
			if _, ok := keys[normIneq(c.neg()).key()]; !ok {
				continue
			}
			for _, a := range c.atoms() {
				if k := c.T[a]; k.Cmp(bi(1)) == 0 || k.Cmp(bi(-1)) == 0 {
					eq, ea = c, a
					break
				}
			}
			if eq != nil {
				break
			}
		}
		if eq == nil {
			break
		}
		// eq: k·ea + rest = 0  ⇒  ea = -rest/k  (k = ±1)
		k := eq.T[ea]
		rest := eq.clone()
		delete(rest.T, ea)
		var expr *Lin
		if k.Sign() > 0 {
			expr = rest.neg()
		} else {
			expr = rest
		}
		next := make([]*Lin, 0, len(cur))
		seen := map[string]bool{}
		for _, c := range cur {
			n := c
			if c.has(ea) {
				n = normIneq(c.subst(ea, expr))
			}
			if n.isConst() {
				if n.C.Sign() > 0 {
					return nil, true
				}
				continue
			}
			kk := n.key()
			if seen[kk] {
				continue
			}
			seen[kk] = true
			next = append(next, n)
		}
		cur = next
	}
	// tightest single-atom bounds
	type bd struct{ lo, hi *big.Int }
	bds := map[AtomID]*bd{}
	var rest []*Lin
	for _, c := range cur {
		if a, up, v, ok := bound1(c); ok {
			b := bds[a]
			if b == nil {
				b = &bd{}
				bds[a] = b
			}
			if up {
				if b.hi == nil || v.Cmp(b.hi) < 0 {
					b.hi = v
				}
			} else {
				if b.lo == nil || v.Cmp(b.lo) > 0 {
					b.lo = v
				}
			}
			continue
		}
		rest = append(rest, c)
	}
	// atoms that occur only in bounds cannot contribute to a contradiction other than lo > hi
	occ := map[AtomID]bool{}
	for _, c := range rest {
		for a := range c.T {
			occ[a] = true
		}
	}
	ids := make([]AtomID, 0, len(bds))
	for a := range bds {
		ids = append(ids, a)
	}
	sort.Slice(ids, func(i, j int) bool { return ids[i] < ids[j] })
	for _, a := range ids {
		b := bds[a]
		if b.lo != nil && b.hi != nil && b.lo.Cmp(b.hi) > 0 {
			return nil, true
		}
		if !occ[a] {
			continue
		}
		if b.hi != nil {
			rest = append(rest, ineqLE(linAtom(a), linBig(b.hi)))
		}
		if b.lo != nil {
			rest = append(rest, ineqGE(linAtom(a), linBig(b.lo)))
		}
	}
	return rest, false
}

// unsat reports whether the conjunction of the inequalities (each "≤ 0") has
// no rational solution. ok=false means the procedure gave up (size cap).
func unsat(cons []*Lin) (res bool, ok bool) {
	cur0, contra := presolve(cons)
	if contra {
		return true, true
	}
	// normalise, dedupe, detect trivial contradictions
	cur := make([]*Lin, 0, len(cur0))
	seen := map[string]bool{}
	push := func(dst *[]*Lin, l *Lin) bool {
		l = normIneq(l)
		if l.isConst() {
			return l.C.Sign() > 0 // contradiction
		}
		k := l.key()
		if seen[k] {
			return false
		}
		seen[k] = true
		*dst = append(*dst, l)
		return false
	}
	for _, c := range cur0 {
		if push(&cur, c) {
			return true, true
		}
	}
	for {
		// drop constraints containing an atom that occurs with one sign only
		for changed := true; changed; {
			changed = false
			sign := map[AtomID]int{}
			for _, l := range cur {
				for a, c := range l.T {
					s := 1
					if c.Sign() < 0 {
						s = 2
					}
					sign[a] |= s
				}
			}
			kept := cur[:0]
			for _, l := range cur {
				drop := false
				for a := range l.T {
					if sign[a] != 3 {
						drop = true
						break
					}
				}
				if drop {
					changed = true
				} else {
					kept = append(kept, l)
				}
			}
			cur = kept
		}
		if len(cur) == 0 {
			return false, true
		}
		// pick the atom with the smallest pos*neg product
		type cnt struct{ p, n int }
		cn := map[AtomID]*cnt{}
		for _, l := range cur {
			for a, c := range l.T {
				x := cn[a]
				if x == nil {
					x = &cnt{}
					cn[a] = x
				}
				if c.Sign() > 0 {
					x.p++
				} else {
					x.n++
				}
			}
		}
		var best AtomID
		bestCost := 0
		first := true
		ids := make([]AtomID, 0, len(cn))
		for a := range cn {
			ids = append(ids, a)
		}
		sort.Slice(ids, func(i, j int) bool { return ids[i] < ids[j] })
		for _, a := range ids {
			x := cn[a]
			cost := x.p*x.n - x.p - x.n
			if first || cost < bestCost {
				best, bestCost, first = a, cost, false
			}
		}
		var pos, neg, rest []*Lin
		for _, l := range cur {
			c, has := l.T[best]
			switch {
			case !has:
				rest = append(rest, l)
			case c.Sign() > 0:
				pos = append(pos, l)
			default:
				neg = append(neg, l)
			}
		}
		if len(rest)+len(pos)*len(neg) > fmCap {
			return false, false
		}
		seen = map[string]bool{}
		next := make([]*Lin, 0, len(rest)+len(pos)*len(neg))
		for _, l := range rest {
			seen[l.key()] = true
			next = append(next, l)
		}
		for _, p := range pos {
			for _, n := range neg {
				cp := p.T[best]
				cnn := new(big.Int).Neg(n.T[best])
				comb := p.scale(cnn).addScaled(n, cp)
				delete(comb.T, best)
				if push(&next, comb) {
					return true, true
				}
			}
		}
		cur = next
	}
}

// entails reports whether facts ⊢ goal (goal: "≤ 0") over the integers
// (sound, incomplete: rational relaxation with gcd tightening).
func entails(facts []*Lin, goal *Lin) bool {
	g := normIneq(goal)
	if g.isConst() {
		if g.C.Sign() <= 0 {
			return true
		}
	}
	// restrict to the connected component of the goal's atoms, but keep
	// constant contradictions and small independent components (ex falso).
	rel := relevant(facts, g)
	cons := append(rel, negIneq(g))
	r, ok := unsat(cons)
	return ok && r
}

// relevant returns the facts transitively sharing atoms with goal. Facts in
// other components can only matter if they are inconsistent by themselves;
// those components are checked separately (cheaply) by inconsistent().
func relevant(facts []*Lin, goal *Lin) []*Lin {
	in := map[AtomID]bool{}
	for a := range goal.T {
		in[a] = true
	}
	used := make([]bool, len(facts))
	var out []*Lin
	for changed := true; changed; {
		changed = false
		for i, f := range facts {
			if used[i] {
				continue
			}
			hit := len(f.T) == 0
			for a := range f.T {
				if in[a] {
					hit = true
					break
				}
			}
			if hit {
				used[i] = true
				out = append(out, f)
				for a := range f.T {
					if !in[a] {
						in[a] = true
						changed = true
					}
				}
			}
		}
	}
	return out
}
