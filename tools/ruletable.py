#!/usr/bin/env python3
"""Regenerates the rule table of DESIGN.md §10.3 from the evidence files (rule ids and instance counts as the
checks reported them on the tree they last ran on)."""
import json, re, sys, os

root = os.path.dirname(os.path.dirname(os.path.abspath(__file__)))
rows = []
for i in range(1, 21):
    pid = "C%02d" % i
    try:
        e = json.load(open(os.path.join(root, "evidence", pid + ".json")))
    except Exception as ex:
        print("no evidence for", pid, ex, file=sys.stderr)
        continue
    ri = e["coverage"].get("rule_instances", [])
    pairs = []
    if isinstance(ri, dict):
        ri = list(ri.items())
    for x in ri:
        if isinstance(x, dict):
            pairs.append((x.get("rule"), x.get("count", x.get("instances", 0))))
        else:
            pairs.append((x[0], x[1]))
    pairs = [(r.split("/", 1)[-1], n) for r, n in pairs]
    pairs.sort(key=lambda t: (-t[1], t[0]))
    rows.append("| %s | %s |" % (pid, ", ".join("%s %d" % (r, n) for r, n in pairs)))

p = os.path.join(root, "DESIGN.md")
s = open(p).read()
m = re.search(r"(\| prop \| rules \(instances on the pinned tree\) \|\n\|---\|---\|\n)((?:\| C\d\d \|.*\n)+)", s)
if not m:
    sys.exit("table not found in DESIGN.md")
s = s[: m.start(2)] + "\n".join(rows) + "\n" + s[m.end(2):]
open(p, "w").write(s)
print("updated", len(rows), "rows")
