#!/bin/bash
# usage: tools/sedmut.sh <file-rel> <sed-expr> <props...> : apply a sed edit in the scratch worktree, build, run checks, revert
WT=/tmp/mutwt
f=$1; e=$2; shift 2
[ -d $WT ] || git -C /repo worktree add --detach $WT HEAD >/dev/null 2>&1
git -C $WT checkout -q --detach $(git -C /repo rev-parse HEAD) 2>/dev/null
git -C $WT checkout -- . 
sed -i -E "$e" $WT/$f
if git -C $WT diff --quiet; then echo "NO CHANGE"; exit 3; fi
git -C $WT diff | grep '^[-+][^-+]' | head -6
export GOFLAGS=-mod=mod GOPROXY=off GOSUMDB=off GOTOOLCHAIN=local GOWORK=off
(cd $WT && go build ./... 2>&1 | head -5)
for p in "$@"; do
  out=$(/verif/bin/gopkgcheck -prop $p -repo $WT -verif /verif -no-evidence 2>&1 | grep -v conda)
  rc=$?
  echo "$p reports=$(echo "$out" | grep -c "^$p/")"
  echo "$out" | grep "^$p/" | head -3 | cut -c1-330
done
git -C $WT checkout -- .
