#!/bin/bash
# usage: revert_one.sh <commit> <prop> : worktree with that fix reverted; the property's check must alarm
C=$1; P=$2
WT=/tmp/rvwt_${C}_$P
git -C /repo worktree remove --force $WT >/dev/null 2>&1
git -C /repo worktree add -q --detach $WT HEAD || exit 2
git -C $WT revert -n $C >/dev/null 2>&1 || { echo "$C $P: revert conflict"; git -C /repo worktree remove --force $WT; exit 1; }
out=$(/verif/bin/gopkgcheck -prop $P -repo $WT -verif /verif -no-evidence 2>&1); rc=$?
rules=$(printf '%s\n' "$out" | grep "^$P/" | sed -E "s#^$P/([A-Z0-9⇒-]+) .*#\1#" | sort -u | paste -sd,)
echo "$C $P rc=$rc [$rules]"
git -C /repo worktree remove --force $WT >/dev/null 2>&1
