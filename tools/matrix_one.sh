#!/bin/bash
# usage: tools/matrix_one.sh <seeded-id> : runs every check against the seeded change in a scratch worktree; prints "<id>: Cxx Cyy ..."
ID=$1
WT=/tmp/mxwt_$ID
git -C /repo worktree remove --force $WT >/dev/null 2>&1
git -C /repo worktree add -q --detach $WT HEAD || exit 2
git -C $WT apply /verif/seeded/$ID/patch.diff || { echo "$ID: PATCH-FAILED"; git -C /repo worktree remove --force $WT; exit 1; }
hits=""
for p in C01 C02 C03 C04 C05 C06 C07 C08 C09 C10 C11 C12 C13 C14 C15 C16 C17 C18 C19 C20; do
  out=$(${BIN:-/verif/bin/gopkgcheck} -prop $p -repo $WT -verif /verif -no-evidence 2>&1); rc=$?
  if [ $rc -eq 1 ]; then
    rules=$(printf '%s\n' "$out" | grep "^$p/" | sed -E "s#^$p/([A-Z0-9⇒-]+) .*#\1#" | sort -u | paste -sd,)
    hits="$hits $p[$rules]"
  elif [ $rc -ne 0 ]; then hits="$hits $p[rc=$rc]"; fi
done
echo "$ID:$hits"
git -C /repo worktree remove --force $WT >/dev/null 2>&1
