#!/bin/sh
# usage: tools/runmut.sh <patch.diff> <prop> [<prop>...]
# Applies the patch to a scratch worktree of /repo (never to /repo itself), runs the
# given checks against it without writing evidence, prints one line per check, reverts.
set -u
PATCH="$1"; shift
WT=${MUT_WT:-/tmp/mutwt}
if [ ! -d "$WT" ]; then git -C /repo worktree add -q --detach "$WT" HEAD || exit 2; fi
git -C "$WT" checkout -q --detach "$(git -C /repo rev-parse HEAD)" 2>/dev/null
git -C "$WT" checkout -q -- . ; git -C "$WT" clean -fdq
git -C "$WT" apply "$PATCH" || { echo "patch does not apply"; exit 2; }
for p in "$@"; do
  out=$(/verif/bin/gopkgcheck -prop "$p" -repo "$WT" -verif /verif -no-evidence 2>&1); rc=$?
  n=$(printf '%s\n' "$out" | grep -c "^$p/")
  echo "$p rc=$rc reports=$n"
  printf '%s\n' "$out" | grep "^$p/" | cut -c1-${MUT_COLS:-200} | head -${MUT_LINES:-4}
done
git -C "$WT" checkout -q -- . ; git -C "$WT" clean -fdq
