#!/bin/bash
# usage: tools/benign_one.sh <patch.diff> : runs every check against a behaviour-preserving edit in a scratch worktree; any report is a false alarm
PATCH=$1
ID=$(echo $PATCH | sed 's#/#_#g')
WT=/tmp/bnwt_$ID
git -C /repo worktree remove --force $WT >/dev/null 2>&1
git -C /repo worktree add -q --detach $WT HEAD || exit 2
git -C $WT apply $PATCH || { echo "$PATCH: PATCH-FAILED"; git -C /repo worktree remove --force $WT; exit 1; }
hits=""
for p in C01 C02 C03 C04 C05 C06 C07 C08 C09 C10 C11 C12 C13 C14 C15 C16 C17 C18 C19 C20; do
  out=$(${BIN:-/verif/bin/gopkgcheck} -prop $p -repo $WT -verif /verif -no-evidence 2>&1); rc=$?
  if [ $rc -ne 0 ]; then
    hits="$hits $p(rc=$rc)"
    printf '%s\n' "$out" | grep "^$p/\|ANALYSIS-ERROR\|panic" | head -4 | cut -c1-420 | sed "s#^#    #" > /tmp/bn_$ID.$p.txt
  fi
done
echo "$PATCH:$hits"
cat /tmp/bn_$ID.*.txt 2>/dev/null; rm -f /tmp/bn_$ID.*.txt
git -C /repo worktree remove --force $WT >/dev/null 2>&1
