#!/bin/bash
# usage: tools/confirm_mut.sh <srcdir with patch.diff demo_test.go meta.json> <id>
# Confirms a seeded change in a scratch worktree (never /repo): it applies, builds, the
# repository's own tests still pass, the demonstration fails with it and passes without it.
# On success the change is kept as /verif/seeded/<id>/ with a confirmation record.
set -u
SRC=$1; ID=$2
export GOFLAGS=-mod=mod GOPROXY=off GOSUMDB=off GOTOOLCHAIN=local GOWORK=off
WT=/tmp/confwt_$ID
LOG=/tmp/confirm_$ID.log
: > $LOG
git -C /repo worktree remove --force $WT >/dev/null 2>&1
git -C /repo worktree add -q --detach $WT HEAD || { echo "$ID worktree-failed"; exit 2; }
cleanup() { git -C /repo worktree remove --force $WT >/dev/null 2>&1; }
trap cleanup EXIT
DEMO_DIR=$(python3 -c "import json,sys; print(json.load(open('$SRC/meta.json')).get('demo_dir',''))")
[ -n "$DEMO_DIR" ] || { echo "$ID no-demo-dir"; exit 2; }
TESTS=$(grep -ho '^func Test[A-Za-z0-9_]*' $SRC/demo_test.go | sed 's/func //' | paste -sd'|')
cd $WT
git apply $SRC/patch.diff >>$LOG 2>&1 || { echo "$ID patch-does-not-apply"; exit 1; }
go build ./... >>$LOG 2>&1 || { echo "$ID does-not-build"; exit 1; }
go vet ./... >>$LOG 2>&1; VET=$?
go test -vet=off -count=1 ./... >>$LOG 2>&1; SUITE=$?
cp $SRC/demo_test.go $DEMO_DIR/zz_seeded_demo_test.go
go test -vet=off -count=1 -run "^($TESTS)\$" ./$DEMO_DIR >>$LOG 2>&1; WITH=$?
git checkout -q -- . ; git clean -fdq   # changes that add files must not leave them behind
cp $SRC/demo_test.go $DEMO_DIR/zz_seeded_demo_test.go
go test -vet=off -count=1 -run "^($TESTS)\$" ./$DEMO_DIR >>$LOG 2>&1; WITHOUT=$?
rm -f $DEMO_DIR/zz_seeded_demo_test.go
echo "$ID suite_rc=$SUITE vet_rc=$VET demo_with_change_rc=$WITH demo_without_change_rc=$WITHOUT tests=$TESTS"
if [ $SUITE -eq 0 ] && [ $WITH -ne 0 ] && [ $WITHOUT -eq 0 ]; then
  mkdir -p /verif/seeded/$ID
  cp $SRC/patch.diff /verif/seeded/$ID/patch.diff
  cp $SRC/demo_test.go /verif/seeded/$ID/demo_test.go
  python3 - "$SRC/meta.json" "/verif/seeded/$ID/meta.json" "$TESTS" "$DEMO_DIR" "$(git -C /repo rev-parse HEAD)" <<'PY'
import json,sys
src,dst,tests,demo_dir,head=sys.argv[1:6]
m=json.load(open(src))
out={"breaks_property":m.get("property"),"files":m.get("files"),"what":m.get("what"),"needs_to_manifest":m.get("needs"),
 "demo_dir":demo_dir,"demo_tests":tests.split("|"),
 "confirmed":{"base_commit":head,"how":"tools/confirm_mut.sh in a scratch worktree of /repo: git apply; go build ./...; go test -vet=off -count=1 ./... (passes with the change); demo copied into demo_dir and run with the change (fails) and without it (passes)",
   "suite_passes_with_change":True,"demo_fails_with_change":True,"demo_passes_without_change":True}}
json.dump(out,open(dst,"w"),indent=1)
PY
  exit 0
fi
exit 1
