#!/usr/bin/env python3
"""Regenerates /verif/MANIFEST.json from tools/claims.json (one entry per claimed property)."""
import json, os
root = os.path.dirname(os.path.dirname(os.path.abspath(__file__)))
props = [json.loads(l) for l in open(os.path.join(root, 'properties.jsonl'))]
claims = json.load(open(os.path.join(root, 'tools', 'claims.json')))
checks, na = [], []
for p in props:
    c = claims.get(p['id'])
    if not c or not c.get('claimed'):
        na.append({"property_id": p['id'], "reason": (c or {}).get('reason', "check not implemented yet at this commit (design in DESIGN.md section 5)")})
        continue
    checks.append({
        "property_id": p['id'],
        "quick_cmd": "./check.sh %s quick" % p['id'],
        "thorough_cmd": "./check.sh %s thorough" % p['id'],
        "evidence_file": "/verif/evidence/%s.json" % p['id'],
        "replay_cmd_template": "bin/gopkgcheck -explain {path}",
        "engine": "gopkgcheck",
        "level_claimed": {"category": c.get('level', 'other'), "text": c['text'], "design_ref": c.get('design_ref', 'DESIGN.md section 5, ' + p['id'])},
        "level_note": c['note'],
        "technique": c['technique'],
    })
m = {
    "version": 1,
    "setup_cmd": "cd /verif/checker && GOFLAGS=-mod=mod GOPROXY=off GOSUMDB=off GOTOOLCHAIN=local GOWORK=off go build -o ../bin/gopkgcheck .",
    "hooks": {"guard": "verif", "enable": "none needed: the analyser reads /repo's sources (go/packages + go/ssa); nothing in /repo is built with hooks",
              "baseline_off_cmd": "cd /repo && go build ./... && go test -vet=off -count=1 ./...", "source_commits": [], "add_only": True},
    "engines": [{"name": "gopkgcheck", "path": "/verif/checker", "serves_properties": [c['property_id'] for c in checks],
                 "kind_free_text": "repository-specific static analyser over the type-checked SSA form of /repo (golang.org/x/tools v0.29.0): linear-arithmetic abstract reasoning with inferred loop invariants and function contracts (E1), effect/typestate/path rules, layout and table comparisons"}],
    "checks": checks,
    "notes": "Static analysis only; nothing in /repo is executed by the checks. fix: commits in /repo for the defects D1-D12 are listed in known_findings.txt (fixed: entries). See DESIGN.md.",
    "not_applicable": na,
}
json.dump(m, open(os.path.join(root, 'MANIFEST.json'), 'w'), indent=1)
print("claimed:", [c['property_id'] for c in checks])
